/-
C04 — data is never purged, transferred or fetched while missing or still needed.

The environment of `Model/Ctrl.lean` evaluates one ghost monitor per clause of the property at
the moment a command arrives (`applyCmd`) or an I/O is performed (`envStep`); a failed monitor
appends its name to `Env.viol`. The theorems say that no C04 monitor ever fires, in any state
reachable under ANY order and batching of events, any interleaving of executor steps with the
controller's micro-steps, any admissible heuristic choice, for every well-formed job and cluster.
-/
import EkwVerif.Lemmas.CtrlFinal
import EkwVerif.Lemmas.CtrlN

namespace EkwVerif.Ctrl

/-- **Purge discipline.** A `purge(h, ds)` command is issued only when every consumer of `ds`
has run, when — if `ds` was requested — its value has reached the controller, when no task
queued on `h` needs it, and when no transmit or fetch commanded from `h` for `ds` is unanswered. -/
theorem c04_purge_safe (f : Sem) (j : Job) (cl : Cluster) (wf : WF j cl) (s : Sys) (hr : Reachable f j cl s) :
    "C04 purge-before-consumer-done" ∉ s.env.viol ∧ "C04 purge-before-output-delivered" ∉ s.env.viol ∧
    "C04 purge-needed-by-queued-task" ∉ s.env.viol ∧ "C04 purge-while-outstanding-from" ∉ s.env.viol := by
  have h := invAll_reachable f j cl wf s hr
  exact ⟨h.h2.no_purge_before_consumer, h.h3.no_purge_before_delivered, h.h2.no_purge_needed_queued,
    h.h4.no_purge_while_outstanding⟩

/-- **The named source holds the dataset.** Every transmit and fetch command names a host whose
store holds the dataset at that moment, and it still holds it when the I/O is performed. -/
theorem c04_source_holds (f : Sem) (j : Job) (cl : Cluster) (wf : WF j cl) (s : Sys) (hr : Reachable f j cl s) :
    "C04 transmit-from-missing" ∉ s.env.viol ∧ "C04 fetch-from-missing" ∉ s.env.viol ∧
    "C04 io-source-gone transmit" ∉ s.env.viol ∧ "C04 io-source-gone fetch" ∉ s.env.viol := by
  have h := invAll_reachable f j cl wf s hr
  exact ⟨h.h4.no_transmit_from_missing, h.h4.no_fetch_from_missing, h.h4.no_io_gone_t, h.h4.no_io_gone_f⟩

/-- The state-level form of the above: every outstanding transfer's source holds the dataset and
every outstanding fetch's source holds it. -/
theorem c04_outstanding_sources (f : Sem) (j : Job) (cl : Cluster) (wf : WF j cl) (s : Sys) (hr : Reachable f j cl s) :
    (∀ ds src tgt, IO.transmit ds src tgt ∈ s.env.outstanding → (s.env.present src ds).isSome = true) ∧
    (∀ ds h, IO.fetch ds h ∈ s.env.outstanding → (s.env.present h ds).isSome = true) := by
  have h := invAll_reachable f j cl wf s hr
  exact ⟨fun ds src tgt hm => (h.h4.transmit_out ds src tgt hm).1, fun ds hh hm => (h.h3.fetch_out ds hh hm).2.2.2.2⟩

/-- **A dropped dataset is never needed again.** Once `(h, ds)` has been purged, `ds` has no
unfinished consumer and is not an undelivered requested output — in this and (since `needed` only
shrinks) every later state; and no task is ever dispatched to a host from which one of its
inputs was purged. -/
theorem c04_never_needed_again (f : Sem) (j : Job) (cl : Cluster) (wf : WF j cl) (s : Sys) (hr : Reachable f j cl s) :
    (∀ h ds, (h, ds) ∈ s.env.purged → ¬ needed j s.ctl ds) ∧ "C04 input-purged-on-target" ∉ s.env.viol := by
  have h := invAll_reachable f j cl wf s hr
  exact ⟨h.h4.purged_unneeded, h.h4.no_input_purged⟩

/-- Each requested output is fetched at most once (the repaired defect: a replicated output was
fetched again and purged while that fetch was unanswered). -/
theorem c04_fetch_once (f : Sem) (j : Job) (cl : Cluster) (wf : WF j cl) (s : Sys) (hr : Reachable f j cl s) :
    ∀ ds, (s.env.outstanding.filter (isFetchOf ds)).length ≤ 1 :=
  (invAll_reachable f j cl wf s hr).h3.fetch_count

/-- **Completion is read off the notices of ALL outputs.** A dataset is queued for purging, and purged, only after the
notices of all outputs — in particular of the LAST one (in index = declaration order, the order in which a body
publishes) — of every task that consumes it have been processed by the controller, in whatever order they arrived; not
merely after that task has started or published something. -/
theorem c04_purge_after_last_notice (f : Sem) (j : Job) (cl : Cluster) (wf : WF j cl) (s : Sys) (hr : Reachable f j cl s)
    (ds : Ds) (hp : ds ∈ s.ctl.purgeQ ∨ ∃ h, (h, ds) ∈ s.env.purged) :
    ∀ t, t ∈ j.consumers ds → s.ctl.doneC t = true ∧ s.ctl.announced ⟨t, j.nOut t - 1⟩ = true ∧
      ∀ k, k < j.nOut t → s.ctl.announced ⟨t, k⟩ = true := by
  have h := invAll_reachable f j cl wf s hr
  intro t ht
  have hd : s.ctl.doneC t = true := by
    rcases hp with hq | ⟨hh, hq⟩
    · exact (h.h2.purgeQ_ok ds hq).1 t ht
    · cases hdc : s.ctl.doneC t with
      | true => rfl
      | false => exact absurd (Or.inl ⟨t, ht, hdc⟩) (h.h4.purged_unneeded hh ds hq)
  exact ⟨hd, invL_last f j cl wf s hr t hd, invL_reachable f j cl wf s hr t hd⟩

/-- **No purge while a consumer is running** (non-atomic task bodies, Model/CtrlN.lean). When task bodies publish their
outputs one at a time while they run, with controller rounds, deliveries, transfers and other bodies interleaved in any
way, a dataset is never queued for purging or purged on any host while a task that consumes it is still running
(= has started and has not yet published its last output). -/
theorem c04_no_purge_while_running (f : Sem) (j : Job) (cl : Cluster) (wf : WF j cl) (x : SysN) (hr : ReachableN f j cl x)
    (ds : Ds) (hp : ds ∈ x.sys.ctl.purgeQ ∨ ∃ h, (h, ds) ∈ x.sys.env.purged) :
    ∀ t, t ∈ j.consumers ds → x.running j t = false := by
  intro t ht
  have hb := reachableN_sys f j cl x hr
  exact not_running_of_last j x (invN_reachable f j cl wf x hr) t (c04_purge_after_last_notice f j cl wf x.sys hb ds hp t ht).2.1

/-- every invariant of the atomic system holds along non-atomic executions (in particular all monitors stay silent) -/
theorem c04_nonatomic_monitors (f : Sem) (j : Job) (cl : Cluster) (wf : WF j cl) (x : SysN) (hr : ReachableN f j cl x) :
    ∀ m, m ∈ ["C04 purge-before-consumer-done", "C04 purge-before-output-delivered", "C04 purge-needed-by-queued-task",
       "C04 purge-while-outstanding-from", "C04 transmit-from-missing", "C04 fetch-from-missing",
       "C04 io-source-gone transmit", "C04 io-source-gone fetch", "C04 input-purged-on-target"] → m ∉ x.sys.env.viol := by
  intro m hin
  have hb := reachableN_sys f j cl x hr
  have p1 := c04_purge_safe f j cl wf x.sys hb
  have p2 := c04_source_holds f j cl wf x.sys hb
  have p3 := (c04_never_needed_again f j cl wf x.sys hb).2
  simp only [List.mem_cons, List.not_mem_nil, or_false] at hin
  rcases hin with rfl | rfl | rfl | rfl | rfl | rfl | rfl | rfl | rfl
  · exact p1.1
  · exact p1.2.1
  · exact p1.2.2.1
  · exact p1.2.2.2
  · exact p2.1
  · exact p2.2.1
  · exact p2.2.2.1
  · exact p2.2.2.2
  · exact p3

/-! non-vacuity: a two-output task is RUNNING (first output published and already announced to the controller, second not
yet) while the controller goes through a full receive/notify round; the notice of an unpublished output cannot be received -/
section
def exJobN : Job := { tasks := [{ nOut := 2, gpu := false, inputs := [] }, { nOut := 1, gpu := false, inputs := [⟨0, 0⟩] }], ext := [⟨1, 0⟩] }
def exClN : Cluster := { workers := [(⟨0, 0⟩, false)] }
def exSemN : Sem := fun t k args => s!"t{t}.{k}({args})"
def exStepsN : List StepN :=
  [.base .enter, .base (.assign ⟨⟨0, 0⟩, 0, []⟩), .base .endAssign, .base .plan1, .base .endPlan, .base .endFlushF, .base .endFlush,
   .start ⟨0, 0⟩ 0, .yield 0, .base (.recv [.pubW ⟨0, 0⟩ ⟨0, 0⟩]), .base .notify1, .base .endNotify]
example : ((runStepsN exSemN exJobN exClN (SysN.init exJobN exClN) exStepsN).map
    (fun x => (x.running exJobN 0, x.sys.ctl.announced ⟨0, 0⟩, x.sys.ctl.doneC 0, x.sys.env.ran 0))) = some (true, true, false, true) := by
  decide
example : (runStepsN exSemN exJobN exClN (SysN.init exJobN exClN)
    (exStepsN.take 8 ++ [.base (.recv [.pubW ⟨0, 0⟩ ⟨0, 0⟩])])).isNone = true := by
  decide
end

end EkwVerif.Ctrl
