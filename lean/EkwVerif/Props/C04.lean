/-
C04 — data is never purged, transferred or fetched while missing or still needed.

The environment of `Model/Ctrl.lean` evaluates one ghost monitor per clause of the property at
the moment a command arrives (`applyCmd`) or an I/O is performed (`envStep`); a failed monitor
appends its name to `Env.viol`. The theorems say that no C04 monitor ever fires, in any state
reachable under ANY order and batching of events, any interleaving of executor steps with the
controller's micro-steps, any admissible heuristic choice, for every well-formed job and cluster.
-/
import EkwVerif.Lemmas.CtrlFinal

namespace EkwVerif.Ctrl

/-- **Purge discipline.** A `purge(h, ds)` command is issued only when every consumer of `ds`
has run, when — if `ds` was requested — its value has reached the controller, when no task
queued on `h` needs it, and when no transmit or fetch commanded from `h` for `ds` is unanswered. -/
theorem c04_purge_safe (f : Sem) (j : Job) (cl : Cluster) (wf : WF j cl) (s : Sys) (hr : Reachable f j cl s) :
    "C04 purge-before-consumer-done" ∉ s.env.viol ∧ "C04 purge-before-output-delivered" ∉ s.env.viol ∧
    "C04 purge-needed-by-queued-task" ∉ s.env.viol ∧ "C04 purge-while-outstanding-from" ∉ s.env.viol := by
  have h := invAll_reachable f j cl wf s hr
  exact ⟨h.h2.no_purge_before_consumer, h.h3.no_purge_before_delivered, h.h2.no_purge_needed_queued,
    h.h4.no_purge_while_outstanding⟩

/-- **The named source holds the dataset.** Every transmit and fetch command names a host whose
store holds the dataset at that moment, and it still holds it when the I/O is performed. -/
theorem c04_source_holds (f : Sem) (j : Job) (cl : Cluster) (wf : WF j cl) (s : Sys) (hr : Reachable f j cl s) :
    "C04 transmit-from-missing" ∉ s.env.viol ∧ "C04 fetch-from-missing" ∉ s.env.viol ∧
    "C04 io-source-gone transmit" ∉ s.env.viol ∧ "C04 io-source-gone fetch" ∉ s.env.viol := by
  have h := invAll_reachable f j cl wf s hr
  exact ⟨h.h4.no_transmit_from_missing, h.h4.no_fetch_from_missing, h.h4.no_io_gone_t, h.h4.no_io_gone_f⟩

/-- The state-level form of the above: every outstanding transfer's source holds the dataset and
every outstanding fetch's source holds it. -/
theorem c04_outstanding_sources (f : Sem) (j : Job) (cl : Cluster) (wf : WF j cl) (s : Sys) (hr : Reachable f j cl s) :
    (∀ ds src tgt, IO.transmit ds src tgt ∈ s.env.outstanding → (s.env.present src ds).isSome = true) ∧
    (∀ ds h, IO.fetch ds h ∈ s.env.outstanding → (s.env.present h ds).isSome = true) := by
  have h := invAll_reachable f j cl wf s hr
  exact ⟨fun ds src tgt hm => (h.h4.transmit_out ds src tgt hm).1, fun ds hh hm => (h.h3.fetch_out ds hh hm).2.2.2.2⟩

/-- **A dropped dataset is never needed again.** Once `(h, ds)` has been purged, `ds` has no
unfinished consumer and is not an undelivered requested output — in this and (since `needed` only
shrinks) every later state; and no task is ever dispatched to a host from which one of its
inputs was purged. -/
theorem c04_never_needed_again (f : Sem) (j : Job) (cl : Cluster) (wf : WF j cl) (s : Sys) (hr : Reachable f j cl s) :
    (∀ h ds, (h, ds) ∈ s.env.purged → ¬ needed j s.ctl ds) ∧ "C04 input-purged-on-target" ∉ s.env.viol := by
  have h := invAll_reachable f j cl wf s hr
  exact ⟨h.h4.purged_unneeded, h.h4.no_input_purged⟩

/-- Each requested output is fetched at most once (the repaired defect: a replicated output was
fetched again and purged while that fetch was unanswered). -/
theorem c04_fetch_once (f : Sem) (j : Job) (cl : Cluster) (wf : WF j cl) (s : Sys) (hr : Reachable f j cl s) :
    ∀ ds, (s.env.outstanding.filter (isFetchOf ds)).length ≤ 1 :=
  (invAll_reachable f j cl wf s hr).h3.fetch_count

end EkwVerif.Ctrl
