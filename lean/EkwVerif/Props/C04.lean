/-
C04 — data is never purged, transferred or fetched while missing or still needed.

The environment of `Model/Ctrl.lean` evaluates one ghost monitor per clause of the property at
the moment a command arrives (`applyCmd`) or an I/O is performed (`envStep`); a failed monitor
appends its name to `Env.viol`. The theorems say that no C04 monitor ever fires, in any state
reachable under ANY order and batching of events, any interleaving of executor steps with the
controller's micro-steps, any admissible heuristic choice, for every well-formed job and cluster.
-/
import EkwVerif.Lemmas.CtrlFinal
import EkwVerif.Lemmas.CtrlN
import EkwVerif.Lemmas.SchedTermA

namespace EkwVerif.Ctrl

/-- **Purge discipline.** A `purge(h, ds)` command is issued only when every consumer of `ds`
has run, when — if `ds` was requested — its value has reached the controller, when no task
queued on `h` needs it, and when no transmit or fetch commanded from `h` for `ds` is unanswered. -/
theorem c04_purge_safe (f : Sem) (j : Job) (cl : Cluster) (wf : WF j cl) (s : Sys) (hr : Reachable f j cl s) :
    "C04 purge-before-consumer-done" ∉ s.env.viol ∧ "C04 purge-before-output-delivered" ∉ s.env.viol ∧
    "C04 purge-needed-by-queued-task" ∉ s.env.viol ∧ "C04 purge-while-outstanding-from" ∉ s.env.viol := by
  have h := invAll_reachable f j cl wf s hr
  exact ⟨h.h2.no_purge_before_consumer, h.h3.no_purge_before_delivered, h.h2.no_purge_needed_queued,
    h.h4.no_purge_while_outstanding⟩

/-- **The named source holds the dataset.** Every transmit and fetch command names a host whose
store holds the dataset at that moment, and it still holds it when the I/O is performed. -/
theorem c04_source_holds (f : Sem) (j : Job) (cl : Cluster) (wf : WF j cl) (s : Sys) (hr : Reachable f j cl s) :
    "C04 transmit-from-missing" ∉ s.env.viol ∧ "C04 fetch-from-missing" ∉ s.env.viol ∧
    "C04 io-source-gone transmit" ∉ s.env.viol ∧ "C04 io-source-gone fetch" ∉ s.env.viol := by
  have h := invAll_reachable f j cl wf s hr
  exact ⟨h.h4.no_transmit_from_missing, h.h4.no_fetch_from_missing, h.h4.no_io_gone_t, h.h4.no_io_gone_f⟩

/-- The state-level form of the above: every outstanding transfer's source holds the dataset and
every outstanding fetch's source holds it. -/
theorem c04_outstanding_sources (f : Sem) (j : Job) (cl : Cluster) (wf : WF j cl) (s : Sys) (hr : Reachable f j cl s) :
    (∀ ds src tgt, IO.transmit ds src tgt ∈ s.env.outstanding → (s.env.present src ds).isSome = true) ∧
    (∀ ds h, IO.fetch ds h ∈ s.env.outstanding → (s.env.present h ds).isSome = true) := by
  have h := invAll_reachable f j cl wf s hr
  exact ⟨fun ds src tgt hm => (h.h4.transmit_out ds src tgt hm).1, fun ds hh hm => (h.h3.fetch_out ds hh hm).2.2.2.2⟩

/-- **A dropped dataset is never needed again.** Once `(h, ds)` has been purged, `ds` has no
unfinished consumer and is not an undelivered requested output — in this and (since `needed` only
shrinks) every later state; and no task is ever dispatched to a host from which one of its
inputs was purged. -/
theorem c04_never_needed_again (f : Sem) (j : Job) (cl : Cluster) (wf : WF j cl) (s : Sys) (hr : Reachable f j cl s) :
    (∀ h ds, (h, ds) ∈ s.env.purged → ¬ needed j s.ctl ds) ∧ "C04 input-purged-on-target" ∉ s.env.viol := by
  have h := invAll_reachable f j cl wf s hr
  exact ⟨h.h4.purged_unneeded, h.h4.no_input_purged⟩

/-- Each requested output is fetched at most once (the repaired defect: a replicated output was
fetched again and purged while that fetch was unanswered). -/
theorem c04_fetch_once (f : Sem) (j : Job) (cl : Cluster) (wf : WF j cl) (s : Sys) (hr : Reachable f j cl s) :
    ∀ ds, (s.env.outstanding.filter (isFetchOf ds)).length ≤ 1 :=
  (invAll_reachable f j cl wf s hr).h3.fetch_count

/-- **Completion is read off the notices of ALL outputs.** A dataset is queued for purging, and purged, only after the
notices of all outputs — in particular of the LAST one (in index = declaration order, the order in which a body
publishes) — of every task that consumes it have been processed by the controller, in whatever order they arrived; not
merely after that task has started or published something. -/
theorem c04_purge_after_last_notice (f : Sem) (j : Job) (cl : Cluster) (wf : WF j cl) (s : Sys) (hr : Reachable f j cl s)
    (ds : Ds) (hp : ds ∈ s.ctl.purgeQ ∨ ∃ h, (h, ds) ∈ s.env.purged) :
    ∀ t, t ∈ j.consumers ds → s.ctl.doneC t = true ∧ s.ctl.announced ⟨t, j.nOut t - 1⟩ = true ∧
      ∀ k, k < j.nOut t → s.ctl.announced ⟨t, k⟩ = true := by
  have h := invAll_reachable f j cl wf s hr
  intro t ht
  have hd : s.ctl.doneC t = true := by
    rcases hp with hq | ⟨hh, hq⟩
    · exact (h.h2.purgeQ_ok ds hq).1 t ht
    · cases hdc : s.ctl.doneC t with
      | true => rfl
      | false => exact absurd (Or.inl ⟨t, ht, hdc⟩) (h.h4.purged_unneeded hh ds hq)
  exact ⟨hd, invL_last f j cl wf s hr t hd, invL_reachable f j cl wf s hr t hd⟩

/-- **No purge while a consumer is running** (non-atomic task bodies, Model/CtrlN.lean). When task bodies publish their
outputs one at a time while they run, with controller rounds, deliveries, transfers and other bodies interleaved in any
way, a dataset is never queued for purging or purged on any host while a task that consumes it is still running
(= has started and has not yet published its last output). -/
theorem c04_no_purge_while_running (f : Sem) (j : Job) (cl : Cluster) (wf : WF j cl) (x : SysN) (hr : ReachableN f j cl x)
    (ds : Ds) (hp : ds ∈ x.sys.ctl.purgeQ ∨ ∃ h, (h, ds) ∈ x.sys.env.purged) :
    ∀ t, t ∈ j.consumers ds → x.running j t = false := by
  intro t ht
  have hb := reachableN_sys f j cl x hr
  exact not_running_of_last j x (invN_reachable f j cl wf x hr) t (c04_purge_after_last_notice f j cl wf x.sys hb ds hp t ht).2.1

/-- every invariant of the atomic system holds along non-atomic executions (in particular all monitors stay silent) -/
theorem c04_nonatomic_monitors (f : Sem) (j : Job) (cl : Cluster) (wf : WF j cl) (x : SysN) (hr : ReachableN f j cl x) :
    ∀ m, m ∈ ["C04 purge-before-consumer-done", "C04 purge-before-output-delivered", "C04 purge-needed-by-queued-task",
       "C04 purge-while-outstanding-from", "C04 transmit-from-missing", "C04 fetch-from-missing",
       "C04 io-source-gone transmit", "C04 io-source-gone fetch", "C04 input-purged-on-target"] → m ∉ x.sys.env.viol := by
  intro m hin
  have hb := reachableN_sys f j cl x hr
  have p1 := c04_purge_safe f j cl wf x.sys hb
  have p2 := c04_source_holds f j cl wf x.sys hb
  have p3 := (c04_never_needed_again f j cl wf x.sys hb).2
  simp only [List.mem_cons, List.not_mem_nil, or_false] at hin
  rcases hin with rfl | rfl | rfl | rfl | rfl | rfl | rfl | rfl | rfl
  · exact p1.1
  · exact p1.2.1
  · exact p1.2.2.1
  · exact p1.2.2.2
  · exact p2.1
  · exact p2.2.1
  · exact p2.2.2.1
  · exact p2.2.2.2
  · exact p3

/-! ### the transmit source: the scan of `build_assignment` (audit C04 #2)

`build_assignment` takes as transmit source the first host, in the iteration order of the dict `ds2host[ds]`, whose status
is `available` (`scanSource`, Lemmas/SchedTermA.lean; the order is a parameter). In the base model the source is an oracle
argument that `buildPrep` validates; the theorems below are about the scan itself. -/

/-- **Whatever host the scan returns holds the dataset, and the scan does return one.** For every computable task and
every input of it: (1) in whatever order the hosts are scanned, a host the scan returns is believed `available` AND its
store really holds the dataset (belief ⇒ truth for needed datasets); (2) scanning the cluster's hosts finds a source, so
`build_assignment` does not raise "not found in any host". -/
theorem c04_scan_source_holds (f : Sem) (j : Job) (cl : Cluster) (wf : WF j cl) (s : Sys) (hr : Reachable f j cl s)
    (t : Task) (ht : t ∈ s.ctl.computable) (ds : Ds) (hds : ds ∈ j.inputs t) :
    (∀ order h, scanSource order s.ctl ds = some h →
      s.ctl.dsHost ds h = .available ∧ (s.env.present h ds).isSome = true) ∧
    (∃ h, scanSource cl.hosts s.ctl ds = some h) := by
  have hA := invAll_reachable f j cl wf s hr
  have hlt := hA.h2.comp_valid t ht
  have hnd : s.ctl.doneC t = false := by
    cases hd : s.ctl.doneC t with
    | false => rfl
    | true =>
      have h1 := (hA.h2.ran_disp t (hA.h2.done_ran t hd)).1
      have h0 := hA.h1.once.comp t ht
      omega
  have hcons : t ∈ j.consumers ds := by
    simp only [Job.consumers, Job.taskIds, List.mem_filter, List.mem_range, List.contains_iff_mem]
    exact ⟨hlt, hds⟩
  have hneed : needed j s.ctl ds := Or.inl ⟨t, hcons, hnd⟩
  refine ⟨?_, ?_⟩
  · intro order h hs
    have hav := (scanSource_available order s.ctl ds h hs).1
    exact ⟨hav, hA.h4.avail_present h ds hav hneed⟩
  · have hann := hA.h2.ready t (Or.inl ht) ds hds
    obtain ⟨h, hh, hav⟩ := hA.h4.avail_somewhere ds hann ⟨t, hcons, hnd⟩
    cases hsc : scanSource cl.hosts s.ctl ds with
    | some h' => exact ⟨h', rfl⟩
    | none => exact absurd hav (scanSource_none cl.hosts s.ctl ds hsc h hh)

/-- **A redundant transfer never exists**: no transfer is outstanding towards a host that already holds the dataset, and
at most one transfer of a dataset to a host is outstanding at a time — so the branch of the environment that silently
drops a redundant transfer is unreachable (the auditor measured 0 occurrences in 355 transmits: it is 0 always). -/
theorem c04_no_redundant_transmit (f : Sem) (j : Job) (cl : Cluster) (wf : WF j cl) (s : Sys) (hr : Reachable f j cl s) :
    (∀ ds src tgt, IO.transmit ds src tgt ∈ s.env.outstanding → s.env.present tgt ds = none) ∧
    (∀ ds tgt, (s.env.outstanding.filter (isTransmitTo ds tgt)).length ≤ 1) := by
  have h := invAll_reachable f j cl wf s hr
  exact ⟨fun ds src tgt hm => (h.h4.transmit_out ds src tgt hm).2.1, h.h4x.transmit_count⟩

/-! ### "unanswered" (audit C04 #1)

In `Env` a commanded transfer/fetch is `outstanding` until it is PERFORMED: until a copy of the payload has got through
and is stored at the target (transfer), resp. has been put on its way to the controller (fetch). `c04_purge_safe` says a
source is not purged while an I/O from it is outstanding in that sense. The ANSWER of a fetch is the payload reaching
the controller; the answer of a transfer is the bare notice `DatasetPublished(transmit_idx)` of the target. -/

/-- **When a dataset is queued for purging every transfer and fetch of it has had its effect** (the causal argument that
makes "performed" sufficient): no transfer of it is outstanding anywhere (each was commanded for a consumer, and all
consumers have completed — so each target stored the dataset), no fetch of it is outstanding, and the answer of its fetch
has been DELIVERED to the controller (no payload of it is still on its way). All that may remain unanswered is the bare
notice of a transfer that has already been performed (`c04_transfer_notice_full_fails`). Hand-over to C07: below the
Bridge API a transfer is performed when the target's data server has stored a copy; C07 shows that the source re-sends
until acked unless the dataset is purged at the source (`c07_retry_until_acked`), that a copy that gets through is stored
and announced, and that a purge waits for sends in progress (`c07_purge_waits`); C04 supplies what C07 needs from the
controller: the source is not purged before a copy has been stored at the target. -/
theorem c04_queued_purge_io_done (f : Sem) (j : Job) (cl : Cluster) (wf : WF j cl) (s : Sys) (hr : Reachable f j cl s)
    (ds : Ds) (hq : ds ∈ s.ctl.purgeQ) :
    (∀ src tgt, IO.transmit ds src tgt ∉ s.env.outstanding) ∧ (∀ h, IO.fetch ds h ∉ s.env.outstanding) ∧
    (∀ v, Event.payload ds v ∉ s.allEv) ∧ (ds ∈ j.ext → s.env.delivered ds = true) := by
  have hA := invAll_reachable f j cl wf s hr
  obtain ⟨hdone, hext, _⟩ := hA.h2.purgeQ_ok ds hq
  refine ⟨?_, ?_, ?_, ?_⟩
  · intro src tgt hm
    obtain ⟨_, _, _, w, t, hqd, _, hin⟩ := hA.h4.transmit_out ds src tgt hm
    have hfl := hA.h1.queued_flight w t hqd
    have hlt := hA.h2.flight_valid w t hfl
    have hcons : t ∈ j.consumers ds := by
      simp only [Job.consumers, Job.taskIds, List.mem_filter, List.mem_range, List.contains_iff_mem]
      exact ⟨hlt, hin⟩
    have := hdone t hcons
    rw [hA.h2.flight_not_done w t hfl] at this; cases this
  · intro h hm
    obtain ⟨hx, hnone, _⟩ := hA.h3.fetch_out ds h hm
    have := hext hx
    rw [hnone] at this; cases this
  · intro v hm
    obtain ⟨hx, hnone, _⟩ := hA.h3.payload_ok ds v hm
    have := hext hx
    rw [hnone] at this; cases this
  · intro hx
    have := hext hx
    cases ho : s.ctl.outputs ds with
    | none => rw [ho] at this; cases this
    | some v => exact (hA.h3.outputs_ok ds v ho).2.1

/-- the same at the moment of the purge: in the state in which `flush_queues` pops `ds` from the purging queue -/
theorem c04_purge_io_done (f : Sem) (j : Job) (cl : Cluster) (wf : WF j cl) (s s' : Sys) (hr : Reachable f j cl s)
    (hs : step f j cl s .flushP1 = some s') :
    ∃ ds rest, s.ctl.purgeQ = ds :: rest ∧ (∀ src tgt, IO.transmit ds src tgt ∉ s.env.outstanding) ∧
      (∀ h, IO.fetch ds h ∉ s.env.outstanding) ∧ (∀ v, Event.payload ds v ∉ s.allEv) := by
  simp only [step] at hs
  split at hs; · cases hs
  split at hs
  · cases hs
  · rename_i ds rest hq
    have := c04_queued_purge_io_done f j cl wf s hr ds (by rw [hq]; simp)
    exact ⟨ds, rest, hq, this.1, this.2.1, this.2.2.1⟩

section
def exJobU : Job := { tasks := [{ nOut := 1, gpu := false, inputs := [] }, { nOut := 1, gpu := false, inputs := [⟨0, 0⟩] }], ext := [⟨1, 0⟩] }
def exClU : Cluster := { workers := [(⟨0, 0⟩, false), (⟨1, 0⟩, false)] }
def exSemU : Sem := fun t k args => s!"t{t}.{k}({args})"
/-- `t1 ← t0.0` runs on host 1 after a transfer of `t0.0` from host 0; the completion notice of `t1` is delivered BEFORE
the notice of the transfer -/
def exStepsU : List Step :=
  [.enter, .assign ⟨⟨0, 0⟩, 0, []⟩, .endAssign, .plan1, .endPlan, .endFlushF, .endFlush,
   .env (.run ⟨0, 0⟩ 0), .recv [.pubW ⟨0, 0⟩ ⟨0, 0⟩], .notify1, .endNotify,
   .enter, .assign ⟨⟨1, 0⟩, 1, [(⟨0, 0⟩, 0)]⟩, .endAssign, .plan1, .endPlan, .endFlushF, .endFlush,
   .env (.io 0), .env (.run ⟨1, 0⟩ 1), .recv [.pubW ⟨1, 0⟩ ⟨1, 0⟩], .notify1, .endNotify]
/-- … then the purge of `t0.0` on both hosts, then the late notice of the transfer -/
def exStepsU2 : List Step :=
  exStepsU ++ [.enter, .endAssign, .endPlan, .flushF1, .endFlushF, .flushP1, .endFlush, .recv [.pubT 1 ⟨0, 0⟩], .notify1, .endNotify]

theorem aux_runSteps_reachable (f : Sem) (j : Job) (cl : Cluster) : ∀ (l : List Step) (s s' : Sys), Reachable f j cl s →
    runSteps f j cl s l = some s' → Reachable f j cl s' := by
  intro l
  induction l with
  | nil => intro s s' hr h; simp only [runSteps, Option.some.injEq] at h; subst h; exact hr
  | cons st l ih =>
    intro s s' hr h
    simp only [runSteps] at h
    cases hst : step f j cl s st with
    | none => simp [hst] at h
    | some s1 => simp only [hst] at h; exact ih s1 s' (Reachable.step s s1 st hr hst) h

/-- **The literal reading of "unanswered" fails for transfers** (harmlessly): a dataset is queued for purging — and is
purged at the source in the next `flush_queues` — while the notice of a transfer commanded from that source has not yet
reached the controller. The transfer itself has been performed: `c04_queued_purge_io_done`.

Verdict (re-audit C04 #1): this IS a failure of clause (c) of the property text as written ("never drops it while a transfer …
it commanded from that host is still unanswered" — the answer of a transfer is its notice reaching the controller); it is
recorded as known finding `C04-purge-before-transfer-notice` (signature kind = purge-before-transfer-notice, transfer =
performed-and-stored-at-target), the provable part is `c04_queued_purge_io_done` / `c04_purge_io_done`, the witness
corpus/Ctrl_c04_late_transfer_notice.json must reproduce on the real controller in every run of the check. "Harmless" rests on
the hand-over to C07 (a purge at the source after the copy is stored at the target disturbs no send), which is stated, not
composed in Lean. -/
theorem c04_transfer_notice_full_fails :
    ¬ (∀ (f : Sem) (j : Job) (cl : Cluster) (s : Sys), WF j cl → Reachable f j cl s →
        ∀ ds, ds ∈ s.ctl.purgeQ → ∀ tgt, Event.pubT tgt ds ∉ s.allEv) := by
  intro h
  have hwf : WF exJobU exClU := by
    refine ⟨?_, ?_, ?_, ?_, ?_, by decide⟩
    · intro t ds hd
      match t, hd with
      | 0, hd => simp [exJobU, Job.inputs] at hd
      | 1, hd => simp [exJobU, Job.inputs] at hd; subst hd; decide
      | t + 2, hd => simp [exJobU, Job.inputs] at hd
    · intro t ds hd
      match t, hd with
      | 0, hd => simp [exJobU, Job.inputs] at hd
      | 1, hd => simp [exJobU, Job.inputs] at hd; subst hd; decide
      | t + 2, hd => simp [exJobU, Job.inputs] at hd
    · intro t ht
      match t, ht with
      | 0, _ => decide
      | 1, _ => decide
      | t + 2, ht => simp [exJobU] at ht; omega
    · intro t
      match t with
      | 0 => decide
      | 1 => decide
      | t + 2 => simp [exJobU, Job.inputs]
    · intro ds hd
      simp [exJobU] at hd; subst hd; decide
  cases hrun : runSteps exSemU exJobU exClU (Sys.init exJobU exClU) exStepsU with
  | none =>
    have : (runSteps exSemU exJobU exClU (Sys.init exJobU exClU) exStepsU).isSome = true := by decide
    rw [hrun] at this; cases this
  | some s =>
    have hr := aux_runSteps_reachable exSemU exJobU exClU exStepsU _ s Reachable.init hrun
    have h1 : ((runSteps exSemU exJobU exClU (Sys.init exJobU exClU) exStepsU).map
        (fun s => (s.ctl.purgeQ, s.inbox, s.env.pending))) = some ([⟨0, 0⟩], [], [.pubT 1 ⟨0, 0⟩]) := by decide
    rw [hrun] at h1
    simp only [Option.map_some, Option.some.injEq, Prod.mk.injEq] at h1
    have := h exSemU exJobU exClU s hwf hr ⟨0, 0⟩ (by rw [h1.1]; simp) 1
    apply this
    simp [Sys.allEv, h1.2.1, h1.2.2]

/-- after the late notice (audit C04 #3) the controller believes `t0.0` `available` on host 1, where it has been purged:
belief implies truth only for datasets that are still needed (`c04_belief_sound_partial`) — harmless, since a dataset
that is not needed is never named as a source again (`c04_scan_source_holds` is about inputs of computable tasks,
`Inv3.fetchQ_ok` about undelivered outputs) and is never purged twice -/
example : ((runSteps exSemU exJobU exClU (Sys.init exJobU exClU) exStepsU2).map
    (fun s => (s.env.purged, s.ctl.dsHost ⟨0, 0⟩ 1, s.env.present 1 ⟨0, 0⟩))) =
    some ([(0, ⟨0, 0⟩), (1, ⟨0, 0⟩)], .available, none) := by
  decide
example : ((runSteps exSemU exJobU exClU (Sys.init exJobU exClU) exStepsU2).map (fun s => (s.env.viol, s.err))) =
    some ([], none) := by
  decide
end

/-- **Belief implies truth for every dataset that is still needed**: a host the controller believes to hold `ds`
(`available`) does hold it as long as `ds` has an unfinished consumer or is an undelivered requested output. -/
theorem c04_belief_sound_partial (f : Sem) (j : Job) (cl : Cluster) (wf : WF j cl) (s : Sys) (hr : Reachable f j cl s)
    (h : Host) (ds : Ds) (hav : s.ctl.dsHost ds h = .available) (hn : needed j s.ctl ds) :
    (s.env.present h ds).isSome = true :=
  (invAll_reachable f j cl wf s hr).h4.avail_present h ds hav hn

/-- without `needed` it fails: the state after a late transfer notice for a purged dataset -/
theorem c04_belief_sound_full_fails :
    ¬ (∀ (f : Sem) (j : Job) (cl : Cluster) (s : Sys), Reachable f j cl s →
        ∀ h ds, s.ctl.dsHost ds h = .available → (s.env.present h ds).isSome = true) := by
  intro hall
  cases hrun : runSteps exSemU exJobU exClU (Sys.init exJobU exClU) exStepsU2 with
  | none =>
    have : (runSteps exSemU exJobU exClU (Sys.init exJobU exClU) exStepsU2).isSome = true := by decide
    rw [hrun] at this; cases this
  | some s =>
    have hr := aux_runSteps_reachable exSemU exJobU exClU exStepsU2 _ s Reachable.init hrun
    have h1 : ((runSteps exSemU exJobU exClU (Sys.init exJobU exClU) exStepsU2).map
        (fun s => (s.ctl.dsHost ⟨0, 0⟩ 1, s.env.present 1 ⟨0, 0⟩))) = some (.available, none) := by decide
    rw [hrun] at h1
    simp only [Option.map_some, Option.some.injEq, Prod.mk.injEq] at h1
    have := hall exSemU exJobU exClU s hr 1 ⟨0, 0⟩ h1.1
    rw [h1.2] at this; cases this

/-! non-vacuity: a two-output task is RUNNING (first output published and already announced to the controller, second not
yet) while the controller goes through a full receive/notify round; the notice of an unpublished output cannot be received -/
section
def exJobN : Job := { tasks := [{ nOut := 2, gpu := false, inputs := [] }, { nOut := 1, gpu := false, inputs := [⟨0, 0⟩] }], ext := [⟨1, 0⟩] }
def exClN : Cluster := { workers := [(⟨0, 0⟩, false)] }
def exSemN : Sem := fun t k args => s!"t{t}.{k}({args})"
def exStepsN : List StepN :=
  [.base .enter, .base (.assign ⟨⟨0, 0⟩, 0, []⟩), .base .endAssign, .base .plan1, .base .endPlan, .base .endFlushF, .base .endFlush,
   .start ⟨0, 0⟩ 0, .yield 0, .base (.recv [.pubW ⟨0, 0⟩ ⟨0, 0⟩]), .base .notify1, .base .endNotify]
example : ((runStepsN exSemN exJobN exClN (SysN.init exJobN exClN) exStepsN).map
    (fun x => (x.running exJobN 0, x.sys.ctl.announced ⟨0, 0⟩, x.sys.ctl.doneC 0, x.sys.env.ran 0))) = some (true, true, false, true) := by
  decide
example : (runStepsN exSemN exJobN exClN (SysN.init exJobN exClN)
    (exStepsN.take 8 ++ [.base (.recv [.pubW ⟨0, 0⟩ ⟨0, 0⟩])])).isNone = true := by
  decide
end

end EkwVerif.Ctrl
