/-
C05, clause "…the executor processes exit and leave no … shared-memory segments behind", shm-server side:
`Manager.atexit` (run by the server's ShutdownCommand and by its SIGTERM handler) unlinks EVERY segment of the store,
whatever the datasets' statuses, readers still registered (a reader that was killed never sends its close), pending
purges or disk jobs in flight — after any history of requests for which the store's invariant `Core` holds (all
`SafeRun` histories; the excluded class is the one of known finding C08-purge-in-flight).
This discharges, for the real status machine of Model/Shm.lean, the step `segments := []` that Model/Failure.lean
takes when the shm server is shut down, SIGTERMed or leaves its request loop through an exception (`terminate`,
`shmDies .sigterm`, `shmDies .loopException`): `serverExit` is what `entrypoint` does to the store on each way out of
`LocalServer.start()` according to the table generated from cascade/shm/server.py (Gen/ShmEntry.lean), and
`c05_server_exit_unlinks_all` shows that on EVERY way out nothing is left.
-/
import EkwVerif.Lemmas.ShmCore2
import EkwVerif.Gen.ShmEntry

namespace EkwVerif.Shm
open Aux

namespace Aux

/-- every segment belongs to a dataset that is not on disk -/
def SegOwned (s : St) : Prop := ∀ k g, find? s.segs k = some g → ∃ d, find? s.ds k = some d ∧ d.status ≠ .onDisk

theorem segOwned_of_core (s : St) (h : Core s) : SegOwned s := by
  intro k g hk
  obtain ⟨d, hd, hr, _⟩ := h.segLink k g hk
  refine ⟨d, hd, ?_⟩
  intro h'; rw [h'] at hr; simp [Status.resident] at hr

theorem find?_erase_some {α : Type} (l : List (String × α)) (k x : String) (v : α) (h : find? (erase l k) x = some v) (hn : Nd l) :
    find? l x = some v ∧ x ≠ k := by
  by_cases hx : x = k
  · subst hx; rw [find?_erase_self l x hn] at h; cases h
  · rw [find?_erase_ne l k x hx] at h; exact ⟨h, hx⟩

/-- one exit-purge: segments and datasets only shrink, the purged key has no segment afterwards, the link survives -/
theorem purgeExit_spec (s : St) (k : String) (hns : Nd s.segs) (hnd : Nd s.ds) (ho : SegOwned s) :
    Nd (purgeExit s k).segs ∧ Nd (purgeExit s k).ds ∧ SegOwned (purgeExit s k) ∧
    (∀ x g, find? (purgeExit s k).segs x = some g → find? s.segs x = some g) ∧
    find? (purgeExit s k).segs k = none := by
  unfold purgeExit
  cases hd : find? s.ds k with
  | none =>
    refine ⟨hns, hnd, ho, fun _ _ h => h, ?_⟩
    cases hs : find? s.segs k with
    | none => rfl
    | some g => obtain ⟨d, hd', _⟩ := ho k g hs; rw [hd] at hd'; cases hd'
  | some d =>
    simp only
    split
    · rename_i hst
      refine ⟨hns, hnd, ho, fun _ _ h => h, ?_⟩
      cases hs : find? s.segs k with
      | none => rfl
      | some g =>
        obtain ⟨d', hd', hne⟩ := ho k g hs
        rw [hd] at hd'; cases hd'
        exact absurd (by simpa using hst) hne
    · cases hs : find? s.segs k with
      | none => exact ⟨hns, hnd, ho, fun _ _ h => h, hs⟩
      | some g =>
        refine ⟨nd_erase _ _ hns, nd_erase _ _ hnd, ?_, ?_, find?_erase_self _ _ hns⟩
        · intro x g' hx
          obtain ⟨hx', hne⟩ := find?_erase_some _ _ _ _ hx hns
          obtain ⟨d', hd', hst'⟩ := ho x g' hx'
          exact ⟨d', by simpa [find?_erase_ne _ _ _ hne] using hd', hst'⟩
        · intro x g' hx
          exact (find?_erase_some _ _ _ _ hx hns).1

theorem fold_purgeExit_spec : ∀ (ks : List String) (s : St), Nd s.segs → Nd s.ds → SegOwned s →
    (∀ x g, find? (ks.foldl purgeExit s).segs x = some g → find? s.segs x = some g) ∧
    (∀ k, k ∈ ks → find? (ks.foldl purgeExit s).segs k = none) := by
  intro ks
  induction ks with
  | nil => intro s _ _ _; exact ⟨fun _ _ h => h, fun _ h => by cases h⟩
  | cons k ks ih =>
    intro s hns hnd ho
    obtain ⟨a, b, c, d, e⟩ := purgeExit_spec s k hns hnd ho
    obtain ⟨i1, i2⟩ := ih (purgeExit s k) a b c
    simp only [List.foldl_cons]
    refine ⟨fun x g h => d x g (i1 x g h), ?_⟩
    intro k' hk'
    rcases List.mem_cons.mp hk' with rfl | hin
    · cases hf : find? (ks.foldl purgeExit (purgeExit s k')).segs k' with
      | none => rfl
      | some g => have := i1 k' g hf; rw [e] at this; cases this
    · exact i2 k' hin

theorem all_none_nil {α : Type} : ∀ (l : List (String × α)), (∀ k, find? l k = none) → l = []
  | [], _ => rfl
  | (k, v) :: l, h => by have := h k; simp [find?] at this

theorem atexit_segs (s : St) (hns : Nd s.segs) (hnd : Nd s.ds) (ho : SegOwned s) : (atexit s).segs = [] := by
  apply all_none_nil
  intro k
  obtain ⟨h1, h2⟩ := fold_purgeExit_spec (s.ds.map (·.1)) s hns hnd ho
  cases hf : find? (atexit s).segs k with
  | none => rfl
  | some g =>
    have hs := h1 k g hf
    obtain ⟨d, hd, _⟩ := ho k g hs
    have hm : k ∈ s.ds.map (·.1) := List.mem_map.mpr ⟨(k, d), find?_mem _ _ _ hd, rfl⟩
    have := h2 k hm
    unfold atexit at hf
    rw [this] at hf; cases hf

end Aux

/-- the exit handler unlinks every segment of a store whose invariant holds -/
theorem c05_atexit_unlinks_all (s : St) (hb : Base s) (hc : Core s) : (atexit s).segs = [] :=
  Aux.atexit_segs s hc.ndSegs hb.nd (Aux.segOwned_of_core s hc)

/-- … hence after every history of conforming requests, of any length, with any readers still registered and any disk
jobs in flight: nothing is left in /dev/shm once the server's exit handler has run -/
theorem c05_atexit_after_any_history (cap sc sr : Nat) (ops : List Op) (h : SafeRun (init cap sc sr) ops) :
    (atexit (run (init cap sc sr) ops)).segs = [] := by
  obtain ⟨hb, hc⟩ := Aux.core_run ops (init cap sc sr) (Aux.base_init cap sc sr) (Aux.core_init cap sc sr) h
  exact c05_atexit_unlinks_all _ hb hc

/-- ongoing reads do not protect a dataset at exit (they do for an ordinary purge): the guard `and not is_exit` -/
theorem c05_atexit_ignores_readers (s : St) (k : String) (d : Dataset) (g : Seg) (hd : find? s.ds k = some d)
    (hs : find? s.segs k = some g) (hst : d.status ≠ .onDisk) :
    (purgeExit s k).segs = erase s.segs k := by
  unfold purgeExit
  simp [hd, hs, hst]

/-- the store after the server process has left `LocalServer.start()` by `x`: `entrypoint` runs the exit handler iff
the table says so (otherwise the process exits with the store as it is: the segments stay in /dev/shm) -/
def serverExit (e : Failure.ShmEntry) (s : St) (x : Failure.StartExit) : St :=
  if e.cleansOn x then atexit s else s

/-- whichever way the request loop of the source tree's server is left — ShutdownCommand, or an exception raised by
`receive`/`respond` (one undecodable datagram is enough) — no segment survives the server process -/
theorem c05_server_exit_unlinks_all (s : St) (hb : Base s) (hc : Core s) (x : Failure.StartExit) :
    (serverExit Gen.shmEntry s x).segs = [] := by
  have h : Gen.shmEntry.cleansOn x = true := by cases x <;> decide
  simp only [serverExit, h, if_true]
  exact c05_atexit_unlinks_all s hb hc

theorem c05_server_exit_after_any_history (cap sc sr : Nat) (ops : List Op) (h : SafeRun (init cap sc sr) ops)
    (x : Failure.StartExit) : (serverExit Gen.shmEntry (run (init cap sc sr) ops) x).segs = [] := by
  obtain ⟨hb, hc⟩ := Aux.core_run ops (init cap sc sr) (Aux.base_init cap sc sr) (Aux.core_init cap sc sr) h
  exact c05_server_exit_unlinks_all _ hb hc x

/-! non-vacuity: a history that ends with a reader still holding a dataset and a second dataset being written -/
def exOps : List Op :=
  [.add "a" 2 "" 1, .cwrite "a" 2 7, .closeW "a", .get "a" 2 ["r1"], .add "b" 1 "" 3, .cwrite "b" 1 9, .purge "a"]

example : SafeRun (init 4 10 10) exOps := by decide
example : ((run (init 4 10 10) exOps).segs.map (·.1)) = ["a", "b"] := by decide
example : ((run (init 4 10 10) exOps).ds.map (fun p => (p.1, p.2.readers.length, p.2.delayed))) = [("a", 1, true), ("b", 0, false)] := by decide
example : (atexit (run (init 4 10 10) exOps)).segs = [] := by decide
example : (serverExit Gen.shmEntry (run (init 4 10 10) exOps) .raised).segs = [] := by decide
/-- with an `entrypoint` that runs the exit handler only when `start()` RETURNS, the same history followed by an
exception out of the request loop leaves both segments in /dev/shm -/
example : ((serverExit { Gen.shmEntry with rows := [⟨.returned, true, true⟩, ⟨.raised, true, false⟩] }
    (run (init 4 10 10) exOps) .raised).segs.map (·.1)) = ["a", "b"] := by decide

end EkwVerif.Shm
