/-
C13 — fluent programs denote the arrays NumPy would compute, batched or not.
Property theorems (`c13_*`) over Model/Fluent.lean; helper lemmas live in `namespace Aux`.
-/
import EkwVerif.Model.Fluent

namespace EkwVerif.Fluent

/-! ### vocabulary of the statements -/

/-- what a chunk contributes to the next batching level: itself if it is a single element
(`_batch_transform` passes singletons through), otherwise its reduction -/
def rep {V : Type} (f : List V → V) : List V → V
  | [x] => x
  | c => f c

/-- Batchability of a reduction function, exactly in the form `reduce()` uses it: reducing the
representatives of at least two non-empty consecutive groups equals reducing everything at once
(`f` is never applied to a single value by the batching: that would be the backends' other
overload, the reduction of one array). C15 proves this of the backend functions that carry
`@batchable`; here it is a hypothesis. -/
def IsBatchable {V : Type} (f : List V → V) : Prop :=
  ∀ gs : List (List V), 2 ≤ gs.length → (∀ g ∈ gs, g ≠ []) → f (gs.map (rep f)) = f gs.flatten

/-- the node at a position does not depend on the index given for `name` -/
def Indep (a : NodeArray) (name : String) : Prop := ∀ (ix : Ix) (v : Nat), a.node (ix.set name v) = a.node ix

/-- the names `batch.<level>.<…>` that batching over `d` may introduce are not in use in `a`
(neither as a dimension nor read by its nodes). xarray would refuse duplicate dimension names. -/
def BatchFresh (a : NodeArray) (d : String) : Prop :=
  ∀ (lvl : Nat) (s : String), d.length ≤ s.length →
    Indep a (batchDimName lvl s) ∧ batchDimName lvl s ∉ a.dimNames

/-- values of the nodes along dimension `d`, in coordinate order -/
def valsAlong {V : Type} (S : Sem V) (a : NodeArray) (d : String) (ix : Ix) : List V :=
  (a.along d ix).map (Expr.eval S)

namespace Aux

theorem evalList_eq_map {V : Type} (S : Sem V) (es : List Expr) : evalList S es = es.map (Expr.eval S) := by
  induction es with
  | nil => simp [evalList]
  | cons e es ih => simp [evalList, ih]

theorem eval_mkNode {V : Type} (S : Sem V) (p : Payload) (ins : List Expr) :
    (mkNode p ins).eval S = p.apply S (ins.map (Expr.eval S)) := by
  simp [mkNode, Expr.eval, Payload.apply, evalList_eq_map]

/-! #### chunks -/

theorem chunksAux_eq {α : Type} (b : Nat) :
    ∀ (f1 f2 : Nat) (xs : List α), xs.length ≤ f1 → xs.length ≤ f2 → chunksAux b f1 xs = chunksAux b f2 xs := by
  intro f1
  induction f1 with
  | zero =>
    intro f2 xs h1 _
    have : xs = [] := List.length_eq_zero_iff.mp (by omega)
    subst this
    cases f2 <;> simp [chunksAux]
  | succ f1 ih =>
    intro f2 xs h1 h2
    cases f2 with
    | zero =>
      have : xs = [] := List.length_eq_zero_iff.mp (by omega)
      subst this
      simp [chunksAux]
    | succ f2 =>
      simp only [chunksAux]
      split
      · rfl
      · rename_i hc
        have hb : b ≠ 0 := fun h => hc (Or.inl h)
        have hx : xs ≠ [] := fun h => hc (Or.inr h)
        have := List.length_pos_iff.mpr hx
        rw [ih f2 (xs.drop b) (by simp; omega) (by simp; omega)]

theorem chunks_nil {α : Type} (b : Nat) : chunks b ([] : List α) = [] := by
  simp [chunks, chunksAux]

theorem chunks_zero {α : Type} (xs : List α) : chunks 0 xs = [] := by
  unfold chunks
  cases xs.length <;> simp [chunksAux]

theorem chunks_cons {α : Type} (b : Nat) (xs : List α) (hb : b ≠ 0) (hx : xs ≠ []) :
    chunks b xs = xs.take b :: chunks b (xs.drop b) := by
  have hpos := List.length_pos_iff.mpr hx
  unfold chunks
  obtain ⟨n, hn⟩ : ∃ n, xs.length = n + 1 := ⟨xs.length - 1, by omega⟩
  rw [hn]
  simp only [chunksAux, hb, hx, or_self, ↓reduceIte]
  rw [chunksAux_eq b n (xs.drop b).length (xs.drop b) (by simp; omega) (Nat.le_refl _)]

/-- induction along the chunking recursion -/
theorem chunks_induct {α : Type} (b : Nat) {P : List α → Prop}
    (case1 : ∀ xs, (b = 0 ∨ xs = []) → P xs)
    (case2 : ∀ xs, ¬ (b = 0 ∨ xs = []) → P (xs.drop b) → P xs) : ∀ xs, P xs := by
  have key : ∀ (n : Nat) (xs : List α), xs.length ≤ n → P xs := by
    intro n
    induction n with
    | zero =>
      intro xs h
      exact case1 xs (Or.inr (List.length_eq_zero_iff.mp (by omega)))
    | succ n ih =>
      intro xs h
      by_cases hc : b = 0 ∨ xs = []
      · exact case1 xs hc
      · apply case2 xs hc
        apply ih
        have hb : b ≠ 0 := fun h => hc (Or.inl h)
        have hx : xs ≠ [] := fun h => hc (Or.inr h)
        have := List.length_pos_iff.mpr hx
        simp; omega
  intro xs
  exact key xs.length xs (Nat.le_refl _)

theorem chunks_flatten {α : Type} (b : Nat) (hb : b ≠ 0) (xs : List α) : (chunks b xs).flatten = xs := by
  induction xs using chunks_induct b with
  | case1 xs h =>
    rcases h with h | h
    · exact absurd h hb
    · subst h; simp [chunks_nil]
  | case2 xs h ih =>
    have hx : xs ≠ [] := fun hx => h (Or.inr hx)
    rw [chunks_cons b xs hb hx]
    simp [ih]

theorem chunks_ne_nil {α : Type} (b : Nat) (xs : List α) : ∀ c ∈ chunks b xs, c ≠ [] := by
  induction xs using chunks_induct b with
  | case1 xs h =>
    rcases h with h | h
    · subst h; simp [chunks_zero]
    · subst h; simp [chunks_nil]
  | case2 xs h ih =>
    have hb : b ≠ 0 := fun hb => h (Or.inl hb)
    have hx : xs ≠ [] := fun hx => h (Or.inr hx)
    rw [chunks_cons b xs hb hx]
    intro c hc
    rcases List.mem_cons.mp hc with hc | hc
    · subst hc
      cases xs with
      | nil => exact absurd rfl hx
      | cons x xs => cases b with
        | zero => exact absurd rfl hb
        | succ b => simp
    · exact ih c hc

theorem chunks_map {α β : Type} (f : α → β) (b : Nat) (xs : List α) :
    chunks b (xs.map f) = (chunks b xs).map (List.map f) := by
  induction xs using chunks_induct b with
  | case1 xs h =>
    rcases h with h | h
    · subst h; simp [chunks_zero]
    · subst h; simp [chunks_nil]
  | case2 xs h ih =>
    have hb : b ≠ 0 := fun hb => h (Or.inl hb)
    have hx : xs ≠ [] := fun hx => h (Or.inr hx)
    rw [chunks_cons b xs hb hx, chunks_cons b (xs.map f) hb (by simpa using hx)]
    rw [← List.map_drop, ih]
    simp [List.map_take]

theorem chunks_length_ge_two {α : Type} (b : Nat) (hb : b ≠ 0) (xs : List α) (hx : b < xs.length) :
    2 ≤ (chunks b xs).length := by
  have hne : xs ≠ [] := by intro h; subst h; simp at hx
  have hd : xs.drop b ≠ [] := by
    intro h
    have := congrArg List.length h
    simp at this
    omega
  rw [chunks_cons b xs hb hne, chunks_cons b (xs.drop b) hb hd]
  simp

/-- with `b ≥ 2` chunking a list longer than `b` gives strictly fewer items: the loop terminates -/
theorem chunks_length_lt {α : Type} (b : Nat) (hb : 2 ≤ b) (xs : List α) (hx : b < xs.length) :
    (chunks b xs).length < xs.length := by
  have key : ∀ (n : Nat) (xs : List α), xs.length ≤ n → xs ≠ [] → 2 * (chunks b xs).length ≤ xs.length + 1 ∧ ((chunks b xs).length ≤ xs.length) := by
    intro n
    induction n with
    | zero => intro xs hn hne; cases xs with
      | nil => exact absurd rfl hne
      | cons x xs => simp at hn
    | succ n ih =>
      intro xs hn hne
      rw [chunks_cons b xs (by omega) hne]
      by_cases hd : xs.drop b = []
      · simp [hd, chunks_nil]
        have := List.length_pos_iff.mpr hne
        omega
      · have hl : (xs.drop b).length ≤ n := by
          simp [List.length_drop]
          have := List.length_pos_iff.mpr hne
          omega
        have := ih (xs.drop b) hl hd
        have hdl : (xs.drop b).length = xs.length - b := by simp
        have hpos : 0 < (xs.drop b).length := List.length_pos_iff.mpr hd
        simp only [List.length_cons]
        omega
  have hne : xs ≠ [] := by intro h; subst h; simp at hx
  have := key xs.length xs (Nat.le_refl _) hne
  omega

/-! #### positions -/

@[simp] theorem set_same (ix : Ix) (d : String) (i : Nat) : (ix.set d i) d = i := by simp [Ix.set]

theorem set_ne (ix : Ix) (d x : String) (i : Nat) (h : x ≠ d) : (ix.set d i) x = ix x := by simp [Ix.set, h]

theorem set_comm (ix : Ix) (d e : String) (i j : Nat) (h : d ≠ e) :
    (ix.set d i).set e j = (ix.set e j).set d i := by
  funext x
  simp only [Ix.set]
  by_cases hx : x = e
  · subst hx; simp [Ne.symm h]
  · simp [hx]

@[simp] theorem set_set (ix : Ix) (d : String) (i j : Nat) : (ix.set d i).set d j = ix.set d j := by
  funext x; simp only [Ix.set]; split <;> rfl

theorem batchDimName_length (lvl : Nat) (s : String) : s.length < (batchDimName lvl s).length := by
  simp [batchDimName, String.length_append]
  have : ("batch.").length = 6 := by decide
  omega

theorem batchDimName_ne (lvl : Nat) (s d : String) (h : d.length ≤ s.length) : batchDimName lvl s ≠ d := by
  intro he
  have := batchDimName_length lvl s
  rw [he] at this
  omega

/-! #### one batching level -/

theorem eval_chunkExpr {V : Type} (S : Sem V) (p : Payload) (c : List Expr) :
    (chunkExpr p c).eval S = rep (p.apply S) (c.map (Expr.eval S)) := by
  match c with
  | [] => simp [chunkExpr, rep, eval_mkNode]
  | [e] => simp [chunkExpr, rep]
  | e1 :: e2 :: rest => simp [chunkExpr, rep, eval_mkNode]

theorem range_map_getElem? {β γ : Type} (l : List β) (F : β → γ) (dflt : γ) :
    (List.range l.length).map (fun j => match l[j]? with | some c => F c | none => dflt) = l.map F := by
  apply List.ext_getElem
  · simp
  · intro i h1 h2
    simp at h1
    simp [h1]

theorem findDim_cons_self (x : Dim) (rest : List Dim) (sc : List (String × Coord)) (nd : Ix → Expr) :
    (NodeArray.mk (x :: rest) sc nd).findDim x.name = some x := by
  simp [NodeArray.findDim]

theorem dimSize_batchLevel (p : Payload) (d : String) (b lvl : Nat) (a : NodeArray) :
    (batchLevel p d b lvl a).dimSize (batchDimName lvl d) = (chunks b (List.range (a.dimSize d))).length := by
  simp [batchLevel, NodeArray.dimSize, NodeArray.findDim, intLabels]

theorem along_length (a : NodeArray) (d : String) (ix : Ix) : (a.along d ix).length = a.dimSize d := by
  simp [NodeArray.along]

theorem chunks_along_length (b : Nat) (a : NodeArray) (d : String) (ix : Ix) :
    (chunks b (a.along d ix)).length = (chunks b (List.range (a.dimSize d))).length := by
  simp [NodeArray.along, chunks_map]

theorem along_indep (a : NodeArray) (d e : String) (ix : Ix) (j : Nat) (hne : e ≠ d) (hI : Indep a e) :
    a.along d (ix.set e j) = a.along d ix := by
  simp only [NodeArray.along]
  apply List.map_congr_left
  intro i _
  rw [set_comm ix e d j i hne, hI]

theorem along_batchLevel (p : Payload) (d : String) (b lvl : Nat) (a : NodeArray) (ix : Ix)
    (hne : batchDimName lvl d ≠ d) (hI : Indep a (batchDimName lvl d)) :
    (batchLevel p d b lvl a).along (batchDimName lvl d) ix = (chunks b (a.along d ix)).map (chunkExpr p) := by
  rw [NodeArray.along, dimSize_batchLevel, ← chunks_along_length b a d ix]
  rw [← range_map_getElem? (chunks b (a.along d ix)) (chunkExpr p) default]
  apply List.map_congr_left
  intro j _
  simp only [batchLevel, set_same]
  rw [along_indep a d _ ix j hne hI]
  cases (chunks b (a.along d ix))[j]? <;> rfl

theorem valsAlong_batchLevel {V : Type} (S : Sem V) (p : Payload) (d : String) (b lvl : Nat) (a : NodeArray) (ix : Ix)
    (hne : batchDimName lvl d ≠ d) (hI : Indep a (batchDimName lvl d)) :
    valsAlong S (batchLevel p d b lvl a) (batchDimName lvl d) ix
      = (chunks b (valsAlong S a d ix)).map (rep (p.apply S)) := by
  simp only [valsAlong]
  rw [along_batchLevel p d b lvl a ix hne hI, chunks_map]
  simp [List.map_map, Function.comp_def, eval_chunkExpr]

/-- one batching round does not change what the reduction of the dimension yields -/
theorem apply_batchLevel {V : Type} (S : Sem V) (p : Payload) (hB : IsBatchable (p.apply S)) (d : String) (b lvl : Nat)
    (hb : b ≠ 0) (a : NodeArray) (hlt : b < a.dimSize d) (ix : Ix) (hne : batchDimName lvl d ≠ d)
    (hI : Indep a (batchDimName lvl d)) :
    p.apply S (valsAlong S (batchLevel p d b lvl a) (batchDimName lvl d) ix) = p.apply S (valsAlong S a d ix) := by
  have h2 : 2 ≤ (chunks b (valsAlong S a d ix)).length :=
    chunks_length_ge_two b hb _ (by simpa [valsAlong, NodeArray.along] using hlt)
  rw [valsAlong_batchLevel S p d b lvl a ix hne hI, hB _ h2 (chunks_ne_nil b _), chunks_flatten b hb]

/-! #### dimension bookkeeping -/

theorem allIndexed_names (l : List Dim) : (allIndexed l).map (·.name) = l.map (·.name) := by
  simp only [allIndexed, List.map_map]
  apply List.map_congr_left
  intro x _
  simp only [Function.comp]
  split <;> rfl

theorem allIndexed_idem (l : List Dim) : allIndexed (allIndexed l) = allIndexed l := by
  simp only [allIndexed, List.map_map]
  apply List.map_congr_left
  intro x _
  simp only [Function.comp]
  by_cases h : x.indexed <;> simp [h]

theorem dropDim_of_not_mem (l : List Dim) (d : String) (h : d ∉ l.map (·.name)) : dropDim l d = l := by
  simp only [dropDim]
  apply List.filter_eq_self.mpr
  intro x hx
  have : x.name ≠ d := by
    intro he
    exact h (he ▸ List.mem_map_of_mem hx)
  simp [this]

theorem dropDim_names_subset (l : List Dim) (d x : String) (h : x ∈ (dropDim l d).map (·.name)) : x ∈ l.map (·.name) := by
  simp only [dropDim, List.mem_map, List.mem_filter] at h ⊢
  obtain ⟨y, ⟨hy, _⟩, hn⟩ := h
  exact ⟨y, hy, hn⟩

theorem batchLevel_dims (p : Payload) (d : String) (b lvl : Nat) (a : NodeArray) :
    (batchLevel p d b lvl a).dims =
      { name := batchDimName lvl d, labels := intLabels (chunks b (List.range (a.dimSize d))).length, indexed := true }
        :: allIndexed (dropDim a.dims d) := rfl

theorem batchLevel_rest (p : Payload) (d : String) (b lvl : Nat) (a : NodeArray)
    (hfresh : batchDimName lvl d ∉ a.dimNames) :
    dropDim (batchLevel p d b lvl a).dims (batchDimName lvl d) = allIndexed (dropDim a.dims d) := by
  rw [batchLevel_dims]
  have hnot : batchDimName lvl d ∉ (allIndexed (dropDim a.dims d)).map (·.name) := by
    rw [allIndexed_names]
    intro h
    exact hfresh (dropDim_names_subset _ _ _ h)
  have h2 := dropDim_of_not_mem _ _ hnot
  show dropDim (_ :: allIndexed (dropDim a.dims d)) (batchDimName lvl d) = _
  rw [dropDim, List.filter_cons]
  simp only [ne_eq, not_true_eq_false, decide_false, Bool.false_eq_true, ↓reduceIte]
  exact h2

theorem batchFresh_batchLevel (p : Payload) (d : String) (b lvl : Nat) (a : NodeArray) (h : BatchFresh a d) :
    BatchFresh (batchLevel p d b lvl a) (batchDimName lvl d) := by
  intro lvl' s hs
  have hlen := batchDimName_length lvl d
  have hds : d.length ≤ s.length := by omega
  obtain ⟨hI, hN⟩ := h lvl' s hds
  have hne1 : batchDimName lvl' s ≠ batchDimName lvl d := batchDimName_ne lvl' s _ hs
  have hne2 : batchDimName lvl' s ≠ d := batchDimName_ne lvl' s d hds
  constructor
  · intro ix v
    simp only [batchLevel]
    rw [set_ne ix _ _ v (Ne.symm hne1), along_indep a d _ ix v hne2 hI]
  · intro hmem
    simp only [NodeArray.dimNames] at hmem hN
    rw [batchLevel_dims] at hmem
    simp only [List.map_cons, List.mem_cons] at hmem
    rcases hmem with hmem | hmem
    · exact hne1 hmem
    · rw [allIndexed_names] at hmem
      exact hN (dropDim_names_subset _ _ _ hmem)

theorem findDim_batchLevel (p : Payload) (d : String) (b lvl : Nat) (a : NodeArray) :
    ((batchLevel p d b lvl a).findDim (batchDimName lvl d)).isSome := by
  simp [NodeArray.findDim, batchLevel_dims]

/-! #### the batching loop -/

theorem batchLoop_spec {V : Type} (S : Sem V) (p : Payload) (hB : IsBatchable (p.apply S)) (b : Nat) (hb : b ≠ 0) :
    ∀ (fuel level : Nat) (d : String) (a : NodeArray) (d' : String) (a' : NodeArray),
      BatchFresh a d → (a.findDim d).isSome → batchLoop p b fuel level d a = .ok (d', a') →
      (∀ ix, p.apply S (valsAlong S a' d' ix) = p.apply S (valsAlong S a d ix)) ∧
      allIndexed (dropDim a'.dims d') = allIndexed (dropDim a.dims d) ∧ a'.scalars = a.scalars ∧
      (a'.findDim d').isSome := by
  intro fuel
  induction fuel with
  | zero =>
    intro level d a d' a' _ hdim h
    simp only [batchLoop] at h
    split at h
    · cases h
    · cases h; exact ⟨fun _ => rfl, rfl, rfl, hdim⟩
  | succ fuel ih =>
    intro level d a d' a' hF hdim h
    simp only [batchLoop] at h
    split at h
    · rename_i hlt
      obtain ⟨hI, hN⟩ := hF level d (Nat.le_refl _)
      have hne : batchDimName level d ≠ d := batchDimName_ne level d d (Nat.le_refl _)
      obtain ⟨h1, h2, h3, h4⟩ := ih (level + 1) _ _ d' a' (batchFresh_batchLevel p d b level a hF)
        (findDim_batchLevel p d b level a) h
      refine ⟨?_, ?_, ?_, h4⟩
      · intro ix
        rw [h1 ix, apply_batchLevel S p hB d b level hb a hlt ix hne hI]
      · rw [h2, batchLevel_rest p d b level a hN, allIndexed_idem]
      · rw [h3]; rfl
    · cases h; exact ⟨fun _ => rfl, rfl, rfl, hdim⟩

theorem dimSize_pos_of_lt (a : NodeArray) (d : String) (b : Nat) (h : b < a.dimSize d) : (a.findDim d).isSome := by
  unfold NodeArray.dimSize at h
  cases hf : a.findDim d with
  | none => simp [hf] at h
  | some x => simp

/-- with `b ≥ 2` the `while` loop ends before the fuel does -/
theorem batchLoop_total (p : Payload) (b : Nat) (hb : 2 ≤ b) :
    ∀ (fuel level : Nat) (d : String) (a : NodeArray), a.dimSize d ≤ fuel →
      ∃ x, batchLoop p b fuel level d a = .ok x ∧ x.2.dimSize x.1 ≤ b := by
  intro fuel
  induction fuel with
  | zero =>
    intro level d a hle
    refine ⟨(d, a), ?_, ?_⟩
    · simp only [batchLoop]; split
      · omega
      · rfl
    · simp; omega
  | succ fuel ih =>
    intro level d a hle
    simp only [batchLoop]
    split
    · rename_i hlt
      apply ih
      rw [dimSize_batchLevel]
      have := chunks_length_lt b hb (List.range (a.dimSize d)) (by simpa using hlt)
      simp at this
      omega
    · rename_i hge
      exact ⟨(d, a), rfl, by simp; omega⟩

/-- What the batching part of `reduce` hands to the final reduction: an array `x.2` and a dimension `x.1` of it such
that reducing `x.1` of `x.2` with `p` gives, at every position, what reducing `d` of `a` gives; the other dimensions
(each with a coordinate) and the scalar coordinates are those of `a`. Batchability of the payload FUNCTION is needed
only where the payload is marked batchable (otherwise `reduce` refuses to batch). -/
theorem reduceBatched_spec {V : Type} (S : Sem V) (p : Payload) (hB : p.batchable = true → IsBatchable (p.apply S))
    (a : NodeArray) (d : String) (b : Nat) (hfresh : BatchFresh a d) (hdim : (a.findDim d).isSome)
    (x : String × NodeArray) (hx : reduceBatched p d b a = .ok x) :
    (∀ ix, p.apply S (valsAlong S x.2 x.1 ix) = p.apply S (valsAlong S a d ix)) ∧
      allIndexed (dropDim x.2.dims x.1) = allIndexed (dropDim a.dims d) ∧ x.2.scalars = a.scalars ∧
      (x.2.findDim x.1).isSome := by
  simp only [reduceBatched] at hx
  split at hx
  · rename_i hb1
    split at hx
    · cases hx
    · split at hx
      · split at hx
        · cases hx
        · rename_i hnb
          have hpb : p.batchable = true := by simpa using hnb
          exact batchLoop_spec S p (hB hpb) b (by omega) _ 0 d a x.1 x.2 hfresh hdim hx
      · cases hx; exact ⟨fun _ => rfl, rfl, rfl, hdim⟩
  · cases hx; exact ⟨fun _ => rfl, rfl, rfl, hdim⟩

theorem reduce_eq (p : Payload) (d : String) (b : Nat) (keep : Bool) (a : NodeArray) (hd : d ≠ "") :
    reduce p none d b keep a = (reduceBatched p d b a >>= reduceFinish p none keep a d) := by
  simp [reduce, defaultDim, hd]
  rfl

theorem not_isNone_of_isSome {α : Type} (o : Option α) (h : o.isSome = true) : ¬ (o.isNone = true) := by
  cases o <;> simp_all

theorem isSome_of_not_isNone {α : Type} (o : Option α) (h : ¬ (o.isNone = true)) : o.isSome = true := by
  cases o <;> simp_all

theorem reduceBatched_zero (p : Payload) (d : String) (a : NodeArray) : reduceBatched p d 0 a = .ok (d, a) := by
  simp [reduceBatched]

theorem findIdx_le_filter (l : List Dim) (d : String) :
    l.findIdx (·.name = d) ≤ (dropDim l d).length := by
  induction l with
  | nil => simp [dropDim]
  | cons x xs ih =>
    simp only [dropDim] at ih ⊢
    by_cases h : x.name = d
    · simp [List.findIdx_cons, h]
    · simp [List.findIdx_cons, h]
      simpa using ih

theorem allIndexed_length (l : List Dim) : (allIndexed l).length = l.length := by simp [allIndexed]

theorem not_mem_dropDim (l : List Dim) (d : String) : d ∉ (allIndexed (dropDim l d)).map (·.name) := by
  rw [allIndexed_names]
  simp [dropDim]

theorem eval_reduceCore {V : Type} (S : Sem V) (p : Payload) (d : String) (a : NodeArray) (ix : Ix) :
    ((reduceCore p d a).node ix).eval S = p.apply S (valsAlong S a d ix) := by
  simp [reduceCore, eval_mkNode, valsAlong]

/-- `addDim` on the result of a reduce succeeds and only inserts the dimension -/
theorem addDim_reduceCore (p : Payload) (dr : String) (x : NodeArray) (a : NodeArray) (d : String)
    (hs : a.scalar? d = none) (hdims : allIndexed (dropDim x.dims dr) = allIndexed (dropDim a.dims d))
    (hsc : x.scalars = a.scalars) :
    addDim (reduceCore p dr x) d (keptLabel a d) (a.axisOf d) =
      .ok { reduceCore p dr x with
            dims := (allIndexed (dropDim a.dims d)).take (a.axisOf d) ++ [{ name := d, labels := [keptLabel a d], indexed := true }]
                      ++ (allIndexed (dropDim a.dims d)).drop (a.axisOf d) } := by
  have h1 : ¬ ((reduceCore p dr x).dimNames.contains d) = true := by
    simp only [NodeArray.dimNames, reduceCore, hdims]
    have := not_mem_dropDim a.dims d
    simpa using this
  have h2 : ((reduceCore p dr x).scalar? d).isSome = false := by
    simp only [NodeArray.scalar?, reduceCore, hsc]
    simp only [NodeArray.scalar?] at hs
    simp [hs]
  have h3 : ¬ (a.axisOf d > (reduceCore p dr x).dims.length) := by
    simp only [reduceCore, hdims, allIndexed_length, NodeArray.axisOf]
    have := findIdx_le_filter a.dims d
    omega
  simp only [addDim, h1, h2, h3]
  simp [reduceCore, hdims]

end Aux

/-! ### an exact interpretation: rational numbers -/

def argVals {V : Type} : List (ArgV V) → List V
  | [] => []
  | .val v :: rest => v :: argVals rest
  | .lit _ :: rest => argVals rest

/-- all arguments are values (no literal among them) -/
def allVals {V : Type} : List (ArgV V) → Option (List V)
  | [] => some []
  | .val v :: rest => (allVals rest).map (v :: ·)
  | .lit _ :: _ => none

/-- What the exact interpretation does NOT interpret — a function name it does not know, an argument pattern it does
not know, `pow` with an exponent other than 2 (in particular the square root `pow(·, 1/2)`) — is an explicit OPAQUE
symbol: the parameter `unk`. Every theorem about `ratSem` is quantified over `unk`, so none can hold because an unknown
function happened to be totalised to some number. -/
abbrev Unk := String → List (String × Static) → List (ArgV Rat) → Rat

/-- population variance in the textbook form: the mean of the squared deviations from the mean -/
def popVar (xs : List Rat) : Rat :=
  (xs.map (fun x => (x - xs.sum / (xs.length : Rat)) * (x - xs.sum / (xs.length : Rat)))).sum / (xs.length : Rat)

/-- The payload functions the `mean`/`std` rewrites use, on exact rationals (one number per node:
array payloads are element-wise, so this is the value of any one element; the reductions are the ones over SEVERAL
arrays, where both backends fix the axis themselves — backend kwargs are not interpreted, the tie compares them
structurally as part of the node). `std` is the opaque root of the population variance. -/
def ratFn (unk : Unk) : String → List (String × Static) → List (ArgV Rat) → Rat
  | "sum", kw, args => match allVals args with
    | some vs => vs.sum
    | none => unk "sum" kw args
  | "mean", kw, args => match allVals args with
    | some vs => vs.sum / (vs.length : Rat)
    | none => unk "mean" kw args
  | "std", kw, args => match allVals args with
    | some vs => unk "pow" [] [.val (popVar vs), .lit (.num (1 / 2))]
    | none => unk "std" kw args
  | "divide", _, [.val x, .lit (.num q)] => x / q
  | "divide", _, [.val x, .val y] => x / y
  | "pow", kw, [.val x, .lit (.num q)] => if q = 2 then x * x else unk "pow" kw [.val x, .lit (.num q)]
  | "subtract", _, [.val x, .val y] => x - y
  | "multiply", _, [.val x, .val y] => x * y
  | "add", _, [.val x, .val y] => x + y
  | "trivial", _, [.val x] => x
  | fn, kw, args => unk fn kw args

def ratSem (src : Nat → Rat) (unk : Unk) : Sem Rat := { src := src, fn := ratFn unk, out := fun _ v => v }

namespace Aux

theorem fillTmpl_nil (n : Nat) : fillTmpl [] n = (List.range n).map TArg.inp := by
  simp [fillTmpl, List.filterMap_eq_map']

theorem resolve_inputs {V : Type} (vals : List V) :
    resolve ((List.range vals.length).map TArg.inp) vals = vals.map ArgV.val := by
  apply List.ext_getElem
  · simp [resolve]
  · intro i h1 h2
    simp [resolve] at h1 ⊢
    simp [h1]

theorem argVals_map_val {V : Type} (vals : List V) : argVals (vals.map ArgV.val) = vals := by
  induction vals with
  | nil => rfl
  | cons v vs ih => simp [argVals, ih]

theorem allVals_map_val {V : Type} (vals : List V) : allVals (vals.map ArgV.val) = some vals := by
  induction vals with
  | nil => rfl
  | cons v vs ih => simp [allVals, ih]

theorem apply_sum (src : Nat → Rat) (unk : Unk) (kw : List (String × Static)) (vals : List Rat) :
    (backendPayload "sum" kw).apply (ratSem src unk) vals = vals.sum := by
  simp only [Payload.apply, backendPayload, fillTmpl_nil, resolve_inputs, ratSem, ratFn, allVals_map_val]

theorem rep_sum (src : Nat → Rat) (unk : Unk) (kw : List (String × Static)) (g : List Rat) :
    rep ((backendPayload "sum" kw).apply (ratSem src unk)) g = g.sum := by
  match g with
  | [] => simp [rep, apply_sum]
  | [x] => simp [rep, Rat.add_zero]
  | x :: y :: rest => simp [rep, apply_sum]

theorem sum_flatten_rat (gs : List (List Rat)) : gs.flatten.sum = (gs.map List.sum).sum := by
  induction gs with
  | nil => simp
  | cons g gs ih => simp [List.sum_append, ih]

/-- `sum` over exact rationals is batchable (the instance used in `c13_mean_std`) -/
theorem sum_batchable (src : Nat → Rat) (unk : Unk) (kw : List (String × Static)) :
    IsBatchable ((backendPayload "sum" kw).apply (ratSem src unk)) := by
  intro gs _ _
  rw [apply_sum, apply_sum, sum_flatten_rat]
  congr 1
  apply List.map_congr_left
  intro g _
  exact rep_sum src unk kw g

theorem flatIndex_indep (ds : List Dim) (ix : Ix) (name : String) (v : Nat) (h : name ∉ ds.map (·.name)) :
    flatIndex ds (ix.set name v) = flatIndex ds ix := by
  induction ds with
  | nil => rfl
  | cons x rest ih =>
    simp only [List.map_cons, List.mem_cons, not_or] at h
    simp only [flatIndex]
    rw [ih h.2, set_ne ix name x.name v (Ne.symm h.1)]

/-- source arrays whose dimension names are short (fewer than 6 characters) are batch-fresh -/
theorem fromSource_batchFresh (dims : List (String × List Coord)) (base : Nat) (d : String)
    (hshort : ∀ x ∈ dims, x.1.length < 6) : BatchFresh (fromSource dims base) d := by
  intro lvl s _
  have hlen : 6 ≤ (batchDimName lvl s).length := by
    simp [batchDimName, String.length_append]
    have : ("batch.").length = 6 := by decide
    omega
  have hnot : batchDimName lvl s ∉ (fromSource dims base).dimNames := by
    simp only [NodeArray.dimNames, fromSource, List.map_map]
    intro hmem
    obtain ⟨x, hx, he⟩ := List.mem_map.mp hmem
    have := hshort x hx
    simp only [Function.comp] at he
    rw [← he] at hlen
    omega
  refine ⟨?_, hnot⟩
  intro ix v
  simp only [fromSource]
  rw [flatIndex_indep]
  simpa [NodeArray.dimNames, fromSource] using hnot

end Aux

open Aux

/-! ### C13 — reduce -/

/-- what is left of the dimensions after reducing `d`: the others, in order, each with a coordinate -/
def restDims (a : NodeArray) (d : String) : List Dim := allIndexed (dropDim a.dims d)

/-- `keep_dim`: the reduced dimension comes back at its original axis with ONE coordinate
(the docstring does not specify its label; the code builds it from the first and the last label of the reduced
dimension: `keptLabel`) -/
def keptDims (a : NodeArray) (d : String) : List Dim :=
  (restDims a d).take (a.axisOf d) ++ [{ name := d, labels := [keptLabel a d], indexed := true }] ++ (restDims a d).drop (a.axisOf d)

/-- **Value and dimensions of a non-batched reduce.** For every payload `p`, every array `a`, every
dimension `d` of `a`: `a.reduce(p, dim=d, keep_dim=keep)` succeeds; its dimensions are `a`'s
without `d` (with `keep_dim`: `d` back at its original axis, one coordinate); scalar coordinates are
kept; and the node at every position evaluates — under EVERY interpretation `S` of the payload
functions — to `p` applied to the values of `a`'s nodes along `d` in coordinate order. -/
theorem c13_reduce {V : Type} (S : Sem V) (p : Payload) (a : NodeArray) (d : String) (keep : Bool)
    (hd : d ≠ "") (hdim : (a.findDim d).isSome) (hs : a.scalar? d = none) :
    ∃ r, reduce p none d 0 keep a = .ok r ∧
      r.dims = (if keep then keptDims a d else restDims a d) ∧
      r.scalars = a.scalars ∧
      ∀ ix, (r.node ix).eval S =
        p.apply S ((List.range (a.dimSize d)).map (fun i => (a.node (ix.set d i)).eval S)) := by
  rw [reduce_eq p d 0 keep a hd, reduceBatched_zero]
  simp only [bind, Except.bind, reduceFinish]
  have : ¬ ((a.findDim d).isNone = true) := not_isNone_of_isSome _ hdim
  simp only [this, withYields]
  cases keep with
  | false =>
    refine ⟨_, rfl, rfl, rfl, ?_⟩
    intro ix
    simp [eval_reduceCore, valsAlong, NodeArray.along, Function.comp_def]
  | true =>
    simp only [↓reduceIte]
    rw [addDim_reduceCore p d a a d hs rfl rfl]
    refine ⟨_, rfl, rfl, rfl, ?_⟩
    intro ix
    have := eval_reduceCore S p d a ix
    simpa [valsAlong, NodeArray.along, Function.comp_def] using this

example : ∃ r, reduce { fn := "sum" } none "d1" 0 true
      (fromSource [("d0", [.int 0, .int 10]), ("d1", [.int 0, .int 10, .int 20])] 0) = .ok r ∧
      r.dims.map (·.name) = ["d0", "d1"] ∧ r.dims.map (·.labels.length) = [2, 1] := by
  refine ⟨_, rfl, ?_, ?_⟩ <;> decide

/-! ### C13 — batching -/

/-- **Termination / totality of batching**: for a batchable payload and `batch_size ≥ 2` the
iterated batching never runs out of fuel — `reduce` returns a result for every dimension size. -/
theorem c13_batch_terminates (p : Payload) (a : NodeArray) (d : String) (b : Nat)
    (hd : d ≠ "") (hdim : (a.findDim d).isSome) (hb : 2 ≤ b) (hp : p.batchable = true) :
    ∃ r, reduce p none d b false a = .ok r := by
  rw [reduce_eq p d b false a hd]
  have hx : ∃ x, reduceBatched p d b a = .ok x ∧ (x.2.findDim x.1).isSome := by
    simp only [reduceBatched]
    have : b > 1 := by omega
    simp only [this, ↓reduceIte]
    cases hf : a.findDim d with
    | none => simp [hf] at hdim
    | some y =>
      simp only []
      split
      · rename_i hlt
        simp only [hp, Bool.not_true, Bool.false_eq_true, ↓reduceIte]
        obtain ⟨x, hx, hle⟩ := batchLoop_total p b hb (a.dimSize d) 0 d a (Nat.le_refl _)
        refine ⟨x, hx, ?_⟩
        -- the loop preserves "the dimension to reduce exists" (no batchability of values needed)
        have key : ∀ (fuel level : Nat) (d : String) (a : NodeArray) (x : String × NodeArray),
            (a.findDim d).isSome → batchLoop p b fuel level d a = .ok x → (x.2.findDim x.1).isSome := by
          intro fuel
          induction fuel with
          | zero =>
            intro level d a x hdim h
            simp only [batchLoop] at h
            split at h
            · cases h
            · cases h; exact hdim
          | succ fuel ih =>
            intro level d a x hdim h
            simp only [batchLoop] at h
            split at h
            · exact ih _ _ _ x (findDim_batchLevel p d b level a) h
            · cases h; exact hdim
        exact key _ _ _ _ x (by simp [hf]) hx
      · exact ⟨(d, a), rfl, by simp [hf]⟩
  obtain ⟨x, hx, hsome⟩ := hx
  rw [hx]
  simp only [bind, Except.bind, reduceFinish]
  have : ¬ ((x.2.findDim x.1).isNone = true) := not_isNone_of_isSome _ hsome
  simp [this]

/-- **Batch invariance.** For every payload whose function is batchable (hypothesis `IsBatchable`,
discharged per backend function in C15), every batch size `b`, every array and dimension (any
size) and with or without `keep_dim`: if the batched reduce returns `r` and the unbatched one `r0`,
they have the same dimensions, coordinates and scalar coordinates, and at every position the
nodes evaluate to the same value. By induction on the batching recursion (`batchLoop_spec`). -/
theorem c13_batch_invariant {V : Type} (S : Sem V) (p : Payload) (hB : IsBatchable (p.apply S))
    (a : NodeArray) (d : String) (b : Nat) (keep : Bool)
    (hd : d ≠ "") (hs : a.scalar? d = none) (hfresh : BatchFresh a d) (r r0 : NodeArray)
    (h : reduce p none d b keep a = .ok r) (h0 : reduce p none d 0 keep a = .ok r0) :
    r.dims = r0.dims ∧ r.scalars = r0.scalars ∧ ∀ ix, (r.node ix).eval S = (r0.node ix).eval S := by
  rw [reduce_eq p d b keep a hd] at h
  rw [reduce_eq p d 0 keep a hd, reduceBatched_zero] at h0
  simp only [bind, Except.bind] at h h0
  -- the unbatched side
  have hdim : (a.findDim d).isSome := by
    simp only [reduceFinish] at h0
    split at h0
    · cases h0
    · rename_i hn; exact isSome_of_not_isNone _ hn
  -- the batched side: what the loop returns
  cases hx : reduceBatched p d b a with
  | error e => rw [hx] at h; cases h
  | ok x =>
    rw [hx] at h
    simp only [] at h
    have spec : (∀ ix, p.apply S (valsAlong S x.2 x.1 ix) = p.apply S (valsAlong S a d ix)) ∧
        allIndexed (dropDim x.2.dims x.1) = allIndexed (dropDim a.dims d) ∧ x.2.scalars = a.scalars ∧
        (x.2.findDim x.1).isSome := by
      simp only [reduceBatched] at hx
      split at hx
      · rename_i hb1
        split at hx
        · cases hx
        · split at hx
          · split at hx
            · cases hx
            · exact batchLoop_spec S p hB b (by omega) _ 0 d a x.1 x.2 hfresh hdim hx
          · cases hx; exact ⟨fun _ => rfl, rfl, rfl, hdim⟩
      · cases hx; exact ⟨fun _ => rfl, rfl, rfl, hdim⟩
    obtain ⟨hv, hdims, hsc, hsome⟩ := spec
    have n1 : ¬ ((x.2.findDim x.1).isNone = true) := not_isNone_of_isSome _ hsome
    have n0 : ¬ ((a.findDim d).isNone = true) := not_isNone_of_isSome _ hdim
    simp only [reduceFinish, n1, n0, withYields] at h h0
    cases keep with
    | false =>
      simp only [Bool.false_eq_true, ↓reduceIte] at h h0
      cases h; cases h0
      refine ⟨?_, ?_, ?_⟩
      · simp [reduceCore, hdims]
      · simp [reduceCore, hsc]
      · intro ix; rw [eval_reduceCore, eval_reduceCore, hv]
    | true =>
      simp only [↓reduceIte] at h h0
      rw [addDim_reduceCore p x.1 x.2 a d hs hdims hsc] at h
      rw [addDim_reduceCore p d a a d hs rfl rfl] at h0
      cases h; cases h0
      refine ⟨rfl, ?_, ?_⟩
      · simp [reduceCore, hsc]
      · intro ix
        have e1 := eval_reduceCore S p x.1 x.2 ix
        have e2 := eval_reduceCore S p d a ix
        simp only [reduceCore] at e1 e2 ⊢
        rw [e1, e2, hv]

/-- non-vacuity of `c13_batch_terminates` / `c13_batch_invariant`: `sum` on exact rationals is
batchable, a 2×5 source array is batch-fresh; batch size 2 over the dimension of size 5 gives
chunks 2,2,1 (the last passed through), then 2,1, then the final reduce. -/
example (unk : Unk) : ∃ r r0,
    reduce (backendPayload "sum" []) none "d1" 2 false
      (fromSource [("d0", [.int 0, .int 10]), ("d1", [.int 0, .int 10, .int 20, .int 30, .int 40])] 0) = .ok r ∧
    reduce (backendPayload "sum" []) none "d1" 0 false
      (fromSource [("d0", [.int 0, .int 10]), ("d1", [.int 0, .int 10, .int 20, .int 30, .int 40])] 0) = .ok r0 ∧
    (r.dims = r0.dims ∧ r.scalars = r0.scalars ∧
      ∀ ix, (r.node ix).eval (ratSem (fun i => (i : Rat)) unk) = (r0.node ix).eval (ratSem (fun i => (i : Rat)) unk)) := by
  obtain ⟨r, hr⟩ := c13_batch_terminates (backendPayload "sum" [])
    (fromSource [("d0", [.int 0, .int 10]), ("d1", [.int 0, .int 10, .int 20, .int 30, .int 40])] 0) "d1" 2
    (by decide) (by decide) (by decide) (by decide)
  obtain ⟨r0, hr0, -⟩ := c13_reduce (ratSem (fun i => (i : Rat)) unk) (backendPayload "sum" [])
    (fromSource [("d0", [.int 0, .int 10]), ("d1", [.int 0, .int 10, .int 20, .int 30, .int 40])] 0) "d1" false
    (by decide) (by decide) (by decide)
  exact ⟨r, r0, hr, hr0, c13_batch_invariant (ratSem (fun i => (i : Rat)) unk) _ (sum_batchable _ unk _) _ "d1" 2 false
    (by decide) (by decide) (fromSource_batchFresh _ _ _ (by decide)) r r0 hr hr0⟩

/-! ### C13 — mean / std rewrites -/

namespace Aux

theorem eval_divide (src : Nat → Rat) (unk : Unk) (q : Rat) (s : NodeArray) (ix : Ix) :
    ((arithScalar "divide" (.num q) s).node ix).eval (ratSem src unk) = (s.node ix).eval (ratSem src unk) / q := by
  simp [arithScalar, map, withYields, mkNode, Expr.eval, evalList, fillTmpl, resolve, ratSem, ratFn]

theorem eval_square (src : Nat → Rat) (unk : Unk) (s : NodeArray) (ix : Ix) :
    ((arithScalar "pow" (.num 2) s).node ix).eval (ratSem src unk)
      = (s.node ix).eval (ratSem src unk) * (s.node ix).eval (ratSem src unk) := by
  simp [arithScalar, map, withYields, mkNode, Expr.eval, evalList, fillTmpl, resolve, ratSem, ratFn]

theorem eval_subtract (src : Nat → Rat) (unk : Unk) (e1 e2 : Expr) :
    (mkNode { fn := "subtract" } [e1, e2]).eval (ratSem src unk) = e1.eval (ratSem src unk) - e2.eval (ratSem src unk) := by
  simp [mkNode, Expr.eval, evalList, fillTmpl, resolve, ratSem, ratFn, List.range_succ]

theorem apply_mean (src : Nat → Rat) (unk : Unk) (kw : List (String × Static)) (vals : List Rat) :
    (backendPayload "mean" kw).apply (ratSem src unk) vals = vals.sum / (vals.length : Rat) := by
  simp only [Payload.apply, backendPayload, fillTmpl_nil, resolve_inputs, ratSem, ratFn, allVals_map_val]

theorem valsAlong_length {V : Type} (S : Sem V) (a : NodeArray) (d : String) (ix : Ix) :
    (valsAlong S a d ix).length = a.dimSize d := by
  simp [valsAlong, NodeArray.along]

end Aux

/-- **`mean`, batched or not, is the arithmetic mean.** On exact rationals, for every batch size
`b` (the rewrite `sum(batch_size=b).divide(n)` is taken for `1 < b < n`, the plain `mean` node
otherwise), with or without `keep_dim`: every node of `a.mean(d, b)` evaluates to
(Σ values along `d`) / (number of ELEMENTS along `d`). -/
theorem c13_mean_std_mean (src : Nat → Rat) (unk : Unk) (a : NodeArray) (d : String) (b : Nat) (keep : Bool)
    (kw : List (String × Static))
    (hd : d ≠ "") (hs : a.scalar? d = none) (hfresh : BatchFresh a d) (r : NodeArray)
    (h : mean d b keep kw a = .ok r) :
    r.dims = (if keep then keptDims a d else restDims a d) ∧
    ∀ ix, (r.node ix).eval (ratSem src unk) = (valsAlong (ratSem src unk) a d ix).sum / (a.dimSize d : Rat) := by
  simp only [mean, defaultDim, hd, ↓reduceIte, bind, Except.bind] at h
  split at h
  · cases h
  · split at h
    · -- not batched: one `mean` node over all elements
      rename_i hnb
      have hdim : (a.findDim d).isSome := by
        simp only [reduce, defaultDim, hd, ↓reduceIte, bind, Except.bind] at h
        simp [reduceBatched, reduceFinish] at h
        cases hf : a.findDim d with
        | none => simp [hf] at h
        | some x => simp
      obtain ⟨r', hr', hdims, -, hv⟩ := c13_reduce (ratSem src unk) (backendPayload "mean" kw) a d keep hd hdim hs
      rw [hr'] at h
      cases h
      refine ⟨hdims, ?_⟩
      intro ix
      rw [hv ix, apply_mean]
      simp [valsAlong, NodeArray.along, Function.comp_def]
    · -- batched: sum in batches, then divide by the number of elements
      rename_i hnb
      split at h
      · cases h
      · rename_i s hsum
        cases h
        have hdim : (a.findDim d).isSome := by
          apply dimSize_pos_of_lt a d b
          simp at hnb
          omega
        obtain ⟨r0, hr0, hdims0, -, hv0⟩ := c13_reduce (ratSem src unk) (backendPayload "sum" kw) a d keep hd hdim hs
        obtain ⟨hdims, -, hv⟩ := c13_batch_invariant (ratSem src unk) _ (sum_batchable src unk kw) a d b keep hd hs hfresh s r0 hsum hr0
        refine ⟨?_, ?_⟩
        · show s.dims = _
          rw [hdims, hdims0]
        · intro ix
          rw [natStatic, eval_divide, hv ix, hv0 ix, apply_sum]
          simp [valsAlong, NodeArray.along, Function.comp_def]

/-- The algebra behind the `std` rewrite: `Σx²/n − (Σx/n)²` IS the population variance
`Σ(x − m)²/n` with `m = Σx/n` — dividing by the number of elements `n`, not of batches. -/
theorem c13_mean_std_identity (xs : List Rat) (hn : xs ≠ []) :
    (xs.map (fun x => x * x)).sum / (xs.length : Rat) - (xs.sum / (xs.length : Rat)) * (xs.sum / (xs.length : Rat))
      = (xs.map (fun x => (x - xs.sum / (xs.length : Rat)) * (x - xs.sum / (xs.length : Rat)))).sum / (xs.length : Rat) := by
  have hlen : (xs.length : Rat) ≠ 0 := by
    have := List.length_pos_iff.mpr hn
    intro h
    have : (xs.length : Rat) = ((0 : Nat) : Rat) := by simpa using h
    have := Rat.natCast_inj.mp this
    omega
  have key : ∀ (m : Rat) (l : List Rat),
      (l.map (fun x => (x - m) * (x - m))).sum = (l.map (fun x => x * x)).sum - 2 * m * l.sum + (l.length : Rat) * (m * m) := by
    intro m l
    induction l with
    | nil => simp; grind
    | cons x l ih =>
      simp only [List.map_cons, List.sum_cons, List.length_cons, ih]
      push_cast
      grind
  rw [key]
  grind

/-! ### C13 — shape and value of the other operations -/

/-- `map`: same dims/coords; every node is the payload applied to the one node below it. -/
theorem c13_value_map {V : Type} (S : Sem V) (p : Payload) (a : NodeArray) :
    (map p none a).dims = a.dims ∧ (map p none a).scalars = a.scalars ∧
    ∀ ix, ((map p none a).node ix).eval S = p.apply S [(a.node ix).eval S] := by
  refine ⟨rfl, rfl, ?_⟩
  intro ix
  simp [map, withYields, eval_mkNode]

/-- `map` with a generator payload (`yields = (y, labels)`, at least two outputs): a new LAST
dimension `y`; position `k` along it is output `k` of the node. -/
theorem c13_value_map_yields {V : Type} (S : Sem V) (p : Payload) (a : NodeArray) (y : String) (ls : List Coord)
    (hl : ls.length ≠ 1) :
    (map p (some (y, ls)) a).dims = a.dims ++ [{ name := y, labels := ls, indexed := true }] ∧
    ∀ ix, ((map p (some (y, ls)) a).node ix).eval S = S.out (ix y) (p.apply S [(a.node ix).eval S]) := by
  refine ⟨rfl, ?_⟩
  intro ix
  simp [map, withYields, hl, Expr.eval, eval_mkNode]

namespace Aux

theorem locate_spec (labels : List Coord) (c : Coord) (i : Nat) (h : locate labels c = .ok i) :
    labels[i]? = some c ∧ ∀ j, labels[j]? = some c → j = i := by
  unfold locate at h
  split at h
  · cases h
  · rename_i k hk
    cases h
    have hmem : ∀ j, j ∈ positionsOf labels c ↔ (j < labels.length ∧ labels[j]? = some c) := by
      intro j; simp [positionsOf]
    constructor
    · have : i ∈ positionsOf labels c := by rw [hk]; simp
      exact ((hmem i).mp this).2
    · intro j hj
      have hjl : j < labels.length := by
        rcases Nat.lt_or_ge j labels.length with h | h
        · exact h
        · simp [List.getElem?_eq_none h] at hj
      have : j ∈ positionsOf labels c := (hmem j).mpr ⟨hjl, hj⟩
      rw [hk] at this
      simpa using this
  · cases h

end Aux

/-- `select({d: c})` on a dimension with a coordinate: succeeds only if the label `c` occurs, and
then drops exactly dimension `d`, every node being the node of `a` at THE position whose label
is `c` (no other position carries that label). `drop` decides only whether `d=c` stays as a scalar
coordinate. -/
theorem c13_value_select (a : NodeArray) (d : String) (c : Coord) (drop : Bool) (x : Dim) (r : NodeArray)
    (hx : a.findDim d = some x) (hidx : x.indexed = true) (h : select d (.one c) drop a = .ok r) :
    ∃ i, x.labels[i]? = some c ∧ (∀ j, x.labels[j]? = some c → j = i) ∧
      r.dims = dropDim a.dims x.name ∧ (∀ ix, r.node ix = a.node (ix.set x.name i)) ∧
      r.scalars = (if drop then a.scalars else a.scalars ++ [(x.name, c)]) := by
  simp only [select, hx, hidx, ↓reduceIte, bind, Except.bind] at h
  split at h
  · cases h
  · rename_i i hi
    cases h
    obtain ⟨h1, h2⟩ := locate_spec x.labels c i hi
    refine ⟨i, h1, h2, rfl, fun _ => rfl, ?_⟩
    cases drop with
    | true => simp [pick]
    | false =>
      simp [pick, hidx, h1]

/-- `iselect({d: i})`: in range ⇒ drops `d`, node at position `i`; out of range ⇒ IndexError. -/
theorem c13_value_iselect (a : NodeArray) (d : String) (i : Nat) (drop : Bool) (x : Dim) (hx : a.findDim d = some x) :
    (i < x.labels.length → ∃ r, iselect d (.one i) drop a = .ok r ∧ r.dims = dropDim a.dims x.name ∧
        ∀ ix, r.node ix = a.node (ix.set x.name i)) ∧
    (¬ i < x.labels.length → iselect d (.one i) drop a = .error .index) := by
  constructor
  · intro h
    exact ⟨pick a x (.one i) drop, by simp [iselect, hx, h], rfl, fun _ => rfl⟩
  · intro h
    simp [iselect, hx, h]

/-- `iselect({d: [i₀, i₁, …]})`: `d` stays, with the chosen labels in the chosen order; position
`k` along `d` is the node of `a` at position `i_k`. -/
theorem c13_value_iselect_many (a : NodeArray) (d : String) (is : List Nat) (drop : Bool) (x : Dim) (r : NodeArray)
    (hx : a.findDim d = some x) (h : iselect d (.many is) drop a = .ok r) :
    (∀ i ∈ is, i < x.labels.length) ∧ r.dims.map (·.name) = a.dims.map (·.name) ∧
    ∀ ix, r.node ix = a.node (ix.set x.name (is.getD (ix x.name) 0)) := by
  simp only [iselect, hx] at h
  split at h
  · rename_i hall
    cases h
    refine ⟨by simpa using hall, ?_, fun _ => rfl⟩
    simp only [pick, List.map_map]
    apply List.map_congr_left
    intro y _
    simp only [Function.comp]
    split <;> rfl
  · cases h

/-- `broadcast`: if it succeeds, every node is the `trivial` payload on the node of `a` AT THE SAME
NAMED POSITION (dimensions are matched by name, never by axis position), the dimensions are the
other array's followed by those only `a` has, and scalar coordinates are `a`'s. -/
theorem c13_value_broadcast {V : Type} (S : Sem V) (a b r : NodeArray) (h : broadcast a b = .ok r)
    (htriv : ∀ kw v, S.fn "trivial" kw [.val v] = v) :
    r.dims.map (·.name) = b.dims.map (·.name) ++ (a.dims.filter (fun x => (b.findDim x.name).isNone)).map (·.name) ∧
    r.scalars = a.scalars ∧
    ∀ ix, r.node ix = mkNode trivialPayload [a.node ix] ∧ (r.node ix).eval S = (a.node ix).eval S := by
  simp only [broadcast, bind, Except.bind] at h
  split at h
  · cases h
  · split at h
    · cases h
    · cases h
      refine ⟨?_, rfl, ?_⟩
      · simp only [List.map_append, List.map_map]
        congr 1
        apply List.map_congr_left
        intro y _
        simp only [Function.comp]
        cases hf : a.findDim y.name with
        | none => rfl
        | some x =>
          simp only []
          split
          · have := List.find?_some hf
            simpa using this
          · rfl
      · intro ix
        refine ⟨rfl, ?_⟩
        simp [eval_mkNode, trivialPayload, Payload.apply, fillTmpl, resolve, htriv]

/-- `join` (no coordinate matching) along a dimension both arrays have: `a`'s positions come
first, then `b`'s shifted by `a`'s size; the coordinate labels are concatenated. -/
theorem c13_value_join_existing (a b r : NodeArray) (d : String) (x y : Dim)
    (hx : a.findDim d = some x) (hy : b.findDim d = some y) (h : join a b (.name d) false = .ok r) :
    (∀ ix, r.node ix = if ix d < x.labels.length then a.node ix else b.node (ix.set d (ix d - x.labels.length))) ∧
    (x.indexed = true → ∀ z ∈ r.dims, z.name = d → z.labels = x.labels ++ y.labels) := by
  simp only [join, joinCore, DimArg.dimName, hx, hy, joinExisting, Bool.false_eq_true, ↓reduceIte] at h
  split at h
  · cases h
  · split at h
    · cases h
    · split at h
      · cases h
      · cases h
        refine ⟨fun _ => rfl, ?_⟩
        intro hidx z hz hzn
        simp only [List.mem_map] at hz
        obtain ⟨w, _, hw⟩ := hz
        split at hw
        · subst hw; simp
        · subst hw; rename_i hne; exact absurd hzn hne

/-- `join` on a dimension name neither array knows: a new dimension at axis 0 of size 2;
position 0 is `a`, position 1 is `b` (matched by dimension NAME, whatever `b`'s axis order); the other dimensions
are `a`'s followed by those only `b` has (the arrays may have different dimensions: each is broadcast by name). -/
theorem c13_value_join_new (a b r : NodeArray) (dim : DimArg)
    (ha : a.findDim dim.dimName = none) (hb : b.findDim dim.dimName = none) (h : join a b dim false = .ok r) :
    (∀ ix, r.node ix = if ix dim.dimName = 0 then a.node ix else b.node ix) ∧
    r.dims.map (·.name) = dim.dimName :: (a.dims.map (·.name) ++ (b.dims.filter (fun y => (a.findDim y.name).isNone)).map (·.name)) ∧
    (∀ z, r.dims.head? = some z → z.labels.length = 2) := by
  have hc : joinCore a b dim = joinNew a b dim := by
    simp only [joinCore, ha, hb]
  simp only [join, Bool.false_eq_true, ↓reduceIte, hc, joinNew] at h
  split at h
  · cases h
  · split at h
    · cases h
    · split at h
      · cases h
      · split at h
        · cases h
        · rename_i nd hnd
          cases h
          have hname : nd.name = dim.dimName ∧ nd.labels.length = 2 := by
            unfold joinNewDim at hnd
            split at hnd
            · split at hnd
              · cases hnd; rename_i h2; exact ⟨rfl, h2⟩
              · cases hnd
            · cases hnd; exact ⟨rfl, by simp [intLabels]⟩
            · cases hnd; exact ⟨rfl, rfl⟩
            · cases hnd
          refine ⟨fun _ => rfl, ?_, ?_⟩
          · simp only [List.map_cons, hname.1, mergeDims, List.map_append, List.map_map]
            congr 2
            apply List.map_congr_left
            intro z _
            simp only [Function.comp]
            split
            · rename_i y hf
              have hyn : y.name = z.name := by simpa using List.find?_some hf
              split
              · rfl
              · split
                · exact hyn
                · rfl
            · rfl
          · intro z hz
            simp at hz
            subst hz
            exact hname.2

/-! ### C13 — arithmetic between actions, and the `std` rewrite -/

namespace Aux

theorem mapM_ok_map {α β γ : Type} (f : α → Except Err β) (g : β → γ) (g' : α → γ)
    (hf : ∀ y y', f y = .ok y' → g y' = g' y) :
    ∀ (l : List α) (l' : List β), l.mapM f = .ok l' → l'.map g = l.map g' := by
  intro l
  induction l with
  | nil => intro l' h; simp [pure, Except.pure] at h; subst h; rfl
  | cons y ys ih =>
    intro l' h
    simp only [List.mapM_cons, bind, Except.bind] at h
    split at h
    · cases h
    · rename_i y' hy
      split at h
      · cases h
      · rename_i ys' hys
        simp only [pure, Except.pure] at h
        cases h
        simp [hf y y' hy, ih ys' hys]

theorem matchDim_name (a : NodeArray) (y y' : Dim) (h : matchDim a y = .ok y') : y'.name = y.name := by
  unfold matchDim at h
  split at h
  · cases h; rfl
  · split at h
    · split at h
      · cases h; rfl
      · split at h
        · cases h; rfl
        · cases h
    · split at h
      · cases h
      · cases h; rfl

theorem matchScalar_name (a : NodeArray) (y y' : String × Coord) (h : matchScalar a y = .ok y') : y'.1 = y.1 := by
  unfold matchScalar at h
  split at h
  · cases h; rfl
  · split at h
    · split at h
      · cases h
      · cases h; rfl
    · cases h; rfl

theorem matchCoords_spec (a b b' : NodeArray) (h : matchCoords a b = .ok b') :
    b'.node = b.node ∧ b'.dims.map (·.name) = b.dims.map (·.name) ∧ b'.scalars.map (·.1) = b.scalars.map (·.1) := by
  unfold matchCoords at h
  split at h
  · cases h
  · rename_i dims hd
    split at h
    · cases h
    · rename_i sc hsc
      cases h
      exact ⟨rfl, mapM_ok_map _ _ _ (matchDim_name a) _ _ hd, mapM_ok_map _ _ _ (matchScalar_name a) _ _ hsc⟩

theorem findDim_none_iff (a : NodeArray) (d : String) : a.findDim d = none ↔ d ∉ a.dims.map (·.name) := by
  simp [NodeArray.findDim, List.find?_eq_none]

theorem findDim_head (z : Dim) (rest : List Dim) (sc : List (String × Coord)) (nd : Ix → Expr) :
    (NodeArray.mk (z :: rest) sc nd).findDim z.name = some z := by
  simp [NodeArray.findDim]

end Aux

/-- **Binary arithmetic between two actions** (`a.add(b)` etc. = join on a new dimension
`**datatype**` with `match_coord_values`, then reduce it): if it succeeds, the node at every
position is the method applied to `a`'s node and `b`'s node at that named position, in this
order, and the dimensions are `a`'s followed by those only `b` has (the operands may have different
dimensions: each is broadcast by name along the dimensions it lacks). -/
theorem c13_value_arith (fn : String) (a b r : NodeArray)
    (hda : a.findDim datatypeDim = none) (hdb : b.findDim datatypeDim = none)
    (h : arithAction fn a b = .ok r) :
    r.dims.map (·.name) = a.dims.map (·.name) ++ (b.dims.map (·.name)).filter (fun n => (a.findDim n).isNone) ∧
    ∀ ix, r.node ix = mkNode { fn := fn } [a.node (ix.set datatypeDim 0), b.node (ix.set datatypeDim 1)] := by
  simp only [arithAction, bind, Except.bind] at h
  split at h
  · cases h
  · rename_i j hj
    -- the join
    simp only [join, ↓reduceIte] at hj
    split at hj
    · cases hj
    · rename_i b' hb'
      obtain ⟨hnode, hnames, _⟩ := matchCoords_spec a b b' hb'
      have hdb' : b'.findDim datatypeDim = none := by
        rw [findDim_none_iff, hnames, ← findDim_none_iff]; exact hdb
      have hj' : join a b' (.name datatypeDim) false = .ok j := by simpa [join] using hj
      obtain ⟨hjn, hjd, hj2⟩ := c13_value_join_new a b' j (.name datatypeDim) hda hdb' hj'
      -- the reduce over the new leading dimension
      cases hdims : j.dims with
      | nil => rw [hdims] at hjd; simp at hjd
      | cons z rest =>
        rw [hdims] at hjd hj2
        simp only [List.map_cons, List.cons.injEq, DimArg.dimName] at hjd
        have hz2 : z.labels.length = 2 := hj2 z rfl
        have hfd : j.findDim z.name = some z := by
          have := findDim_head z rest j.scalars j.node
          rw [← hdims] at this
          exact this
        have hzn : z.name ≠ "" := by rw [hjd.1]; decide
        have hsz : j.dimSize z.name = 2 := by simp [NodeArray.dimSize, hfd, hz2]
        simp only [reduce, defaultDim, hdims, ↓reduceIte, bind, Except.bind, reduceBatched_zero,
          reduceFinish, hfd, withYields] at h
        simp at h
        cases h
        refine ⟨?_, ?_⟩
        · simp only [reduceCore, hdims, allIndexed_names]
          have : dropDim (z :: rest) z.name = dropDim rest z.name := by simp [dropDim]
          have hfil : (b'.dims.filter (fun y => (a.findDim y.name).isNone)).map (·.name)
              = (b.dims.map (·.name)).filter (fun n => (a.findDim n).isNone) := by
            rw [← hnames, List.filter_map]; rfl
          rw [this, dropDim_of_not_mem]
          · rw [hjd.2, hfil]
          · rw [hjd.2, hjd.1, hfil]
            intro hmem
            rcases List.mem_append.mp hmem with hm | hm
            · exact ((findDim_none_iff a datatypeDim).mp hda) hm
            · exact ((findDim_none_iff b datatypeDim).mp hdb) (List.mem_filter.mp hm).1
        · intro ix
          simp only [reduceCore, NodeArray.along, hsz]
          have e0 : j.node (ix.set z.name 0) = a.node (ix.set datatypeDim 0) := by
            rw [hjn]; simp [DimArg.dimName, hjd.1]
          have e1 : j.node (ix.set z.name 1) = b.node (ix.set datatypeDim 1) := by
            rw [hjn, hnode]; simp [DimArg.dimName, hjd.1]
          simp [List.range_succ, e0, e1]

namespace Aux

theorem batchFresh_arithScalar (fn : String) (k : Static) (a : NodeArray) (d : String) (h : BatchFresh a d) :
    BatchFresh (arithScalar fn k a) d := by
  intro lvl s hs
  obtain ⟨hI, hN⟩ := h lvl s hs
  refine ⟨?_, hN⟩
  intro ix v
  simp only [arithScalar, map, withYields]
  rw [hI]

theorem valsAlong_indep {V : Type} (S : Sem V) (a : NodeArray) (d e : String) (ix : Ix) (j : Nat) (hne : e ≠ d)
    (hI : Indep a e) : valsAlong S a d (ix.set e j) = valsAlong S a d ix := by
  simp only [valsAlong, along_indep a d e ix j hne hI]

theorem valsAlong_square (src : Nat → Rat) (unk : Unk) (a : NodeArray) (d : String) (ix : Ix) :
    valsAlong (ratSem src unk) (arithScalar "pow" (.num 2) a) d ix = (valsAlong (ratSem src unk) a d ix).map (fun x => x * x) := by
  simp only [valsAlong, NodeArray.along, List.map_map]
  apply List.map_congr_left
  intro i _
  simp only [Function.comp]
  have := eval_square src unk a (ix.set d i)
  simpa [NodeArray.dimSize, NodeArray.findDim, arithScalar, map, withYields] using this

theorem restDims_names (a : NodeArray) (d : String) : (restDims a d).map (·.name) = (a.dims.map (·.name)).filter (· ≠ d) := by
  simp only [restDims, allIndexed_names, dropDim, List.filter_map]
  congr 1

theorem not_mem_keptDims (a : NodeArray) (d e : String) (hne : e ≠ d) (he : e ∉ a.dims.map (·.name)) (keep : Bool) :
    e ∉ (if keep then keptDims a d else restDims a d).map (·.name) := by
  have hrest : e ∉ (restDims a d).map (·.name) := by
    rw [restDims_names]
    intro h
    exact he (List.mem_filter.mp h).1
  cases keep with
  | false => simpa using hrest
  | true =>
    simp only [↓reduceIte, keptDims, List.map_append, List.mem_append, List.map_cons, List.map_nil, List.mem_cons,
      List.not_mem_nil, or_false, not_or]
    refine ⟨⟨?_, hne⟩, ?_⟩
    · intro h
      apply hrest
      rw [← List.take_append_drop (a.axisOf d) (restDims a d), List.map_append]
      exact List.mem_append_left _ h
    · intro h
      apply hrest
      rw [← List.take_append_drop (a.axisOf d) (restDims a d), List.map_append]
      exact List.mem_append_right _ h

end Aux

/-- **The batched `std` is `pow(·, 1/2)` of the population variance.** For `1 < b < n`, on exact
rationals: every node of `a.std(d, batch_size=b)` is `pow(e, 1/2)` where `e` evaluates to
`Σx²/n − (Σx/n)²` over the `n` values `x` along `d` — which by `c13_mean_std_identity` is the
population variance (what `numpy.std` takes the root of). -/
theorem c13_mean_std_std (src : Nat → Rat) (unk : Unk) (a : NodeArray) (d : String) (b : Nat) (keep : Bool)
    (kw : List (String × Static))
    (hd : d ≠ "") (hs : a.scalar? d = none) (hfresh : BatchFresh a d)
    (hdt : Indep a datatypeDim) (hnodt : a.findDim datatypeDim = none) (hdd : datatypeDim ≠ d)
    (hb : 1 < b) (hbn : b < a.dimSize d) (r : NodeArray) (h : std d b keep kw a = .ok r) :
    ∀ ix, ∃ e, r.node ix = mkNode { fn := "pow", tmpl := [.inp 0, .lit (.num (1 / 2))] } [e] ∧
      e.eval (ratSem src unk) =
        ((valsAlong (ratSem src unk) a d ix).map (fun x => x * x)).sum / (a.dimSize d : Rat)
          - ((valsAlong (ratSem src unk) a d ix).sum / (a.dimSize d : Rat)) * ((valsAlong (ratSem src unk) a d ix).sum / (a.dimSize d : Rat)) := by
  have hdim : (a.findDim d).isSome := dimSize_pos_of_lt a d b hbn
  have hnb : ¬ (b ≤ 1 ∨ b ≥ a.dimSize d) := by omega
  simp only [std, defaultDim, hd, ↓reduceIte, bind, Except.bind] at h
  split at h
  · cases h
  · split at h
    · rename_i hc; simp at hc; omega
    · split at h
      · cases h
      · rename_i m hm
        split at h
        · cases h
        · rename_i s hsum
          split at h
          · cases h
          · rename_i diff hdiff
            cases h
            -- the two operands of the subtraction
            obtain ⟨hmd, hmv⟩ := c13_mean_std_mean src unk a d b keep kw hd hs hfresh m hm
            have hdimA2 : ((arithScalar "pow" (.num 2) a).findDim d).isSome := hdim
            obtain ⟨r0, hr0, hdims0, -, hv0⟩ := c13_reduce (ratSem src unk) (backendPayload "sum" kw)
              (arithScalar "pow" (.num 2) a) d keep hd hdimA2 hs
            obtain ⟨hsd, -, hsv⟩ := c13_batch_invariant (ratSem src unk) _ (sum_batchable src unk kw)
              (arithScalar "pow" (.num 2) a) d b keep hd hs (batchFresh_arithScalar _ _ a d hfresh) s r0 hsum hr0
            have hnoA : datatypeDim ∉ a.dims.map (·.name) := (findDim_none_iff a datatypeDim).mp hnodt
            have hnorm : (arithScalar "divide" (natStatic (a.dimSize d)) s).findDim datatypeDim = none := by
              rw [findDim_none_iff]
              show datatypeDim ∉ s.dims.map (·.name)
              rw [hsd, hdims0]
              exact not_mem_keptDims (arithScalar "pow" (.num 2) a) d datatypeDim hdd hnoA keep
            have hmsq : (arithScalar "pow" (.num 2) m).findDim datatypeDim = none := by
              rw [findDim_none_iff]
              show datatypeDim ∉ m.dims.map (·.name)
              rw [hmd]
              exact not_mem_keptDims a d datatypeDim hdd hnoA keep
            obtain ⟨-, hdn⟩ := c13_value_arith "subtract" _ _ diff hnorm hmsq hdiff
            intro ix
            refine ⟨diff.node ix, rfl, ?_⟩
            have vA : ∀ (a' : NodeArray) (ix' : Ix),
                (List.range (a'.dimSize d)).map (fun i => (a'.node (ix'.set d i)).eval (ratSem src unk))
                  = valsAlong (ratSem src unk) a' d ix' := by
              intro a' ix'; simp [valsAlong, NodeArray.along, Function.comp_def]
            have hX : (s.node (ix.set datatypeDim 0)).eval (ratSem src unk)
                = ((valsAlong (ratSem src unk) a d ix).map (fun x => x * x)).sum := by
              rw [hsv, hv0, vA, apply_sum, valsAlong_square, valsAlong_indep (ratSem src unk) a d datatypeDim ix 0 hdd hdt]
            have hY : (m.node (ix.set datatypeDim 1)).eval (ratSem src unk)
                = (valsAlong (ratSem src unk) a d ix).sum / (a.dimSize d : Rat) := by
              rw [hmv, valsAlong_indep (ratSem src unk) a d datatypeDim ix 1 hdd hdt]
            rw [hdn ix, eval_subtract, natStatic, eval_divide, eval_square, hX, hY]

/-- `stack` / `concatenate` (`_combine_nodes`): on a dimension of size ≠ 1 it IS the reduce with
the backend's `stack`/`concat` payload (so `c13_reduce` / `c13_batch_invariant` apply); on a
dimension of size 1 it is a no-op — the array itself with `keep_dim`, otherwise the array with
that dimension squeezed (every node unchanged). -/
theorem c13_value_combine (method : String) (kw : List (String × Static)) (d : String) (b : Nat) (keep : Bool)
    (a : NodeArray) (x : Dim) (hx : a.findDim d = some x) :
    (x.labels.length ≠ 1 → combine method kw d b keep a = reduce (backendPayload method kw) none d b keep a) ∧
    (x.labels.length = 1 → keep = true → combine method kw d b keep a = .ok a) ∧
    (x.labels.length = 1 → keep = false → x.indexed = true →
      ∃ r, combine method kw d b keep a = .ok r ∧ r.dims = dropDim a.dims d ∧ ∀ ix, r.node ix = a.node (ix.set d 0)) := by
  refine ⟨?_, ?_, ?_⟩
  · intro h; simp [combine, hx, h]
  · intro h hk; simp [combine, hx, h, hk]
  · intro h hk hi
    refine ⟨{ dims := dropDim a.dims d, scalars := a.scalars ++ [(d, x.labels.headD default)],
              node := fun ix => a.node (ix.set d 0) }, by simp [combine, hx, h, hk, squeeze, hi], rfl, fun _ => rfl⟩

example : ∃ r, stack "d0" 0 false 0 (fromSource [("d0", [.int 7]), ("d1", [.int 0, .int 1])] 0) = .ok r ∧
    r.dims.map (·.name) = ["d1"] ∧ r.scalars = [("d0", .int 7)] := ⟨_, rfl, by decide, by decide⟩

/-! ### non-vacuity of the remaining theorems (a 2×5 and a 2×3 source array) -/

def exA : NodeArray := fromSource [("d0", [.int 0, .int 10]), ("d1", [.int 0, .int 10, .int 20, .int 30, .int 40])] 0
def exB : NodeArray := fromSource [("d0", [.int 0, .int 10]), ("d1", [.int 0, .int 10, .int 20, .int 30, .int 40])] 10
def exC : NodeArray := fromSource [("e", [.str "x", .str "y", .str "z"])] 20

namespace Aux
theorem exA_fresh (d : String) : BatchFresh exA d := fromSource_batchFresh _ _ d (by decide)
theorem exA_indep : Indep exA datatypeDim := by
  intro ix v
  simp only [exA, fromSource]
  rw [flatIndex_indep]
  decide
end Aux

-- the batched graph really is the iterated one: chunks (s5 s6)(s7 s8)(s9), then ((..)(..))(s9)
example : (match reduce (backendPayload "sum" []) none "d1" 2 false exA with
    | .ok r => some (r.node (fun n => if n = "d0" then 1 else 0)) | .error _ => none)
  = some (mkNode (backendPayload "sum" [])
      [mkNode (backendPayload "sum" []) [mkNode (backendPayload "sum" []) [.src 5, .src 6], mkNode (backendPayload "sum" []) [.src 7, .src 8]],
       .src 9]) := rfl

example (unk : Unk) : ∃ r, mean "d1" 2 true [] exA = .ok r ∧ r.dims.map (·.name) = ["d0", "d1"] ∧
    ∀ ix, (r.node ix).eval (ratSem (fun i => (i : Rat)) unk) = (valsAlong (ratSem (fun i => (i : Rat)) unk) exA "d1" ix).sum / (5 : Nat) := by
  refine ⟨_, rfl, by decide, ?_⟩
  exact (c13_mean_std_mean _ unk exA "d1" 2 true [] (by decide) (by decide) (exA_fresh _) _ rfl).2

example : ([1, 2, 4] : List Rat) ≠ [] := by simp

example (unk : Unk) : ∃ r, std "d1" 2 false [] exA = .ok r ∧ ∀ ix, ∃ e,
    r.node ix = mkNode { fn := "pow", tmpl := [.inp 0, .lit (.num (1 / 2))] } [e] := by
  refine ⟨_, rfl, ?_⟩
  intro ix
  obtain ⟨e, he, -⟩ := c13_mean_std_std (fun i => (i : Rat)) unk exA "d1" 2 false [] (by decide) (by decide) (exA_fresh _)
    exA_indep (by decide) (by decide) (by decide) (by decide) _ rfl ix
  exact ⟨e, he⟩

example : (map { fn := "neg" } (some ("y", [.int 0, .int 1])) exA).dims.map (·.name) = ["d0", "d1", "y"] := by decide

example : ∃ r, select "d1" (.one (.int 20)) false exA = .ok r ∧ r.scalars = [("d1", .int 20)] ∧ r.dims.map (·.name) = ["d0"] :=
  ⟨_, rfl, by decide, by decide⟩

example : ∃ r, iselect "d1" (.one 4) true exA = .ok r ∧ iselect "d1" (.one 5) true exA = .error .index := ⟨_, rfl, rfl⟩

example : ∃ r, iselect "d1" (.many [3, 0]) false exA = .ok r ∧ r.dims.map (·.labels) = [[.int 0, .int 10], [.int 30, .int 0]] :=
  ⟨_, rfl, by decide⟩

-- broadcasting against an array whose new dimension comes FIRST: matched by name all the same
example : ∃ r, broadcast exA exC = .ok r ∧ r.dims.map (·.name) = ["e", "d0", "d1"] ∧
    r.node (fun n => if n = "e" then 2 else if n = "d0" then 1 else 3) = mkNode trivialPayload [.src 8] :=
  ⟨_, rfl, by decide, rfl⟩

example : ∃ r, join exA exB (.name "d1") false = .ok r ∧ r.dims.map (·.labels.length) = [2, 10] := ⟨_, rfl, by decide⟩

example : ∃ r, join exA exB (.coord "w" [.str "p", .str "q"]) false = .ok r ∧ r.dims.map (·.name) = ["w", "d0", "d1"] :=
  ⟨_, rfl, by decide⟩

example : ∃ r, arithAction "subtract" exA exB = .ok r ∧ exA.findDim datatypeDim = none ∧ exB.findDim datatypeDim = none ∧
    r.node (fun n => if n = "d0" then 1 else 2) = mkNode { fn := "subtract" } [.src 7, .src 17] :=
  ⟨_, rfl, by decide, by decide, rfl⟩

end EkwVerif.Fluent
