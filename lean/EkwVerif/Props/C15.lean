/-
C15 — 'batchable' functions really are batchable, and the marks in
src/earthkit/workflows/backends/__init__.py (table `Gen.marks`, regenerated from the source on
every run) are right.

Two readings of the law are stated (Model/Backend.lean):

* `IsBatchable f` — what fluent `reduce` computes: for every rank, every cut of the arguments
  into ≥ 2 non-empty batches, a batch of one array passed through and a longer one reduced with
  `f`: `f (reduced batches) = f (all arguments)`, as an equality of arrays (rank, extents, every
  value).  Unbounded: any number of batches, any batch sizes, any array shape.
* `IsBatchableLit f` — the property text read literally: EVERY batch goes through `f`
  (`f(f(b₁),…,f(bₖ)) = f(all)`, k ≥ 1).  It holds for `concat`, and for the reductions exactly on
  the partitions without a single-array batch (`…_literal_partial`, `…_literal_full_fails`).

The element type and its arithmetic are parameters (`Alg α`): the reductions are batchable for
EVERY dtype whose operation is associative (`c15_sum_batchable` …), which is proved for exact
rationals, for NumPy's wrapping fixed-width integers, for bool and — `min`/`max` only — for
IEEE binary64 with NaN and infinities; for binary64 `sum`/`prod` the law is FALSE
(`c15_sum_dtype_full_fails`: rounding makes `+` non-associative).

`sq` is the square root used by `std`; theorems quantify over it (only `sq 0 = 0`, `sq 1 = 1`
is ever assumed, which the real square root satisfies).
-/
import EkwVerif.Model.Backend
import EkwVerif.Model.F64
import EkwVerif.Model.BackendRun
import EkwVerif.Lemmas.Backend
import EkwVerif.Gen.BackendMarks

namespace EkwVerif.Backend

open Aux

section generic
variable {α : Type} [Inhabited α]

/-! ### several arguments: the reduction acts elementwise across the arguments -/

/-- `f(a₁,…,aₖ)` for k ≥ 2 (stack on a new leading axis, reduce it) has the shape of the first
argument and, at every index, the scalar reduction of the arguments' values there; the caller's
`axis`/`dim` plays no role.  This is the pointwise lifting used by all batch theorems. -/
theorem c15_multiarg_pointwise (f : List α → α) (ax : AxisArg) (args : List (Arr α))
    (h : 2 ≤ args.length) (i : Idx) :
    (multiArg f ax args).get i = f (args.map fun x => x.get i) ∧
    (multiArg f ax args).rank = (args.headD Arr.zero).rank ∧
    (multiArg f ax args).ext = (args.headD Arr.zero).ext := by
  rw [multiArg_ge2 f ax args h]; exact ⟨rfl, rfl, rfl⟩

/-! ### batchable: for every dtype whose operation is associative -/

theorem c15_sum_batchable (A : Alg α) [Std.Associative A.add] (sq : α → α) (kw : Kw) :
    IsBatchable (sem A sq kw .sum) :=
  multiArg_batchable (vsum A) (fun _ => rfl) (vsum_batchable A) kw.axis

theorem c15_prod_batchable (A : Alg α) [Std.Associative A.mul] (sq : α → α) (kw : Kw) :
    IsBatchable (sem A sq kw .prod) :=
  multiArg_batchable (vprod A) (fun _ => rfl) (vprod_batchable A) kw.axis

theorem c15_min_batchable (A : Alg α) [Std.Associative A.min] (sq : α → α) (kw : Kw) :
    IsBatchable (sem A sq kw .min) :=
  multiArg_batchable (vmin A) (fun _ => rfl) (vmin_batchable A) kw.axis

theorem c15_max_batchable (A : Alg α) [Std.Associative A.max] (sq : α → α) (kw : Kw) :
    IsBatchable (sem A sq kw .max) :=
  multiArg_batchable (vmax A) (fun _ => rfl) (vmax_batchable A) kw.axis

/-- concatenation along any (also negative) axis, for arguments of any extents along it, for
every element type (no arithmetic is involved) -/
theorem c15_concat_batchable (A : Alg α) (sq : α → α) (kw : Kw) : IsBatchable (sem A sq kw .concat) :=
  concatKw_batchable kw.axis

end generic

/-- non-vacuity: a cut 2+1+3 of six vectors satisfies the hypotheses, and the common value is
the one expected -/
example :
    let bs : List (List (Arr Rat)) :=
      [[Arr.vec [1, 2], Arr.vec [3, 4]], [Arr.vec [5, 6]], [Arr.vec [0, 1], Arr.vec [2, 2], Arr.vec [7, 7]]]
    batched (sem Alg.rat id {} .sum) bs = sem Alg.rat id {} .sum bs.flatten ∧
    batched (sem Alg.rat id {} .min) bs = sem Alg.rat id {} .min bs.flatten ∧
    batched (sem Alg.rat id {axis := .one (-1)} .concat) bs = sem Alg.rat id {axis := .one (-1)} .concat bs.flatten ∧
    (sem Alg.rat id {} .sum bs.flatten).get (fun _ => 1) = 22 := by
  intro bs
  have hr : ∀ b ∈ bs, ∀ x ∈ b, x.rank = 1 := by simp [bs, Arr.vec]
  refine ⟨c15_sum_batchable Alg.rat id {} 1 bs (by simp [bs]) (by simp [bs]) hr,
    c15_min_batchable Alg.rat id {} 1 bs (by simp [bs]) (by simp [bs]) hr,
    c15_concat_batchable Alg.rat id _ 1 bs (by simp [bs]) (by simp [bs]) hr, ?_⟩
  show (multiArg (vsum Alg.rat) .none bs.flatten).get _ = _
  rw [(c15_multiarg_pointwise (vsum Alg.rat) .none _ (by simp [bs]) _).1]
  simp [bs, Arr.vec, vsum, fold1, Alg.rat]; grind

/-! ### the dtypes for which the law holds, and the one for which it does not -/

/-- the four marked reductions are batchable over exact rationals, over every fixed-width integer
type with NumPy's wrap-around (int64, int32, uint8, uint64, …: overflow does not break the law)
and over bool; `min` and `max` also over IEEE binary64 including NaN and ±inf -/
theorem c15_sum_dtype_partial (kw : Kw) :
    (∀ sq, IsBatchable (sem Alg.rat sq kw .sum) ∧ IsBatchable (sem Alg.rat sq kw .prod) ∧
           IsBatchable (sem Alg.rat sq kw .min) ∧ IsBatchable (sem Alg.rat sq kw .max)) ∧
    (∀ bits signed sq,
           IsBatchable (sem (Alg.wrap bits signed) sq kw .sum) ∧ IsBatchable (sem (Alg.wrap bits signed) sq kw .prod) ∧
           IsBatchable (sem (Alg.wrap bits signed) sq kw .min) ∧ IsBatchable (sem (Alg.wrap bits signed) sq kw .max)) ∧
    (∀ sq, IsBatchable (sem Alg.bool sq kw .sum) ∧ IsBatchable (sem Alg.bool sq kw .prod) ∧
           IsBatchable (sem Alg.bool sq kw .min) ∧ IsBatchable (sem Alg.bool sq kw .max)) ∧
    (∀ sq, IsBatchable (sem Alg.f64 sq kw .min) ∧ IsBatchable (sem Alg.f64 sq kw .max)) :=
  ⟨fun sq => ⟨c15_sum_batchable _ sq kw, c15_prod_batchable _ sq kw, c15_min_batchable _ sq kw, c15_max_batchable _ sq kw⟩,
   fun _ _ sq => ⟨c15_sum_batchable _ sq kw, c15_prod_batchable _ sq kw, c15_min_batchable _ sq kw, c15_max_batchable _ sq kw⟩,
   fun sq => ⟨c15_sum_batchable _ sq kw, c15_prod_batchable _ sq kw, c15_min_batchable _ sq kw, c15_max_batchable _ sq kw⟩,
   fun sq => ⟨c15_min_batchable _ sq kw, c15_max_batchable _ sq kw⟩⟩

/-- wrap-around really happens in the model: `int64` `2^62 + 2^62 + 2^62` (a cut 1+2 and the
unbatched sum agree on the wrapped value `-2^62`), `uint8` `200 + 100 = 44` -/
example :
    let big : Arr Int := Arr.scalar 4611686018427387904
    (batched (sem (Alg.wrap 64 true) id {} .sum) [[big], [big, big]]).get (fun _ => 0) = -4611686018427387904 ∧
    (sem (Alg.wrap 64 true) id {} .sum [big, big, big]).get (fun _ => 0) = -4611686018427387904 ∧
    (Alg.wrap 8 false).add 200 100 = 44 := by decide

namespace Aux
/-- 2^53, 1.0, 2^53 + 2 as binary64 ordinals -/
def f2p53 : F64 := .fin 4845873199050653696
def f1 : F64 := F64.one
def f2p53p2 : F64 := .fin 4845873199050653697
def fs (v : F64) : Arr F64 := Arr.scalar v

theorem f64_add_facts :
    F64.add (F64.add f2p53 f1) f1 = f2p53 ∧ F64.add f2p53 (F64.add f1 f1) = f2p53p2 ∧ f2p53 ≠ f2p53p2 := by decide

theorem get_multi {α : Type} [Inhabited α] (f : List α → α) (ax : AxisArg) (args : List (Arr α)) (h : 2 ≤ args.length) (i : Idx) :
    (multiArg f ax args).get i = f (args.map fun x => x.get i) := by rw [multiArg_ge2 f ax args h]
end Aux

/-- binary64 addition is not associative: `(2^53 + 1) + 1 = 2^53` but `2^53 + (1 + 1) = 2^53 + 2` -/
theorem c15_f64_add_not_associative :
    ∃ a b c : F64, Alg.f64.add (Alg.f64.add a b) c ≠ Alg.f64.add a (Alg.f64.add b c) :=
  ⟨f2p53, f1, f1, by decide⟩

/-- the batch law as stated ("= ", for every dtype) is FALSE for `sum` over float64: with
`a = 2^53, b = c = 1.0` the cut `[a] [b, c]` gives `2^53 + 2`, the unbatched sum `2^53`
(replayed on the real code by the check: known finding C15-float-batch-rounding) -/
theorem c15_sum_dtype_full_fails (sq : F64 → F64) (kw : Kw) : ¬ IsBatchable (sem Alg.f64 sq kw .sum) := by
  intro h
  have h := h 0 [[fs f2p53], [fs f1, fs f1]] (by simp) (by simp) (by simp [fs, Arr.scalar])
  have h := congrArg (fun a => a.get (fun _ => 0)) h
  simp only [batched, applyBatch, sem, List.map, List.flatten, List.append] at h
  rw [get_multi _ _ _ (by simp), get_multi _ _ _ (by simp)] at h
  simp only [List.map, get_multi _ _ [fs f1, fs f1] (by simp)] at h
  revert h
  simp only [fs, Arr.scalar, vsum, fold1, List.foldl, Alg.f64]
  decide

/-- likewise `prod`: `(0.1 · 0.1) · 0.3 = 0.0030000000000000005` but `0.1 · (0.1 · 0.3) = 0.003` -/
theorem c15_prod_dtype_full_fails (sq : F64 → F64) (kw : Kw) : ¬ IsBatchable (sem Alg.f64 sq kw .prod) := by
  intro h
  -- ordinals of 0.1 and 0.3
  have h := h 0 [[fs (.fin 4591870180066957722)], [fs (.fin 4591870180066957722), fs (.fin 4599075939470750515)]]
    (by simp) (by simp) (by simp [fs, Arr.scalar])
  have h := congrArg (fun a => a.get (fun _ => 0)) h
  simp only [batched, applyBatch, sem, List.map, List.flatten, List.append] at h
  rw [get_multi _ _ _ (by simp), get_multi _ _ _ (by simp)] at h
  simp only [List.map, get_multi _ _ [fs (.fin 4591870180066957722), fs (.fin 4599075939470750515)] (by simp)] at h
  revert h
  simp only [fs, Arr.scalar, vprod, fold1, List.foldl, Alg.f64]
  decide

/-! ### float32 and float16 (second audit: "any dtype")

`Alg.f32` / `Alg.f16` (Model/F64.lean): the binary64 operation followed by rounding to the narrow
format -- for +, −, ×, ÷ the correctly rounded operation of the narrow format (double rounding is
innocuous from 53 to 24 or 11 digits; fact cited in Model/F64.lean, not proved).  The batch law
fails for their `sum` and `prod` exactly as for float64, and holds for `min` / `max`. -/

namespace Aux
/-- 2^24, 2^24 + 2 (float32 values, as binary64 ordinals) -/
def g2p24 : F64 := .fin 4715268809856909312
def g2p24p2 : F64 := .fin 4715268810393780224
/-- float32(0.1), float32(7.7) -/
def g01 : F64 := .fin 4591870180174331904
def g77 : F64 := .fin 4620355447495327744
/-- 2048, 2050 (float16 values) -/
def h2048 : F64 := .fin 4656722014701092864
def h2050 : F64 := .fin 4656726412747603968
end Aux

/-- the rounding to the narrow formats does what NumPy's cast does on the corner cases: a tie goes to the even
significand (2^24 + 1 → 2^24; 2049 → 2048), 0.1 → float32(0.1), overflow → inf (1e39; 65520 in float16, while 65519
→ 65504), gradual underflow (1e-46 → 0; 3e-5 → a float16 subnormal), values of the format are fixed points, NaN stays -/
theorem c15_narrow_corner_cases :
    F64.to32 (.fin 4715268810125344768) = g2p24 ∧ F64.to32 (.fin 4591870180066957722) = g01 ∧
    F64.to32 (.fin 5190260616003865117) = F64.pinf ∧ F64.to32 (.fin (-5190260616003865117)) = F64.ninf ∧
    F64.to32 (.fin 3918770277926589793) = .fin 0 ∧ F64.to32 g2p24p2 = g2p24p2 ∧ F64.to32 g01 = g01 ∧
    F64.to32 (.fin 3936146074321813504) = .fin 3936146074321813504 ∧
    F64.to16 (.fin 4656724213724348416) = h2048 ∧ F64.to16 (.fin 4679237813814689792) = F64.pinf ∧
    F64.to16 (.fin 4679237676375736320) = .fin 4679235614791434240 ∧
    F64.to16 (.fin 4539475662290099561) = .fin 4539470094715060224 ∧
    F64.to32 .nan = .nan ∧ F64.to16 F64.pinf = F64.pinf := by decide

/-- float32 / float16 addition is not associative: `(2^24 + 1) + 1 = 2^24` but `2^24 + (1 + 1) = 2^24 + 2`
(float16: 2048, 2050); float32 multiplication neither: `(0.1 · 0.1) · 7.7 ≠ 0.1 · (0.1 · 7.7)` -/
theorem c15_narrow_add_not_associative :
    Alg.f32.add (Alg.f32.add g2p24 f1) f1 = g2p24 ∧ Alg.f32.add g2p24 (Alg.f32.add f1 f1) = g2p24p2 ∧
    Alg.f16.add (Alg.f16.add h2048 f1) f1 = h2048 ∧ Alg.f16.add h2048 (Alg.f16.add f1 f1) = h2050 ∧
    Alg.f32.mul (Alg.f32.mul g01 g01) g77 ≠ Alg.f32.mul g01 (Alg.f32.mul g01 g77) := by decide

/-- the batch law as stated is FALSE for `sum` over float32 -- the dtype of most field data: the cut `[2^24] [1, 1]`
gives `2^24 + 2`, the unbatched sum `2^24` (replayed on the real code on every container by the check) -/
theorem c15_sum_f32_full_fails (sq : F64 → F64) (kw : Kw) : ¬ IsBatchable (sem Alg.f32 sq kw .sum) := by
  intro h
  have h := h 0 [[fs g2p24], [fs f1, fs f1]] (by simp) (by simp) (by simp [fs, Arr.scalar])
  have h := congrArg (fun a => a.get (fun _ => 0)) h
  simp only [batched, applyBatch, sem, List.map, List.flatten, List.append] at h
  rw [get_multi _ _ _ (by simp), get_multi _ _ _ (by simp)] at h
  simp only [List.map, get_multi _ _ [fs f1, fs f1] (by simp)] at h
  revert h
  simp only [fs, Arr.scalar, vsum, fold1, List.foldl, Alg.f32, Alg.narrowed]
  decide

/-- likewise float16 (element-by-element arithmetic; NumPy's float16 reductions accumulate in float32 and are
compared through the oracle only) -/
theorem c15_sum_f16_full_fails (sq : F64 → F64) (kw : Kw) : ¬ IsBatchable (sem Alg.f16 sq kw .sum) := by
  intro h
  have h := h 0 [[fs h2048], [fs f1, fs f1]] (by simp) (by simp) (by simp [fs, Arr.scalar])
  have h := congrArg (fun a => a.get (fun _ => 0)) h
  simp only [batched, applyBatch, sem, List.map, List.flatten, List.append] at h
  rw [get_multi _ _ _ (by simp), get_multi _ _ _ (by simp)] at h
  simp only [List.map, get_multi _ _ [fs f1, fs f1] (by simp)] at h
  revert h
  simp only [fs, Arr.scalar, vsum, fold1, List.foldl, Alg.f16, Alg.narrowed]
  decide

/-- float32 `prod`: `(0.1 · 0.1) · 7.7 ≠ 0.1 · (0.1 · 7.7)` -/
theorem c15_prod_f32_full_fails (sq : F64 → F64) (kw : Kw) : ¬ IsBatchable (sem Alg.f32 sq kw .prod) := by
  intro h
  have h := h 0 [[fs g01], [fs g01, fs g77]] (by simp) (by simp) (by simp [fs, Arr.scalar])
  have h := congrArg (fun a => a.get (fun _ => 0)) h
  simp only [batched, applyBatch, sem, List.map, List.flatten, List.append] at h
  rw [get_multi _ _ _ (by simp), get_multi _ _ _ (by simp)] at h
  simp only [List.map, get_multi _ _ [fs g01, fs g77] (by simp)] at h
  revert h
  simp only [fs, Arr.scalar, vprod, fold1, List.foldl, Alg.f32, Alg.narrowed]
  decide

/-- `min`, `max` (and `concat`) ARE batchable over float32 and float16, NaN and ±inf included: for every cut -/
theorem c15_minmax_narrow_batchable (sq : F64 → F64) (kw : Kw) :
    IsBatchable (sem Alg.f32 sq kw .min) ∧ IsBatchable (sem Alg.f32 sq kw .max) ∧
    IsBatchable (sem Alg.f16 sq kw .min) ∧ IsBatchable (sem Alg.f16 sq kw .max) ∧
    IsBatchable (sem Alg.f32 sq kw .concat) ∧ IsBatchable (sem Alg.f16 sq kw .concat) :=
  ⟨c15_min_batchable (Alg.narrowed F64.to32) sq kw, c15_max_batchable (Alg.narrowed F64.to32) sq kw,
   c15_min_batchable (Alg.narrowed F64.to16) sq kw, c15_max_batchable (Alg.narrowed F64.to16) sq kw,
   c15_concat_batchable _ sq kw, c15_concat_batchable _ sq kw⟩

/-- the result DTYPE obeys the batch law for every marked function and every one of NumPy's 14 numeric dtypes: reducing
results of the reduction gives the dtype of the one-step reduction (`sum` of uint8 is uint64 and stays uint64; `sum`
of float32 is float32 -- a backend that accumulated in float64 would answer float64 here, see `resDT`); and the two
float-valued reductions `mean` / `var` of integers are float64 -/
theorem c15_batched_dtype_stable :
    (∀ op ∈ [Op.sum, .prod, .min, .max, .concat], ∀ dt : DType, resDT op (resDT op dt false) false = resDT op dt false) ∧
    resDT .sum .f32 false = .f32 ∧ resDT .mean .f32 false = .f32 ∧ resDT .sum .u8 false = .u64 ∧
    resDT .sum .i8 false = .i64 ∧ resDT .mean .i16 false = .f64 ∧ resDT .var .c64 false = .f32 ∧
    resDT .add .f32 true = .f32 ∧ resDT .add .u16 true = .f64 := by
  refine ⟨?_, by decide⟩
  intro op hop dt
  simp only [List.mem_cons, List.not_mem_nil, or_false] at hop
  rcases hop with rfl | rfl | rfl | rfl | rfl <;> cases dt <;> decide

/-! ### NaN: a reduction over several arguments returns NaN wherever one of them holds NaN
(NumPy's behaviour; after `fix: … skipna=False` also the xarray backend's) -/

namespace Aux
theorem foldl_absorb {α : Type} (op : α → α → α) (n : α) (hl : ∀ x, op n x = n) (hr : ∀ x, op x n = n) :
    ∀ (xs : List α) (acc : α), (acc = n ∨ n ∈ xs) → xs.foldl op acc = n := by
  intro xs
  induction xs with
  | nil => intro acc h; simpa using h
  | cons y ys ih =>
    intro acc h
    simp only [List.foldl_cons]
    apply ih
    rcases h with h | h
    · left; rw [h, hl]
    · simp only [List.mem_cons] at h
      rcases h with h | h
      · left; rw [← h, hr]
      · right; exact h

theorem fold1_absorb {α : Type} (op : α → α → α) (n d : α) (hl : ∀ x, op n x = n) (hr : ∀ x, op x n = n)
    (xs : List α) (h : n ∈ xs) : fold1 op d xs = n := by
  cases xs with
  | nil => simp at h
  | cons y ys =>
    simp only [fold1]
    apply foldl_absorb op n hl hr
    simp only [List.mem_cons] at h
    rcases h with h | h
    · left; exact h.symm
    · right; exact h

theorem f64_add_nan_l (x : F64) : F64.add .nan x = .nan := by cases x <;> rfl
theorem f64_add_nan_r (x : F64) : F64.add x .nan = .nan := by cases x <;> rfl
theorem f64_mul_nan_l (x : F64) : F64.mul .nan x = .nan := by cases x <;> rfl
theorem f64_mul_nan_r (x : F64) : F64.mul x .nan = .nan := by cases x <;> rfl
theorem f64_min_nan_l (x : F64) : F64.fmin .nan x = .nan := by cases x <;> rfl
theorem f64_min_nan_r (x : F64) : F64.fmin x .nan = .nan := by cases x <;> rfl
theorem f64_max_nan_l (x : F64) : F64.fmax .nan x = .nan := by cases x <;> rfl
theorem f64_max_nan_r (x : F64) : F64.fmax x .nan = .nan := by cases x <;> rfl
theorem f64_div_nan_l (x : F64) : F64.div .nan x = .nan := by cases x <;> rfl
end Aux

/-- `sum`, `prod`, `min`, `max` and `mean` of ≥ 2 float64 arguments are NaN at every index at
which some argument is NaN (no `skipna`) -/
theorem c15_nan_propagates (sq : F64 → F64) (kw : Kw) (op : Op) (hop : op ∈ [Op.sum, .prod, .min, .max, .mean])
    (args : List (Arr F64)) (h : 2 ≤ args.length) (i : Idx) (hn : ∃ x ∈ args, x.get i = F64.nan) :
    (sem Alg.f64 sq kw op args).get i = F64.nan := by
  have hmem : F64.nan ∈ args.map (fun x => x.get i) := by
    obtain ⟨x, hx, hxi⟩ := hn
    exact List.mem_map.mpr ⟨x, hx, hxi⟩
  simp only [List.mem_cons, List.not_mem_nil, or_false] at hop
  rcases hop with rfl | rfl | rfl | rfl | rfl
  · show (multiArg _ _ _).get i = _
    rw [get_multi _ _ _ h]; exact fold1_absorb _ _ _ f64_add_nan_l f64_add_nan_r _ hmem
  · show (multiArg _ _ _).get i = _
    rw [get_multi _ _ _ h]; exact fold1_absorb _ _ _ f64_mul_nan_l f64_mul_nan_r _ hmem
  · show (multiArg _ _ _).get i = _
    rw [get_multi _ _ _ h]; exact fold1_absorb _ _ _ f64_min_nan_l f64_min_nan_r _ hmem
  · show (multiArg _ _ _).get i = _
    rw [get_multi _ _ _ h]; exact fold1_absorb _ _ _ f64_max_nan_l f64_max_nan_r _ hmem
  · show (multiArg _ _ _).get i = _
    rw [get_multi _ _ _ h]
    show F64.div (vsum Alg.f64 _) _ = _
    have : vsum Alg.f64 (args.map fun x => x.get i) = F64.nan := fold1_absorb _ _ _ f64_add_nan_l f64_add_nan_r _ hmem
    rw [this, f64_div_nan_l]

/-- … and so is the reduction of ONE float64 array over all its elements -/
theorem c15_nan_propagates_all (sq : F64 → F64) (x : Arr F64) (hn : F64.nan ∈ x.elems) (i : Idx) :
    (sem Alg.f64 sq {} .sum [x]).get i = F64.nan ∧ (sem Alg.f64 sq {} .max [x]).get i = F64.nan ∧
    (sem Alg.f64 sq {} .mean [x]).get i = F64.nan := by
  refine ⟨fold1_absorb _ _ _ f64_add_nan_l f64_add_nan_r _ hn, fold1_absorb _ _ _ f64_max_nan_l f64_max_nan_r _ hn, ?_⟩
  show F64.div (vsum Alg.f64 _) _ = _
  have : vsum Alg.f64 x.elems = F64.nan := fold1_absorb _ _ _ f64_add_nan_l f64_add_nan_r _ hn
  rw [this, f64_div_nan_l]

example : (sem Alg.f64 id {} .sum [Arr.vec [F64.one, .nan], Arr.vec [F64.one, F64.one]]).get (fun _ => 1) = F64.nan :=
  c15_nan_propagates id {} .sum (by simp) _ (by simp) _ ⟨_, List.mem_cons_self, by simp [Arr.vec]⟩

/-- the same for every narrow binary format (float32, float16): the rounding keeps NaN -/
theorem c15_nan_propagates_narrow (r : F64 → F64) (hr : r .nan = .nan) (sq : F64 → F64) (kw : Kw) (op : Op)
    (hop : op ∈ [Op.sum, .prod, .min, .max, .mean])
    (args : List (Arr F64)) (h : 2 ≤ args.length) (i : Idx) (hn : ∃ x ∈ args, x.get i = F64.nan) :
    (sem (Alg.narrowed r) sq kw op args).get i = F64.nan := by
  have hmem : F64.nan ∈ args.map (fun x => x.get i) := by
    obtain ⟨x, hx, hxi⟩ := hn
    exact List.mem_map.mpr ⟨x, hx, hxi⟩
  have al : ∀ x, (Alg.narrowed r).add .nan x = .nan := fun x => by
    show r (F64.add .nan x) = _; rw [f64_add_nan_l, hr]
  have ar : ∀ x, (Alg.narrowed r).add x .nan = .nan := fun x => by
    show r (F64.add x .nan) = _; rw [f64_add_nan_r, hr]
  have ml : ∀ x, (Alg.narrowed r).mul .nan x = .nan := fun x => by
    show r (F64.mul .nan x) = _; rw [f64_mul_nan_l, hr]
  have mr : ∀ x, (Alg.narrowed r).mul x .nan = .nan := fun x => by
    show r (F64.mul x .nan) = _; rw [f64_mul_nan_r, hr]
  simp only [List.mem_cons, List.not_mem_nil, or_false] at hop
  rcases hop with rfl | rfl | rfl | rfl | rfl
  · show (multiArg _ _ _).get i = _
    rw [get_multi _ _ _ h]; exact fold1_absorb _ _ _ al ar _ hmem
  · show (multiArg _ _ _).get i = _
    rw [get_multi _ _ _ h]; exact fold1_absorb _ _ _ ml mr _ hmem
  · show (multiArg _ _ _).get i = _
    rw [get_multi _ _ _ h]; exact fold1_absorb _ _ _ f64_min_nan_l f64_min_nan_r _ hmem
  · show (multiArg _ _ _).get i = _
    rw [get_multi _ _ _ h]; exact fold1_absorb _ _ _ f64_max_nan_l f64_max_nan_r _ hmem
  · show (multiArg _ _ _).get i = _
    rw [get_multi _ _ _ h]
    show r (F64.div (vsum (Alg.narrowed r) _) _) = _
    have : vsum (Alg.narrowed r) (args.map fun x => x.get i) = F64.nan := fold1_absorb _ _ _ al ar _ hmem
    rw [this, f64_div_nan_l, hr]

example : (sem Alg.f32 id {} .sum [Arr.vec [F64.one, .nan], Arr.vec [F64.one, F64.one]]).get (fun _ => 1) = F64.nan :=
  c15_nan_propagates_narrow F64.to32 rfl id {} .sum (by simp) _ (by simp) _ ⟨_, List.mem_cons_self, by simp [Arr.vec]⟩
example : F64.to16 .nan = .nan := rfl

/-! ### the literal reading of the law -/

section literal
variable {α : Type} [Inhabited α]

/-- `concat` satisfies the law exactly as the property text writes it: every batch (also a
single array, also one batch holding everything) goes through `concat` -/
theorem c15_concat_batchable_literal (A : Alg α) (sq : α → α) (kw : Kw) :
    IsBatchableLit (sem A sq kw .concat) := by
  intro r batches hbne hne hrank
  show concatKw kw.axis (batches.map (concatKw kw.axis)) = concatKw kw.axis batches.flatten
  have hmap : batches.map (concatKw kw.axis) = batches.map (concat (normAx (axisOne kw.axis) r)) := by
    apply List.map_congr_left
    intro b hb
    exact concatKw_uniform kw.axis r b (hne b hb) (hrank b hb)
  have hfne : batches.flatten ≠ [] := by
    match batches, hbne with
    | b :: rest, _ =>
      match b, hne b (by simp) with
      | x :: xs, _ => simp
  rw [hmap, concatKw_uniform kw.axis r _ (by simpa using hbne), concatKw_uniform kw.axis r _ hfne, concat_batches _ _ hne]
  · intro x hx
    simp only [List.mem_flatten] at hx
    obtain ⟨b, hb, hxb⟩ := hx
    exact hrank b hb x hxb
  · intro y hy
    simp only [List.mem_map] at hy
    obtain ⟨b, hb, rfl⟩ := hy
    exact concat_rank _ r b (hne b hb) (hrank b hb)

namespace Aux
theorem applyBatch_of_two {α : Type} (f : List (Arr α) → Arr α) (b : List (Arr α)) (h : 2 ≤ b.length) : applyBatch f b = f b := by
  match b, h with
  | x :: y :: r, _ => rfl

theorem lit_eq_batched {α : Type} (f : List (Arr α) → Arr α) (batches : List (List (Arr α))) (h : NoSingleton batches = true) :
    batchedLit f batches = batched f batches := by
  unfold batchedLit batched
  congr 1
  apply List.map_congr_left
  intro b hb
  simp only [NoSingleton, Bool.and_eq_true, List.all_eq_true, decide_eq_true_eq] at h
  exact (applyBatch_of_two f b (h.2 b hb)).symm
end Aux

omit [Inhabited α] in
/-- on the partitions without a single-array batch (≥ 2 batches, each of ≥ 2 arrays) the literal
law coincides with what `reduce` computes, hence holds for every batchable function -/
theorem c15_literal_partial (f : List (Arr α) → Arr α) (hf : IsBatchable f)
    (r : Nat) (batches : List (List (Arr α))) (hns : NoSingleton batches = true)
    (hrank : ∀ b ∈ batches, ∀ x ∈ b, x.rank = r) :
    batchedLit f batches = f batches.flatten := by
  rw [lit_eq_batched f batches hns]
  have h := hns
  simp only [NoSingleton, Bool.and_eq_true, List.all_eq_true, decide_eq_true_eq] at h
  apply hf r batches h.1 _ hrank
  intro b hb hnil
  have := h.2 b hb
  simp [hnil] at this

/-- the literal law is FALSE for the marked reductions, whatever the dtype: with no `axis` a
single array is reduced to a scalar, so `f(f(x), f(y))` has rank 0 where `f(x, y)` has the rank
of `x` (witness: two vectors in two singleton batches; replayed on the real code: known finding
C15-literal-singleton-batch) -/
theorem c15_literal_full_fails (A : Alg α) (sq : α → α) (a : Option Int) :
    let kw : Kw := { axis := match a with | none => .none | some a => .one a }
    ¬ IsBatchableLit (sem A sq kw .sum) ∧ ¬ IsBatchableLit (sem A sq kw .prod) ∧
    ¬ IsBatchableLit (sem A sq kw .min) ∧ ¬ IsBatchableLit (sem A sq kw .max) := by
  intro kw
  have key : ∀ f : List α → α, ¬ IsBatchableLit (multiArg f kw.axis) := by
    intro f h
    have h := h 1 [[Arr.vec [default, default]], [Arr.vec [default, default]]] (by simp) (by simp) (by simp [Arr.vec])
    have h := congrArg Arr.rank h
    cases a <;> simp [kw, batchedLit, multiArg, reduceKw, reduceAll, reduceAx, stack, Arr.vec] at h
  exact ⟨key _, key _, key _, key _⟩

end literal

/-! ### not batchable (concrete witnesses; rank-0 arrays suffice) -/

namespace Aux
def s (v : Rat) : Arr Rat := Arr.scalar v
end Aux

/-- `mean(mean(0,0), 3) = 3/2 ≠ 1 = mean(0,0,3)` (the last chunk of a `reduce` is shorter
whenever the batch size does not divide the size; it is passed through when it has length 1) -/
theorem c15_mean_not_batchable (sq : Rat → Rat) (kw : Kw) : ¬ IsBatchable (sem Alg.rat sq kw .mean) := by
  intro h
  have h := h 0 [[s 0, s 0], [s 3]] (by simp) (by simp) (by simp [s, Arr.scalar])
  have h := congrArg (fun a => a.get (fun _ => 0)) h
  simp [batched, applyBatch, sem, get_multi, s, Arr.scalar, vmean, vsum, fold1, Alg.rat] at h
  grind

/-- `var(var(0,2), var(0,2)) = var(1,1) = 0 ≠ 1 = var(0,2,0,2)` -/
theorem c15_var_not_batchable (sq : Rat → Rat) (kw : Kw) : ¬ IsBatchable (sem Alg.rat sq kw .var) := by
  intro h
  have h := h 0 [[s 0, s 2], [s 0, s 2]] (by simp) (by simp) (by simp [s, Arr.scalar])
  have h := congrArg (fun a => a.get (fun _ => 0)) h
  simp [batched, applyBatch, sem, get_multi, s, Arr.scalar, vvar, vmean, vsum, fold1, Alg.rat] at h
  grind

/-- `std(std(0,2), std(0,2)) = std(1,1) = 0 ≠ 1 = std(0,2,0,2)`, for every square-root function
that is right on 0 and 1 -/
theorem c15_std_not_batchable (sq : Rat → Rat) (h0 : sq 0 = 0) (h1 : sq 1 = 1) (kw : Kw) :
    ¬ IsBatchable (sem Alg.rat sq kw .std) := by
  intro h
  have h := h 0 [[s 0, s 2], [s 0, s 2]] (by simp) (by simp) (by simp [s, Arr.scalar])
  have h := congrArg (fun a => a.get (fun _ => 0)) h
  have e1 : vvar Alg.rat [0, 2] = 1 := by simp [vvar, vmean, vsum, fold1, Alg.rat]; grind
  have e2 : vvar Alg.rat [1, 1] = 0 := by simp [vvar, vmean, vsum, fold1, Alg.rat]; grind
  have e3 : vvar Alg.rat [0, 2, 0, 2] = 1 := by simp [vvar, vmean, vsum, fold1, Alg.rat]; grind
  simp [batched, applyBatch, sem, get_multi, s, Arr.scalar, vstd, e1, e2, e3, h0, h1] at h

/-- `stack(stack(a,b), stack(c,d))` has one axis more than `stack(a,b,c,d)` (any dtype) -/
theorem c15_stack_not_batchable {α : Type} [Inhabited α] (A : Alg α) (sq : α → α) (kw : Kw) :
    ¬ IsBatchable (sem A sq kw .stack) := by
  intro h
  have h := h 0 [[Arr.scalar default, Arr.scalar default], [Arr.scalar default, Arr.scalar default]]
    (by simp) (by simp) (by simp [Arr.scalar])
  have h := congrArg Arr.rank h
  simp [batched, applyBatch, sem, stackKw, stack, Arr.scalar] at h

/-- the same three refutations in binary64 (the witnesses are small integers: no rounding is
involved): `mean(mean(0,0),3) = 1.5 ≠ 1`, `var(var(0,2),var(0,2)) = 0 ≠ 1` -/
theorem c15_mean_var_not_batchable_f64 (sq : F64 → F64) (kw : Kw) :
    ¬ IsBatchable (sem Alg.f64 sq kw .mean) ∧ ¬ IsBatchable (sem Alg.f64 sq kw .var) := by
  constructor
  · intro h
    have h := h 0 [[fs (.fin 0), fs (.fin 0)], [fs (F64.ofInt 3)]] (by simp) (by simp) (by simp [fs, Arr.scalar])
    have h := congrArg (fun a => a.get (fun _ => 0)) h
    simp only [batched, applyBatch, sem, List.map, List.flatten, List.append] at h
    rw [get_multi _ _ _ (by simp), get_multi _ _ _ (by simp)] at h
    simp only [List.map, get_multi _ _ [fs (.fin 0), fs (.fin 0)] (by simp)] at h
    revert h
    simp only [fs, Arr.scalar, vmean, vsum, fold1, List.foldl, Alg.f64, List.length]
    decide
  · intro h
    have h := h 0 [[fs (.fin 0), fs (F64.ofInt 2)], [fs (.fin 0), fs (F64.ofInt 2)]] (by simp) (by simp) (by simp [fs, Arr.scalar])
    have h := congrArg (fun a => a.get (fun _ => 0)) h
    simp only [batched, applyBatch, sem, List.map, List.flatten, List.append] at h
    rw [get_multi _ _ _ (by simp), get_multi _ _ _ (by simp)] at h
    simp only [List.map, get_multi _ _ [fs (.fin 0), fs (F64.ofInt 2)] (by simp)] at h
    revert h
    simp only [fs, Arr.scalar, vvar, vmean, vsum, fold1, List.foldl, Alg.f64, List.length, List.map]
    decide

/-! ### the marks in the source (generated table) -/

/-- operations with a batchability theorem above -/
def provedBatchable : List Op := [.sum, .prod, .min, .max, .concat]
/-- operations with a refutation above -/
def refuted : List Op := [.mean, .std, .var, .stack]

namespace Aux
theorem proved_ok {α : Type} [Inhabited α] (A : Alg α) [Std.Associative A.add] [Std.Associative A.mul]
    [Std.Associative A.min] [Std.Associative A.max] (sq : α → α) (kw : Kw) :
    ∀ op ∈ provedBatchable, IsBatchable (sem A sq kw op) := by
  intro op hop
  simp only [provedBatchable, List.mem_cons, List.not_mem_nil, or_false] at hop
  rcases hop with rfl | rfl | rfl | rfl | rfl
  · exact c15_sum_batchable A sq kw
  · exact c15_prod_batchable A sq kw
  · exact c15_min_batchable A sq kw
  · exact c15_max_batchable A sq kw
  · exact c15_concat_batchable A sq kw

theorem refuted_ok (sq : Rat → Rat) (h0 : sq 0 = 0) (h1 : sq 1 = 1) (kw : Kw) :
    ∀ op ∈ refuted, ¬ IsBatchable (sem Alg.rat sq kw op) := by
  intro op hop
  simp only [refuted, List.mem_cons, List.not_mem_nil, or_false] at hop
  rcases hop with rfl | rfl | rfl | rfl
  · exact c15_mean_not_batchable sq kw
  · exact c15_std_not_batchable sq h0 h1 kw
  · exact c15_var_not_batchable sq kw
  · exact c15_stack_not_batchable Alg.rat sq kw

/-- side conditions of the generated table, decided on the table itself -/
theorem marked_are_proved : ∀ p ∈ Gen.marks, p.2 = true → p.1 ∈ provedBatchable := by decide
theorem refuted_are_unmarked : ∀ p ∈ Gen.marks, p.1 ∈ refuted → p.2 = false := by decide
end Aux

/-- every function the source marks `@batchable` is batchable, for every dtype whose `+`, `×`,
`min`, `max` are associative (exact rationals, wrapping integers, bool: instances in
Lemmas/Backend.lean) -/
theorem c15_marks_sound {α : Type} [Inhabited α] (A : Alg α) [Std.Associative A.add] [Std.Associative A.mul]
    [Std.Associative A.min] [Std.Associative A.max] (sq : α → α) (kw : Kw) :
    ∀ p ∈ Gen.marks, p.2 = true → IsBatchable (sem A sq kw p.1) :=
  fun p hp ht => proved_ok A sq kw p.1 (marked_are_proved p hp ht)

/-- … and satisfies the literal law on every partition without a single-array batch -/
theorem c15_marks_sound_literal_partial {α : Type} [Inhabited α] (A : Alg α) [Std.Associative A.add]
    [Std.Associative A.mul] [Std.Associative A.min] [Std.Associative A.max] (sq : α → α) (kw : Kw) :
    ∀ p ∈ Gen.marks, p.2 = true → ∀ (r : Nat) (batches : List (List (Arr α))), NoSingleton batches = true →
      (∀ b ∈ batches, ∀ x ∈ b, x.rank = r) → batchedLit (sem A sq kw p.1) batches = sem A sq kw p.1 batches.flatten :=
  fun p hp ht r batches hns hr => c15_literal_partial _ (c15_marks_sound A sq kw p hp ht) r batches hns hr

/-- the marks are NOT sound for float64 as the law is written: `sum` is marked and violates it -/
theorem c15_marks_sound_f64_full_fails (sq : F64 → F64) (kw : Kw) :
    ¬ ∀ p ∈ Gen.marks, p.2 = true → IsBatchable (sem Alg.f64 sq kw p.1) := by
  intro h
  exact c15_sum_dtype_full_fails sq kw (h (.sum, true) (by decide) rfl)

/-- … nor for float32, the dtype of most field data -/
theorem c15_marks_sound_f32_full_fails (sq : F64 → F64) (kw : Kw) :
    ¬ ∀ p ∈ Gen.marks, p.2 = true → IsBatchable (sem Alg.f32 sq kw p.1) := by
  intro h
  exact c15_sum_f32_full_fails sq kw (h (.sum, true) (by decide) rfl)

/-- no function that is provably not batchable (mean, std, var, stack) is marked -/
theorem c15_marks_complete_enough (sq : Rat → Rat) (h0 : sq 0 = 0) (h1 : sq 1 = 1) (kw : Kw) :
    ∀ p ∈ Gen.marks, p.1 ∈ refuted → p.2 = false ∧ ¬ IsBatchable (sem Alg.rat sq kw p.1) :=
  fun p hp hr => ⟨refuted_are_unmarked p hp hr, refuted_ok sq h0 h1 kw p.1 hr⟩

/-- for the nine variadic functions the mark is exactly right (exact arithmetic) -/
theorem c15_marks_exact_variadic (sq : Rat → Rat) (h0 : sq 0 = 0) (h1 : sq 1 = 1) (kw : Kw) :
    ∀ p ∈ Gen.marks, p.1.arity = none → (p.2 = true ↔ IsBatchable (sem Alg.rat sq kw p.1)) := by
  intro p hp har
  have hcases : p.1 ∈ provedBatchable ∨ p.1 ∈ refuted := by
    have : ∀ op : Op, op.arity = none → op ∈ provedBatchable ∨ op ∈ refuted := by
      intro op; cases op <;> decide
    exact this p.1 har
  rcases hcases with hb | hr
  · constructor
    · intro _; exact proved_ok Alg.rat sq kw p.1 hb
    · intro _
      have : ∀ p ∈ Gen.marks, p.1 ∈ provedBatchable → p.2 = true := by decide
      exact this p hp hb
  · constructor
    · intro ht; have := refuted_are_unmarked p hp hr; simp_all
    · intro hb; exact absurd hb (refuted_ok sq h0 h1 kw p.1 hr)

/-- the table lists every operation exactly once; the functions of fixed arity (`@num_args(2)`,
`take`) raise on a flattened argument list and carry no mark -/
theorem c15_marks_table_wellformed :
    (Gen.marks.map (·.1)).Perm Op.all ∧ ∀ p ∈ Gen.marks, p.1.arity ≠ none → p.2 = false := by
  decide

/-- non-vacuity of the table theorems: something is marked, something refuted is listed, and
the identity-on-{0,1} square root exists -/
example : (Op.sum, true) ∈ Gen.marks ∧ (Op.var, false) ∈ Gen.marks ∧ (Op.concat, true) ∈ Gen.marks := by decide
example : ∃ sq : Rat → Rat, sq 0 = 0 ∧ sq 1 = 1 := ⟨id, rfl, rfl⟩
example : ¬ IsBatchable (sem Alg.rat id {} .std) := c15_std_not_batchable id rfl rfl {}
example : NoSingleton [[Arr.vec [(1 : Rat)], Arr.vec [2]], [Arr.vec [3], Arr.vec [4]]] = true := by decide

end EkwVerif.Backend
