/-
C15 — 'batchable' functions really are batchable, and the marks in
src/earthkit/workflows/backends/__init__.py (table `Gen.marks`, regenerated from the source on
every run) are right.

`IsBatchable f` (Model/Backend.lean): for every rank, every cut of the arguments into ≥ 2
non-empty batches — a batch of one array is passed through, a longer one is reduced with `f`,
exactly as fluent `reduce` does — `f (reduced batches) = f (all arguments)`, as an equality of
arrays (rank, extents, every value).  Unbounded: any number of batches, any batch sizes, any
array shape.  The agreement of `sem` with the real back ends and with NumPy is the job of the
correspondence check (harness/ekw/props/c15.py).

`sq` is the square root used by `std`; theorems quantify over it (only `sq 0 = 0`, `sq 1 = 1`
is ever assumed, which the real square root satisfies).
-/
import EkwVerif.Model.Backend
import EkwVerif.Lemmas.Backend
import EkwVerif.Gen.BackendMarks

namespace EkwVerif.Backend

open Aux

/-! ### several arguments: the reduction acts elementwise across the arguments -/

/-- `f(a₁,…,aₖ)` for k ≥ 2 (stack on a new leading axis, reduce it) has the shape of the first
argument and, at every index, the scalar reduction of the arguments' values there; the caller's
`axis`/`dim` plays no role.  This is the pointwise lifting used by all batch theorems. -/
theorem c15_multiarg_pointwise (f : List Val → Val) (ax : Option Int) (args : List Arr)
    (h : 2 ≤ args.length) (i : Idx) :
    (multiArg f ax args).get i = f (args.map fun x => x.get i) ∧
    (multiArg f ax args).rank = (args.headD Arr.zero).rank ∧
    (multiArg f ax args).ext = (args.headD Arr.zero).ext := by
  rw [multiArg_ge2 f ax args h]; exact ⟨rfl, rfl, rfl⟩

example : (multiArg vsum (some 1) [Arr.vec [1, 2], Arr.vec [10, 20]]).get (fun _ => 1) = 22 := by
  rw [(c15_multiarg_pointwise vsum (some 1) _ (by simp) _).1]; simp [Arr.vec, vsum, fold1]; grind

/-! ### batchable -/

theorem c15_sum_batchable (sq : Val → Val) (kw : Kw) : IsBatchable (sem sq kw .sum) :=
  multiArg_batchable vsum (fun _ => rfl) vsum_batchable kw.axis

theorem c15_prod_batchable (sq : Val → Val) (kw : Kw) : IsBatchable (sem sq kw .prod) :=
  multiArg_batchable vprod (fun _ => rfl) vprod_batchable kw.axis

theorem c15_min_batchable (sq : Val → Val) (kw : Kw) : IsBatchable (sem sq kw .min) :=
  multiArg_batchable vmin (fun _ => rfl) vmin_batchable kw.axis

theorem c15_max_batchable (sq : Val → Val) (kw : Kw) : IsBatchable (sem sq kw .max) :=
  multiArg_batchable vmax (fun _ => rfl) vmax_batchable kw.axis

/-- concatenation along any (also negative) axis, for arguments of any extents along it -/
theorem c15_concat_batchable (sq : Val → Val) (kw : Kw) : IsBatchable (sem sq kw .concat) :=
  concatKw_batchable kw.axis

/-- non-vacuity: a cut 2+1+3 of six vectors satisfies the hypotheses, and the common value is
the one expected -/
example :
    let bs := [[Arr.vec [1, 2], Arr.vec [3, 4]], [Arr.vec [5, 6]], [Arr.vec [0, 1], Arr.vec [2, 2], Arr.vec [7, 7]]]
    batched (sem id {} .sum) bs = sem id {} .sum bs.flatten ∧
    batched (sem id {} .min) bs = sem id {} .min bs.flatten ∧
    batched (sem id {axis := some (-1)} .concat) bs = sem id {axis := some (-1)} .concat bs.flatten ∧
    (sem id {} .sum bs.flatten).get (fun _ => 1) = 22 := by
  intro bs
  have hr : ∀ b ∈ bs, ∀ x ∈ b, x.rank = 1 := by simp [bs, Arr.vec]
  refine ⟨c15_sum_batchable id {} 1 bs (by simp [bs]) (by simp [bs]) hr,
    c15_min_batchable id {} 1 bs (by simp [bs]) (by simp [bs]) hr,
    c15_concat_batchable id _ 1 bs (by simp [bs]) (by simp [bs]) hr, ?_⟩
  show (multiArg vsum none bs.flatten).get _ = _
  rw [(c15_multiarg_pointwise vsum none _ (by simp [bs]) _).1]
  simp [bs, Arr.vec, vsum, fold1]; grind

/-! ### not batchable (concrete witnesses; rank-0 arrays suffice) -/

namespace Aux
def s (v : Val) : Arr := Arr.scalar v

theorem get_multi (f : List Val → Val) (ax : Option Int) (args : List Arr) (h : 2 ≤ args.length) (i : Idx) :
    (multiArg f ax args).get i = f (args.map fun x => x.get i) := by rw [multiArg_ge2 f ax args h]
end Aux

/-- `mean(mean(0,0), 3) = 3/2 ≠ 1 = mean(0,0,3)` (the last chunk of a `reduce` is shorter
whenever the batch size does not divide the size; it is passed through when it has length 1) -/
theorem c15_mean_not_batchable (sq : Val → Val) (kw : Kw) : ¬ IsBatchable (sem sq kw .mean) := by
  intro h
  have h := h 0 [[s 0, s 0], [s 3]] (by simp) (by simp) (by simp [s, Arr.scalar])
  have h := congrArg (fun a => a.get (fun _ => 0)) h
  simp [batched, applyBatch, sem, get_multi, s, Arr.scalar, vmean, vsum, fold1] at h
  grind

/-- `var(var(0,2), var(0,2)) = var(1,1) = 0 ≠ 1 = var(0,2,0,2)` -/
theorem c15_var_not_batchable (sq : Val → Val) (kw : Kw) : ¬ IsBatchable (sem sq kw .var) := by
  intro h
  have h := h 0 [[s 0, s 2], [s 0, s 2]] (by simp) (by simp) (by simp [s, Arr.scalar])
  have h := congrArg (fun a => a.get (fun _ => 0)) h
  simp [batched, applyBatch, sem, get_multi, s, Arr.scalar, vvar, vmean, vsum, fold1] at h
  grind

/-- `std(std(0,2), std(0,2)) = std(1,1) = 0 ≠ 1 = std(0,2,0,2)`, for every square-root function
that is right on 0 and 1 -/
theorem c15_std_not_batchable (sq : Val → Val) (h0 : sq 0 = 0) (h1 : sq 1 = 1) (kw : Kw) :
    ¬ IsBatchable (sem sq kw .std) := by
  intro h
  have h := h 0 [[s 0, s 2], [s 0, s 2]] (by simp) (by simp) (by simp [s, Arr.scalar])
  have h := congrArg (fun a => a.get (fun _ => 0)) h
  have e1 : vvar [0, 2] = 1 := by simp [vvar, vmean, vsum, fold1]; grind
  have e2 : vvar [1, 1] = 0 := by simp [vvar, vmean, vsum, fold1]; grind
  have e3 : vvar [0, 2, 0, 2] = 1 := by simp [vvar, vmean, vsum, fold1]; grind
  simp [batched, applyBatch, sem, get_multi, s, Arr.scalar, vstd, e1, e2, e3, h0, h1] at h

/-- `stack(stack(a,b), stack(c,d))` has one axis more than `stack(a,b,c,d)` -/
theorem c15_stack_not_batchable (sq : Val → Val) (kw : Kw) : ¬ IsBatchable (sem sq kw .stack) := by
  intro h
  have h := h 0 [[s 0, s 0], [s 0, s 0]] (by simp) (by simp) (by simp [s, Arr.scalar])
  have h := congrArg Arr.rank h
  simp [batched, applyBatch, sem, stackKw, stack, s, Arr.scalar] at h

/-! ### the marks in the source (generated table) -/

/-- operations with a batchability theorem above -/
def provedBatchable : List Op := [.sum, .prod, .min, .max, .concat]
/-- operations with a refutation above -/
def refuted : List Op := [.mean, .std, .var, .stack]

namespace Aux
theorem proved_ok (sq : Val → Val) (kw : Kw) : ∀ op ∈ provedBatchable, IsBatchable (sem sq kw op) := by
  intro op hop
  simp only [provedBatchable, List.mem_cons, List.not_mem_nil, or_false] at hop
  rcases hop with rfl | rfl | rfl | rfl | rfl
  · exact c15_sum_batchable sq kw
  · exact c15_prod_batchable sq kw
  · exact c15_min_batchable sq kw
  · exact c15_max_batchable sq kw
  · exact c15_concat_batchable sq kw

theorem refuted_ok (sq : Val → Val) (h0 : sq 0 = 0) (h1 : sq 1 = 1) (kw : Kw) :
    ∀ op ∈ refuted, ¬ IsBatchable (sem sq kw op) := by
  intro op hop
  simp only [refuted, List.mem_cons, List.not_mem_nil, or_false] at hop
  rcases hop with rfl | rfl | rfl | rfl
  · exact c15_mean_not_batchable sq kw
  · exact c15_std_not_batchable sq h0 h1 kw
  · exact c15_var_not_batchable sq kw
  · exact c15_stack_not_batchable sq kw

/-- side conditions of the generated table, decided on the table itself -/
theorem marked_are_proved : ∀ p ∈ Gen.marks, p.2 = true → p.1 ∈ provedBatchable := by decide
theorem refuted_are_unmarked : ∀ p ∈ Gen.marks, p.1 ∈ refuted → p.2 = false := by decide
end Aux

/-- every function the source marks `@batchable` is batchable -/
theorem c15_marks_sound (sq : Val → Val) (kw : Kw) :
    ∀ p ∈ Gen.marks, p.2 = true → IsBatchable (sem sq kw p.1) :=
  fun p hp ht => proved_ok sq kw p.1 (marked_are_proved p hp ht)

/-- no function that is provably not batchable (mean, std, var, stack) is marked -/
theorem c15_marks_complete_enough (sq : Val → Val) (h0 : sq 0 = 0) (h1 : sq 1 = 1) (kw : Kw) :
    ∀ p ∈ Gen.marks, p.1 ∈ refuted → p.2 = false ∧ ¬ IsBatchable (sem sq kw p.1) :=
  fun p hp hr => ⟨refuted_are_unmarked p hp hr, refuted_ok sq h0 h1 kw p.1 hr⟩

/-- for the nine variadic functions the mark is exactly right -/
theorem c15_marks_exact_variadic (sq : Val → Val) (h0 : sq 0 = 0) (h1 : sq 1 = 1) (kw : Kw) :
    ∀ p ∈ Gen.marks, p.1.arity = none → (p.2 = true ↔ IsBatchable (sem sq kw p.1)) := by
  intro p hp har
  have hcases : p.1 ∈ provedBatchable ∨ p.1 ∈ refuted := by
    have : ∀ op : Op, op.arity = none → op ∈ provedBatchable ∨ op ∈ refuted := by
      intro op; cases op <;> decide
    exact this p.1 har
  rcases hcases with hb | hr
  · constructor
    · intro _; exact proved_ok sq kw p.1 hb
    · intro _
      have : ∀ p ∈ Gen.marks, p.1 ∈ provedBatchable → p.2 = true := by decide
      exact this p hp hb
  · constructor
    · intro ht; have := refuted_are_unmarked p hp hr; simp_all
    · intro hb; exact absurd hb (refuted_ok sq h0 h1 kw p.1 hr)

/-- the table lists every operation exactly once; the functions of fixed arity (`@num_args(2)`,
`take`) raise on a flattened argument list and carry no mark -/
theorem c15_marks_table_wellformed :
    (Gen.marks.map (·.1)).Perm Op.all ∧ ∀ p ∈ Gen.marks, p.1.arity ≠ none → p.2 = false := by
  decide

/-- non-vacuity of the table theorems: something is marked, something refuted is listed, and
the identity-on-{0,1} square root exists -/
example : (Op.sum, true) ∈ Gen.marks ∧ (Op.var, false) ∈ Gen.marks ∧ (Op.concat, true) ∈ Gen.marks := by decide
example : ∃ sq : Val → Val, sq 0 = 0 ∧ sq 1 = 1 := ⟨id, rfl, rfl⟩
example : ¬ IsBatchable (sem id {} .std) := c15_std_not_batchable id rfl rfl {}

end EkwVerif.Backend
