/-
C14 — fluent node names identify computations; operations leave operands intact.
Property theorems (`c14_*`) over Model/Names.lean; helper lemmas in `namespace Aux`.
-/
import EkwVerif.Model.Names
import Std.Data.String.ToNat

namespace EkwVerif.Names

/-! ### vocabulary -/

/-- a string whose Python `repr` is just the string between single quotes -/
def Plain (s : Str) : Prop := ∀ c ∈ s, c ≠ '\'' ∧ c ≠ '\\' ∧ c ≠ '\n' ∧ c ≠ '\t' ∧ c ≠ '\r'

/-- the rendering of the static part of a payload can be read back, whatever follows it
("statics with injective repr"; true of Python literals, assumed here) -/
def UniquelyDecodable {σ : Type} (R : σ → Str) : Prop :=
  ∀ (x y : σ) (s t : Str), R x ++ s = R y ++ t → x = y ∧ s = t

namespace Aux

theorem flatMap_escape_plain (s : Str) (h : Plain s) : s.flatMap (escapeChar '\'') = s := by
  induction s with
  | nil => rfl
  | cons c cs ih =>
    have hc := h c (by simp)
    have hcs : Plain cs := fun d hd => h d (by simp [hd])
    simp only [List.flatMap_cons, ih hcs]
    simp [escapeChar, hc.1, hc.2.1, hc.2.2.1, hc.2.2.2.1, hc.2.2.2.2]

theorem contains_quote_plain (s : Str) (h : Plain s) : s.contains '\'' = false := by
  cases hcon : s.contains '\'' with
  | false => rfl
  | true =>
    have : '\'' ∈ s := by simpa using hcon
    exact absurd rfl (h _ this).1

theorem reprStr_plain (s : Str) (h : Plain s) : reprStr s = '\'' :: s ++ ['\''] := by
  unfold reprStr
  rw [contains_quote_plain s h]
  simp [flatMap_escape_plain s h]

/-- splitting at the first occurrence of a character that occurs in neither prefix -/
theorem split_at_char (c : Char) : ∀ (l1 l2 r1 r2 : Str), c ∉ l1 → c ∉ l2 →
    l1 ++ c :: r1 = l2 ++ c :: r2 → l1 = l2 ∧ r1 = r2 := by
  intro l1
  induction l1 with
  | nil =>
    intro l2 r1 r2 _ h2 h
    cases l2 with
    | nil => simp at h; exact ⟨rfl, h⟩
    | cons d l2 =>
      simp at h
      exact absurd (by simp [h.1]) h2
  | cons a l1 ih =>
    intro l2 r1 r2 h1 h2 h
    cases l2 with
    | nil =>
      simp at h
      exact absurd (by simp [h.1]) h1
    | cons d l2 =>
      simp at h
      obtain ⟨had, hrest⟩ := h
      have := ih l2 r1 r2 (fun hm => h1 (by simp [hm])) (fun hm => h2 (by simp [hm])) hrest
      exact ⟨by rw [had, this.1], this.2⟩

/-- `repr` of a list of plain names, written as a recursion: `'x', 'y']` -/
def tailOf : List Str → Str
  | [] => [']']
  | x :: xs => [',', ' '] ++ ('\'' :: x ++ ['\'']) ++ tailOf xs

def bodyOf : List Str → Str
  | [] => [']']
  | x :: xs => ('\'' :: x ++ ['\'']) ++ tailOf xs

theorem intercalate_tail (x : Str) (xs : List Str) :
    intercalate [',', ' '] ((x :: xs).map (fun s => '\'' :: s ++ ['\''])) ++ [']'] = ('\'' :: x ++ ['\'']) ++ tailOf xs := by
  induction xs generalizing x with
  | nil => simp [intercalate, tailOf]
  | cons y ys ih =>
    simp only [List.map_cons, intercalate] at ih ⊢
    rw [List.append_assoc, List.append_assoc, ih y]
    simp [tailOf]

theorem reprNames_plain (names : List Str) (h : ∀ n ∈ names, Plain n) : reprNames names = '[' :: bodyOf names := by
  have hmap : names.map reprStr = names.map (fun s => '\'' :: s ++ ['\'']) := by
    apply List.map_congr_left
    intro n hn
    exact reprStr_plain n (h n hn)
  cases names with
  | nil => simp [reprNames, intercalate, bodyOf]
  | cons x xs =>
    simp only [reprNames, hmap, bodyOf]
    rw [List.cons_append, intercalate_tail]

theorem tailOf_inj : ∀ (xs ys : List Str) (u v : Str), (∀ n ∈ xs, Plain n) → (∀ n ∈ ys, Plain n) →
    tailOf xs ++ u = tailOf ys ++ v → xs = ys ∧ u = v := by
  intro xs
  induction xs with
  | nil =>
    intro ys u v _ _ h
    cases ys with
    | nil => simp [tailOf] at h; exact ⟨rfl, h⟩
    | cons y ys => simp [tailOf] at h
  | cons x xs ih =>
    intro ys u v hx hy h
    cases ys with
    | nil => simp [tailOf] at h
    | cons y ys =>
      simp only [tailOf, List.cons_append, List.nil_append, List.cons.injEq, true_and, List.append_assoc] at h
      have hxq : '\'' ∉ x := fun hm => (hx x (by simp) _ hm).1 rfl
      have hyq : '\'' ∉ y := fun hm => (hy y (by simp) _ hm).1 rfl
      obtain ⟨hxy, ht⟩ := split_at_char '\'' x y _ _ hxq hyq h
      obtain ⟨h1, h2⟩ := ih ys u v (fun n hn => hx n (by simp [hn])) (fun n hn => hy n (by simp [hn])) ht
      exact ⟨by rw [hxy, h1], h2⟩

theorem bodyOf_inj (xs ys : List Str) (u v : Str) (hx : ∀ n ∈ xs, Plain n) (hy : ∀ n ∈ ys, Plain n)
    (h : bodyOf xs ++ u = bodyOf ys ++ v) : xs = ys ∧ u = v := by
  cases xs with
  | nil =>
    cases ys with
    | nil => simp [bodyOf] at h; exact ⟨rfl, h⟩
    | cons y ys => simp [bodyOf] at h
  | cons x xs =>
    cases ys with
    | nil => simp [bodyOf] at h
    | cons y ys =>
      simp only [bodyOf, List.cons_append, List.cons.injEq, true_and, List.append_assoc] at h
      have hxq : '\'' ∉ x := fun hm => (hx x (by simp) _ hm).1 rfl
      have hyq : '\'' ∉ y := fun hm => (hy y (by simp) _ hm).1 rfl
      obtain ⟨hxy, ht⟩ := split_at_char '\'' x y _ _ hxq hyq h
      obtain ⟨h1, h2⟩ := tailOf_inj xs ys u v (fun n hn => hx n (by simp [hn])) (fun n hn => hy n (by simp [hn])) ht
      exact ⟨by rw [hxy, h1], h2⟩

/-- the rendering of the list of input names is injective on plain names (proved, not assumed) -/
theorem reprNames_inj (xs ys : List Str) (hx : ∀ n ∈ xs, Plain n) (hy : ∀ n ∈ ys, Plain n)
    (h : reprNames xs = reprNames ys) : xs = ys := by
  rw [reprNames_plain xs hx, reprNames_plain ys hy] at h
  exact (bodyOf_inj xs ys [] [] hx hy (by simpa using h)).1

/-- the rendering of the list of input names can be read back also when something follows it -/
theorem reprNames_append_inj (xs ys : List Str) (u v : Str) (hx : ∀ n ∈ xs, Plain n) (hy : ∀ n ∈ ys, Plain n)
    (h : reprNames xs ++ u = reprNames ys ++ v) : xs = ys ∧ u = v := by
  rw [reprNames_plain xs hx, reprNames_plain ys hy] at h
  simp only [List.cons_append, List.cons.injEq, true_and] at h
  exact bodyOf_inj xs ys u v hx hy h

/-- `|outputs=<n>` (nothing for n = 1) tells the number of outputs -/
theorem outSuffix_inj (m n : Nat) (h : outSuffix m = outSuffix n) : m = n := by
  unfold outSuffix at h
  by_cases hm : m = 1 <;> by_cases hn : n = 1
  · rw [hm, hn]
  · simp [hm, hn] at h
  · simp [hm, hn] at h
  · simp only [hm, hn, if_false] at h
    have h2 := List.append_cancel_left h
    have h3 : toString m = toString n := String.ext h2
    exact Nat.repr_injective h3

theorem reprAll_strs (names : List Str) : reprAll (names.map PyVal.str) = names.map reprStr := by
  induction names with
  | nil => rfl
  | cons n ns ih => simp [reprAll, PyVal.repr, ih]

theorem renderStatics_plain (names : List Str) (h : ∀ n ∈ names, Plain n) :
    renderStatics (names.map PyVal.str, []) = '[' :: bodyOf names ++ ['{', '}'] := by
  have := reprNames_plain names h
  simp only [reprNames] at this
  simp only [renderStatics, PyVal.repr, reprAll_strs, this, reprDict, List.map_nil, intercalate]
  simp

end Aux

open Aux

/-! ### C14 — names -/

/-- **Determinism** (of the model's naming function): a node's name is a function of (callable name, statics, input names,
number of outputs) alone — no counter, clock or object identity enters it; building the same computation again gives the
same name (and, inductively over the inputs, the same names throughout the graph). This is congruence: it holds for any `R`.
It says nothing about whether the REAL rendering of a static is a function of its value — for a set it is only because the
elements are sorted (`c14_set_order_free`, `c14_set_sort_needed` in Props/C14b: before the fix the name followed the
interpreter's hash seed), for an object with the default repr it is not (known finding). That part of "building the same
program twice gives the same names" is judged on the real code by rebuilding in fresh interpreters with another hash seed. -/
theorem c14_deterministic {σ : Type} (H : Str → Str) (R : σ → Str) (c1 c2 : Comp σ)
    (hf : c1.func.name = c2.func.name) (hs : c1.statics = c2.statics) (hi : c1.inputs = c2.inputs)
    (ho : c1.outputs = c2.outputs) :
    nodeName H R c1 = nodeName H R c2 := by
  simp [nodeName, render, hf, hs, hi, ho]

example : nodeName (fun s => s.reverse) renderStatics
      { func := { name := "sum".toList, ident := 1 }, statics := ([.str "input0".toList], []), inputs := ["a:1".toList] }
    = nodeName (fun s => s.reverse) renderStatics
      { func := { name := "sum".toList, ident := 2 }, statics := ([.str "input0".toList], []), inputs := ["a:1".toList] } :=
  c14_deterministic _ _ _ _ rfl rfl rfl rfl

/-- **Names identify computations — under the named hypotheses.** If the hash `H` is injective
(sha256 collision freedom — a hypothesis, never an axiom), the statics' rendering can be read back
for these two nodes (`hR`; implied by `UniquelyDecodable R`), the callables' names contain no `:` (identifiers, `<lambda>`) and distinguish the two
callables, and the input names are plain (no quote or backslash: true of `<name>:<hex>` names),
then equal node names ⇒ the same callable, the same statics, the same inputs and the same number of outputs
(the hashed string ends in `|outputs=<n>` unless n = 1 — fix commit). Hence a union
of actions de-duplicates only equal computations and lowering by name is unambiguous. -/
theorem c14_injective_partial {σ : Type} (H : Str → Str) (hH : Function.Injective H)
    (R : σ → Str) (c1 c2 : Comp σ)
    (hR : ∀ s t : Str, R c1.statics ++ s = R c2.statics ++ t → c1.statics = c2.statics ∧ s = t)
    (hc1 : ':' ∉ c1.func.name) (hc2 : ':' ∉ c2.func.name)
    (hname : c1.func.name = c2.func.name → c1.func = c2.func)
    (hp1 : ∀ n ∈ c1.inputs, Plain n) (hp2 : ∀ n ∈ c2.inputs, Plain n)
    (h : nodeName H R c1 = nodeName H R c2) :
    c1.func = c2.func ∧ c1.statics = c2.statics ∧ c1.inputs = c2.inputs ∧ c1.outputs = c2.outputs := by
  simp only [nodeName] at h
  obtain ⟨hn, hh⟩ := split_at_char ':' _ _ _ _ hc1 hc2 h
  have hfunc := hname hn
  have hr : render R c1 = render R c2 := hH hh
  simp only [render, hn, List.append_assoc] at hr
  have hr' := List.append_cancel_left hr
  obtain ⟨hs, hi⟩ := hR _ _ hr'
  obtain ⟨hin, hout⟩ := reprNames_append_inj _ _ _ _ hp1 hp2 hi
  exact ⟨hfunc, hs, hin, outSuffix_inj _ _ hout⟩

/-- non-vacuity: the hypotheses are jointly satisfiable — `H = id` is injective, a statics type with
one value is uniquely decodable, and the theorem then separates two nodes with different inputs -/
example :
    let c1 : Comp Unit := { func := { name := "sum".toList, ident := 1 }, statics := (), inputs := ["a:1f".toList] }
    let c2 : Comp Unit := { func := { name := "sum".toList, ident := 1 }, statics := (), inputs := ["b:2e".toList] }
    nodeName id (fun _ => []) c1 ≠ nodeName id (fun _ => []) c2 := by
  intro c1 c2 h
  have hR : UniquelyDecodable (fun (_ : Unit) => ([] : Str)) := by
    intro x y s t hst; exact ⟨rfl, by simpa using hst⟩
  have hplain : ∀ (w : Str), (w = "a:1f".toList ∨ w = "b:2e".toList) → Plain w := by
    intro w hw c hc
    rcases hw with hw | hw <;> subst hw <;> simp at hc <;> rcases hc with h | h | h | h <;> subst h <;> decide
  have := c14_injective_partial id (fun _ _ h => h) _ c1 c2 (hR _ _) (by decide) (by decide) (fun _ => rfl)
    (by intro n hn; exact hplain n (Or.inl (by simpa [c1] using hn)))
    (by intro n hn; exact hplain n (Or.inr (by simpa [c2] using hn))) h
  exact absurd this.2.2.1 (by decide)


/-- the static part of a payload that only names its inputs (every `reduce`/`map` node built from
a bare callable: args = `['input0', …]`, no kwargs) -/
def PlainArgs (s : Statics) : Prop := ∃ names : List Str, s = (names.map PyVal.str, []) ∧ ∀ n ∈ names, Plain n

/-- **…and for payloads that only name their inputs nothing about `repr` is assumed**: the
concrete Python rendering `"['input0', 'input1']{}"` is proved to be readable back, so for such
nodes equal names ⇒ equal (callable, statics, inputs) under the hash and `__name__` hypotheses only. -/
theorem c14_injective_plain_partial (H : Str → Str) (hH : Function.Injective H) (c1 c2 : Comp Statics)
    (ha1 : PlainArgs c1.statics) (ha2 : PlainArgs c2.statics)
    (hc1 : ':' ∉ c1.func.name) (hc2 : ':' ∉ c2.func.name)
    (hname : c1.func.name = c2.func.name → c1.func = c2.func)
    (hp1 : ∀ n ∈ c1.inputs, Plain n) (hp2 : ∀ n ∈ c2.inputs, Plain n)
    (h : nodeName H renderStatics c1 = nodeName H renderStatics c2) :
    c1.func = c2.func ∧ c1.statics = c2.statics ∧ c1.inputs = c2.inputs ∧ c1.outputs = c2.outputs := by
  apply c14_injective_partial H hH renderStatics c1 c2 ?_ hc1 hc2 hname hp1 hp2 h
  intro s t hst
  obtain ⟨n1, e1, p1⟩ := ha1
  obtain ⟨n2, e2, p2⟩ := ha2
  rw [e1, e2, renderStatics_plain n1 p1, renderStatics_plain n2 p2] at hst
  simp only [List.cons_append, List.cons.injEq, true_and, List.append_assoc] at hst
  obtain ⟨hn, hs⟩ := bodyOf_inj n1 n2 _ _ p1 p2 hst
  refine ⟨by rw [e1, e2, hn], ?_⟩
  simpa using hs

example : PlainArgs ([.str "input0".toList, .str "input1".toList], []) := by
  refine ⟨["input0".toList, "input1".toList], rfl, ?_⟩
  intro n hn c hc
  simp at hn
  rcases hn with hn | hn <;> subst hn <;> simp at hc <;> rcases hc with h | h | h | h | h | h <;> subst h <;> decide

/-- **The full statement is false**: without "callables are distinguished by `__name__`" two
different callables (two lambdas; two functions both called `f`) with the same statics over the
same inputs get the same name — whatever `H` and `R` are. -/
theorem c14_full_fails {σ : Type} [Inhabited σ] (H : Str → Str) (R : σ → Str) :
    ¬ (∀ c1 c2 : Comp σ, nodeName H R c1 = nodeName H R c2 → c1.func = c2.func) := by
  intro hall
  have := hall { func := { name := "<lambda>".toList, ident := 0 }, statics := default, inputs := [] }
               { func := { name := "<lambda>".toList, ident := 1 }, statics := default, inputs := [] } rfl
  simp at this

/-! ### C14 — operands stay intact -/

/-- A fact about the append-only VALUE store `step` (true by construction: `step` appends the result or returns the store):
every array that was in the store is still there, at most one is added. It does NOT carry the clause "operations leave
operands intact" — a store that cannot be written cannot express the pinned defects. The clause is carried by the heap
model, which writes where the code writes: `c14_transform_intact`, `c14_history_intact` (transform / combine / select) and, for
binary operations, `c14_join_intact`, `c14_arith_intact`, `c14_binary_history_intact`, `c14_join_local_needed` (Props/C14b),
and by the snapshots of the tie. Kept because `c14_join_is_hstep` relates `step`'s operations to the heap model. -/
theorem c14_operands_intact (st : List Fluent.NodeArray) (op : FOp) :
    (∀ k, k < st.length → (step st op)[k]? = st[k]?) ∧
    st.length ≤ (step st op).length ∧ (step st op).length ≤ st.length + 1 := by
  unfold step
  split
  · refine ⟨?_, by simp, by simp⟩
    intro k hk
    simp [List.getElem?_append_left hk]
  · exact ⟨fun _ _ => rfl, Nat.le_refl _, by omega⟩

example : (step [Fluent.fromSource [("d0", [.int 0])] 0, Fluent.fromSource [("d0", [.int 5])] 1]
    (.join 0 1 (.name "w") true)).length = 3 := by decide

/-! ### C14 — no operation changes an existing action (heap level, `Action.transform` included) -/

/-- `h` extends `h0` without changing any of its cells -/
def Keeps (h0 h : Heap) : Prop := h0.length ≤ h.length ∧ ∀ k, k < h0.length → h[k]? = h0[k]?

namespace Aux

theorem keeps_refl (h : Heap) : Keeps h h := ⟨Nat.le_refl _, fun _ _ => rfl⟩

theorem keeps_trans {h0 h1 h2 : Heap} (a : Keeps h0 h1) (b : Keeps h1 h2) : Keeps h0 h2 :=
  ⟨Nat.le_trans a.1 b.1, fun k hk => by rw [b.2 k (Nat.lt_of_lt_of_le hk a.1), a.2 k hk]⟩

theorem keeps_append {h0 h : Heap} (l : Heap) (a : Keeps h0 h) : Keeps h0 (h ++ l) := by
  refine ⟨by simp; have := a.1; omega, fun k hk => ?_⟩
  rw [List.getElem?_append_left (Nat.lt_of_lt_of_le hk a.1)]
  exact a.2 k hk

/-- a write to a cell that did not exist in `h0` -/
theorem keeps_set {h0 h : Heap} (r : Nat) (x : Fluent.NodeArray) (a : Keeps h0 h) (hr : h0.length ≤ r) :
    Keeps h0 (h.set r x) := by
  refine ⟨by simp; exact a.1, fun k hk => ?_⟩
  rw [List.getElem?_set_ne (by omega)]
  exact a.2 k hk

theorem callFunc_keeps {P : Type} {h0 h h1 : Heap} {a r : Nat} {f : TFunc P} {p : P}
    (k : Keeps h0 h) (e : callFunc h a f p = .ok (h1, r)) : Keeps h0 h1 := by
  cases f with
  | build g =>
    simp only [callFunc] at e
    split at e
    · injection e with e; injection e with e1 e2; subst e1; exact keeps_append _ k
    · cases e
  | self => simp only [callFunc] at e; injection e with e; injection e with e1 e2; subst e1; exact k
  | lookup t =>
    simp only [callFunc] at e
    split at e
    · injection e with e; injection e with e1 e2; subst e1; exact k
    · cases e

theorem addDimAt_keeps {h0 h h' : Heap} {r : Nat} {d : String} {vs : List Fluent.Coord} {i ax : Nat}
    (k : Keeps h0 h) (hr : h0.length ≤ r) (e : addDimAt h r d vs i ax = .ok h') :
    Keeps h0 h' ∧ h'.length = h.length := by
  unfold addDimAt at e
  split at e
  · injection e with e; subst e; exact ⟨k, rfl⟩
  · split at e
    · cases e
    · split at e
      · injection e with e; subst e; exact ⟨keeps_set _ _ k hr, by simp⟩
      · cases e

theorem squeezeAt_keeps {h0 h h' : Heap} {r : Nat} {d : String}
    (k : Keeps h0 h) (hr : h0.length ≤ r) (e : squeezeAt h r d = .ok h') :
    Keeps h0 h' ∧ h'.length = h.length := by
  unfold squeezeAt at e
  split at e
  · injection e with e; subst e; exact ⟨keeps_set _ _ k hr, by simp⟩
  · cases e

theorem accumulate_keeps {h0 h h' : Heap} {res : Option Nat} {r r' : Nat} {d : String}
    (k : Keeps h0 h) (hr : h0.length ≤ r ∧ r < h.length) (e : accumulate h res r d = .ok (h', r')) :
    Keeps h0 h' ∧ h0.length ≤ r' ∧ r' < h'.length := by
  unfold accumulate at e
  split at e
  · injection e with e; injection e with e1 e2; subst e1; subst e2; exact ⟨k, hr⟩
  · split at e
    · injection e with e; injection e with e1 e2; subst e1; subst e2
      exact ⟨keeps_append _ k, k.1, by simp⟩
    · cases e

/-- one iteration of the loop as the code is (`Rewrap.always`): every write goes to a cell created in
this iteration -/
theorem transformIter_keeps {P : Type} {h0 h h' : Heap} {f : TFunc P} {d : String} {vs : List Fluent.Coord}
    {ax a i r : Nat} {p : P} {res : Option Nat} (k : Keeps h0 h)
    (e : transformIter .always f d vs ax a h p i res = .ok (h', r)) :
    Keeps h0 h' ∧ h0.length ≤ r ∧ r < h'.length := by
  unfold transformIter at e
  split at e
  · cases e
  · rename_i h1 r1 hc
    have k1 := callFunc_keeps k hc
    simp only [rewrap, Rewrap.applies, if_true] at e
    split at e
    · cases e
    · rename_i h3 ha
      have k2 : Keeps h0 (h1 ++ [h1.cell r1]) := keeps_append _ k1
      obtain ⟨k3, hl⟩ := addDimAt_keeps k2 k1.1 ha
      exact accumulate_keeps k3 ⟨k1.1, by rw [hl]; simp⟩ e

theorem transformLoopH_keeps {P : Type} {h0 : Heap} {f : TFunc P} {d : String} {vs : List Fluent.Coord} {ax a : Nat} :
    ∀ (ps : List P) (h h' : Heap) (i : Nat) (res res' : Option Nat), Keeps h0 h →
      (∀ r, res = some r → h0.length ≤ r ∧ r < h.length) →
      transformLoopH .always f d vs ax a h ps i res = .ok (h', res') →
      Keeps h0 h' ∧ ∀ r, res' = some r → h0.length ≤ r ∧ r < h'.length := by
  intro ps
  induction ps with
  | nil =>
    intro h h' i res res' k hres e
    simp only [transformLoopH] at e
    injection e with e; injection e with e1 e2; subst e1; subst e2
    exact ⟨k, hres⟩
  | cons p ps ih =>
    intro h h' i res res' k hres e
    simp only [transformLoopH] at e
    split at e
    · cases e
    · rename_i h1 r1 hi
      obtain ⟨k1, hr1⟩ := transformIter_keeps k hi
      exact ih h1 h' (i + 1) (some r1) res' k1 (fun r hr => by injection hr with hr; subst hr; exact hr1) e

end Aux

open Aux in
/-- **`transform` never changes an existing action** — whatever `func` hands back (a new action, the
receiver, or ANY action built before, e.g. a look-up in a table of products), for every heap, receiver,
parameter list, dimension and axis: after `a.transform(func, params, dim, axis)` every action object that
existed before holds the node array (dimensions, coordinates, nodes) it held before, and the result is
a new object. The in-place `_add_dimension` / `_squeeze_dimension` only ever hit objects created inside
the call. -/
theorem c14_transform_intact {P : Type} (h : Heap) (a : Nat) (f : TFunc P) (params : List P)
    (dim : Fluent.DimArg) (axis : Nat) (h' : Heap) (r : Nat)
    (e : transformH .always h a f params dim axis = .ok (h', r)) :
    (∀ k, k < h.length → h'[k]? = h[k]?) ∧ h.length ≤ r ∧ r < h'.length := by
  unfold transformH at e
  split at e
  · cases e
  · cases e
  · rename_i h1 r1 hl
    obtain ⟨k1, hr⟩ := transformLoopH_keeps params h h1 0 none (some r1) (keeps_refl h) (by intro r hr; cases hr) hl
    obtain ⟨hr1, hr2⟩ := hr r1 rfl
    split at e
    · rename_i h2 hs
      injection e with e; injection e with e1 e2; subst e1; subst e2
      obtain ⟨k2, hl2⟩ := squeezeAt_keeps k1 hr1 hs
      exact ⟨k2.2, hr1, by rw [hl2]; exact hr2⟩
    · cases e

/-- non-vacuity: a look-up that hands back the existing action 1 twice succeeds, leaves cells 0 and 1
as they were and puts the result (dims `t, d0`) into a new cell -/
example :
    let h : Heap := [Fluent.fromSource [("d0", [.int 0, .int 10])] 0, Fluent.fromSource [("d0", [.int 0, .int 10])] 2]
    (match transformH .always h 0 (.lookup (fun (_ : Nat) => 1)) [0, 1] (.name "t") 0 with
     | .ok (h', r) => (h'.map (·.dimNames), r)
     | .error _ => ([], 0)) = ([["d0"], ["d0"], ["t", "d0"], ["t", "d0"], ["t", "d0"]], 4) := by decide

namespace Aux

theorem combineH_keeps {h h' : Heap} {m : String} {kw : List (String × Fluent.Static)} {a r b : Nat} {d : String} {keep : Bool}
    (e : combineH h m kw a d b keep = .ok (h', r)) : Keeps h h' := by
  unfold combineH at e
  split at e
  · cases e
  · split at e
    · split at e
      · injection e with e; injection e with e1 e2; subst e1; exact keeps_refl h
      · split at e
        · rename_i h2 hs
          injection e with e; injection e with e1 e2; subst e1
          exact (squeezeAt_keeps (keeps_append [h.cell a] (keeps_refl h)) (Nat.le_refl _) hs).1
        · cases e
    · split at e
      · injection e with e; injection e with e1 e2; subst e1; exact keeps_append _ (keeps_refl h)
      · cases e

theorem selectH_keeps {h h' : Heap} {a r : Nat} {crit : Option (String × Fluent.Sel Fluent.Coord)} {drop : Bool}
    (e : selectH h a crit drop = .ok (h', r)) : Keeps h h' := by
  unfold selectH at e
  split at e
  · injection e with e; injection e with e1 e2; subst e1; exact keeps_refl h
  · split at e
    · split at e
      · injection e with e; injection e with e1 e2; subst e1; exact keeps_refl h
      · cases e
    · split at e
      · injection e with e; injection e with e1 e2; subst e1; exact keeps_append _ (keeps_refl h)
      · cases e

end Aux

open Aux in
/-- **…as an invariant over every history**: for every program — any sequence of select (also when it hands back the
action itself), stack/concatenate (also on a dimension of size 1, where the operand is squeezed on a copy or handed back),
transforms with any `func`, and `.op` statements — and every initial heap, every action object that existed at some point
still holds the same node array at the end.
What has content here: the `transform`, `combine` and `select` cases (`transformH`, `combineH`, `selectH` write cells). An
`.op` statement (join, broadcast, arithmetic between actions, reduce) is `h ++ [r]` BY DEFINITION of `hstepR`, so its case is
`keeps_append` and cannot fail; that `join` / arithmetic statements really are append-only is the subject of
`c14_join_is_hstep`, `c14_join_intact`, `c14_arith_intact`, `c14_binary_history_intact` and `c14_join_local_needed`
(Props/C14b: `joinH` names the assignment of `join` and where it stores); `broadcast` and `reduce` have no assignment to an
existing `.nodes` in the code and are covered by the snapshots of the tie only. -/
theorem c14_history_intact {P : Type} (ops : List (HOp P)) (h : Heap) :
    h.length ≤ (hrun .always h ops).length ∧ ∀ k, k < h.length → (hrun .always h ops)[k]? = h[k]? := by
  induction ops generalizing h with
  | nil => exact keeps_refl h
  | cons o os ih =>
    have k1 : Keeps h (hstep .always h o) := by
      cases o with
      | op o =>
        simp only [hstep, hstepR]
        split
        · exact keeps_append _ (keeps_refl h)
        · exact keeps_refl h
      | transform a f ps dim axis =>
        simp only [hstep, hstepR]
        split
        · rename_i h' r e
          have := c14_transform_intact h a f ps dim axis h' r e
          exact ⟨by show h.length ≤ h'.length; omega, this.1⟩
        · exact keeps_refl h
      | combine m kw a d b keep =>
        simp only [hstep, hstepR]
        split
        · rename_i h' r e; exact combineH_keeps e
        · exact keeps_refl h
      | select a crit drop =>
        simp only [hstep, hstepR]
        split
        · rename_i h' r e; exact selectH_keeps e
        · exact keeps_refl h
    exact keeps_trans k1 (ih (hstep .always h o))

/-- **Which results are existing objects**: the result of a statement is an object that existed before only for
`select` and for stack/concatenate with `keep_dim` (the documented hand-backs: empty criteria, a dimension of
size 1); every other statement — `transform` in particular, whatever its `func` hands back — yields a new object,
so no later in-place step on a result can reach an operand through it. -/
theorem c14_result_fresh {P : Type} (h : Heap) (o : HOp P) (r : Nat) (e : (hstepR .always h o).2 = some r)
    (hlt : r < h.length) :
    (∃ a crit drop, o = .select a crit drop) ∨ (∃ m kw a d b, o = .combine m kw a d b true) := by
  cases o with
  | op o =>
    simp only [hstepR] at e
    split at e
    · injection e with e; subst e; exact absurd hlt (Nat.lt_irrefl _)
    · cases e
  | transform a f ps dim axis =>
    simp only [hstepR] at e
    split at e
    · rename_i h' r' he
      injection e with e; subst e
      exact absurd (c14_transform_intact h a f ps dim axis h' r' he).2.1 (by omega)
    · cases e
  | combine m kw a d b keep =>
    cases keep with
    | true => exact Or.inr ⟨m, kw, a, d, b, rfl⟩
    | false =>
      simp only [hstepR] at e
      split at e
      · rename_i h' r' he
        injection e with e; subst e
        unfold combineH at he
        split at he
        · cases he
        · split at he
          · simp only [Bool.false_eq_true, if_false] at he
            split at he
            · injection he with he; injection he with e1 e2; subst e2; exact absurd hlt (Nat.lt_irrefl _)
            · cases he
          · split at he
            · injection he with he; injection he with e1 e2; subst e2; exact absurd hlt (Nat.lt_irrefl _)
            · cases he
      · cases e
  | select a crit drop => exact Or.inl ⟨a, crit, drop, rfl⟩

/-- non-vacuity: `select` without criteria and `stack` with keep_dim on a size-1 dimension hand back object 0;
`stack` without keep_dim makes a new object and leaves object 0 as it was -/
example :
    let h : Heap := [Fluent.fromSource [("d0", [.int 7]), ("d1", [.int 0, .int 10])] 0]
    ((hstepR (P := Nat) .always h (.select 0 none false)).2, (hstepR (P := Nat) .always h (.combine "stack" [] 0 "d0" 0 true)).2,
     (hstepR (P := Nat) .always h (.combine "stack" [] 0 "d0" 0 false)).2,
     ((hstepR (P := Nat) .always h (.combine "stack" [] 0 "d0" 0 false)).1.map (·.dimNames)))
      = (some 0, some 0, some 1, [["d0", "d1"], ["d1"]]) := by decide

example : ((hrun .always [Fluent.fromSource [("d0", [.int 0])] 0, Fluent.fromSource [("d0", [.int 5])] 1]
    [HOp.op (.join 0 1 (.name "w") true), HOp.transform 0 (.lookup (fun (_ : Nat) => 2)) [0] (.name "t") 0]).map (·.dimNames))
    = [["d0"], ["d0"], ["w", "d0"], ["w", "d0"]] := by decide

/-- **The re-wrap is necessary, and for every result, not only for the receiver**: if `transform` wraps
`func`'s result in a new object only when it `is self` (or never), a `func` that looks up an existing
action makes `transform` add the join dimension to that action itself. -/
theorem c14_rewrap_needed :
    (∃ (h : Heap) (op : HOp Nat) (k : Nat), k < h.length ∧
      ((hstep .ifSelf h op)[k]?.map (·.dimNames)) ≠ (h[k]?.map (·.dimNames))) ∧
    (∃ (h : Heap) (op : HOp Nat) (k : Nat), k < h.length ∧
      ((hstep .never h op)[k]?.map (·.dimNames)) ≠ (h[k]?.map (·.dimNames))) := by
  refine ⟨⟨[Fluent.fromSource [("d0", [.int 0, .int 10])] 0, Fluent.fromSource [("d0", [.int 0, .int 10])] 2],
            .transform 0 (.lookup (fun _ => 1)) [0, 1] (.name "t") 0, 1, by decide, by decide⟩,
          ⟨[Fluent.fromSource [("d0", [.int 0, .int 10])] 0],
            .transform 0 .self [0, 1] (.name "t") 0, 0, by decide, by decide⟩⟩

/-! ### C14 — the heap model agrees with the value model of C13 -/

open EkwVerif.Fluent

namespace Aux

/-- the step of the value-level loop written with matches -/
def stepV {P : Type} (f : NodeArray → P → Except Err NodeArray) (d : String) (vs : List Coord) (ax : Nat)
    (a : NodeArray) (p : P) (i : Nat) (res : Option NodeArray) : Except Err NodeArray :=
  match f a p with
  | .error e => .error e
  | .ok r =>
    match (if r.hasCoord d then (.ok r : Except Err NodeArray) else
            match vs[i]? with
            | none => .error .index
            | some v => addDim r d v ax) with
    | .error e => .error e
    | .ok r' =>
      match res with
      | none => .ok r'
      | some acc => join acc r' (.name d) false

theorem transformLoop_cons {P : Type} (f : NodeArray → P → Except Err NodeArray) (d : String) (vs : List Coord) (ax : Nat)
    (a : NodeArray) (p : P) (ps : List P) (i : Nat) (res : Option NodeArray) :
    transformLoop f d vs ax a (p :: ps) i res =
      match stepV f d vs ax a p i res with
      | .error e => .error e
      | .ok r => transformLoop f d vs ax a ps (i + 1) (some r) := by
  simp only [transformLoop, stepV, bind, Except.bind, pure, Except.pure]
  cases f a p with
  | error e => rfl
  | ok r =>
    dsimp only
    by_cases hc : r.hasCoord d
    · simp only [hc, if_true]
      cases res with
      | none => rfl
      | some acc => dsimp only; cases join acc r (.name d) false <;> rfl
    · simp only [hc, Bool.false_eq_true, ↓reduceIte]
      cases vs[i]? with
      | none => rfl
      | some v =>
        dsimp only
        cases addDim r d v ax with
        | error e => rfl
        | ok r' =>
          cases res with
          | none => rfl
          | some acc => dsimp only; cases join acc r' (.name d) false <;> rfl


theorem cell_eq_of_keeps {h0 h : Heap} (k : Keeps h0 h) {i : Nat} (hi : i < h0.length) : h.cell i = h0.cell i := by
  simp only [Heap.cell, List.getD_eq_getElem?_getD, k.2 i hi]

theorem cell_append_left (h l : Heap) {i : Nat} (hi : i < h.length) : (h ++ l).cell i = h.cell i := by
  simp only [Heap.cell, List.getD_eq_getElem?_getD, List.getElem?_append_left hi]

theorem cell_append_length (h : Heap) (x : NodeArray) (l : Heap) : (h ++ x :: l).cell h.length = x := by
  simp [Heap.cell, List.getD_eq_getElem?_getD]

theorem cell_set_eq (h : Heap) {r : Nat} (x : NodeArray) (hr : r < h.length) : Heap.cell (h.set r x) r = x := by
  simp [Heap.cell, List.getD_eq_getElem?_getD, hr]

theorem cell_set_ne (h : Heap) {r i : Nat} (x : NodeArray) (hr : r ≠ i) : Heap.cell (h.set r x) i = h.cell i := by
  simp [Heap.cell, List.getD_eq_getElem?_getD, List.getElem?_set_ne hr]

/-- one iteration with a func that builds a new action: the heap step computes the value-level step, in a
new cell, and keeps every cell -/
theorem transformIter_build {P : Type} {h h' : Heap} {f : NodeArray → P → Except Err NodeArray} {d : String}
    {vs : List Coord} {ax a i r : Nat} {p : P} {res : Option Nat}
    (hres : ∀ acc, res = some acc → acc < h.length)
    (e : transformIter .always (.build f) d vs ax a h p i res = .ok (h', r)) :
    stepV f d vs ax (h.cell a) p i (res.map h.cell) = .ok (h'.cell r) ∧ Keeps h h' ∧ r < h'.length := by
  have kk := transformIter_keeps (keeps_refl h) e
  refine ⟨?_, kk.1, kk.2.2⟩
  unfold transformIter at e
  simp only [callFunc] at e
  unfold stepV
  cases hf : f (h.cell a) p with
  | error err => simp [hf] at e
  | ok x =>
    simp only [hf, rewrap, Rewrap.applies, if_true] at e
    dsimp only
    have hx : ((h ++ [x]) ++ [(h ++ [x]).cell h.length]) = h ++ [x, x] := by
      rw [cell_append_length h x []]; simp
    have hlen : (h ++ [x]).length = h.length + 1 := by simp
    rw [hlen, hx] at e
    have hc2 : (h ++ [x, x]).cell (h.length + 1) = x := by
      have := cell_append_length (h ++ [x]) x []
      simpa [hlen] using this
    unfold addDimAt at e
    rw [hc2] at e
    by_cases hc : x.hasCoord d
    · simp only [hc, if_true] at e ⊢
      cases res with
      | none =>
        simp only [accumulate] at e
        injection e with e; injection e with e1 e2; subst e1; subst e2
        rw [hc2]; rfl
      | some acc =>
        have hacc := hres acc rfl
        simp only [accumulate, Option.map] at e ⊢
        have ha : (h ++ [x, x]).cell acc = h.cell acc := cell_append_left h _ hacc
        rw [ha, hc2] at e
        cases hj : join (h.cell acc) x (.name d) false with
        | error err => simp [hj] at e
        | ok j =>
          simp only [hj] at e
          injection e with e; injection e with e1 e2; subst e1; subst e2
          have := cell_append_length (h ++ [x, x]) j []
          rw [this]
    · simp only [hc, Bool.false_eq_true, ↓reduceIte] at e ⊢
      cases hv : vs[i]? with
      | none => simp [hv] at e
      | some v =>
        simp only [hv] at e ⊢
        cases had : addDim x d v ax with
        | error err => simp [had] at e
        | ok x' =>
          simp only [had] at e ⊢
          have hlt : h.length + 1 < (h ++ [x, x]).length := by simp
          have hc3 : Heap.cell ((h ++ [x, x]).set (h.length + 1) x') (h.length + 1) = x' := cell_set_eq _ x' hlt
          cases res with
          | none =>
            simp only [accumulate] at e
            injection e with e; injection e with e1 e2; subst e1; subst e2
            rw [hc3]; rfl
          | some acc =>
            have hacc := hres acc rfl
            simp only [accumulate, Option.map] at e ⊢
            have ha : Heap.cell ((h ++ [x, x]).set (h.length + 1) x') acc = h.cell acc := by
              rw [cell_set_ne _ x' (by omega), cell_append_left h _ hacc]
            rw [ha, hc3] at e
            cases hj : join (h.cell acc) x' (.name d) false with
            | error err => simp [hj] at e
            | ok j =>
              simp only [hj] at e
              injection e with e; injection e with e1 e2; subst e1; subst e2
              have := cell_append_length ((h ++ [x, x]).set (h.length + 1) x') j []
              rw [this]

theorem transformLoopH_build {P : Type} {f : NodeArray → P → Except Err NodeArray} {d : String}
    {vs : List Coord} {ax a : Nat} :
    ∀ (ps : List P) (h h' : Heap) (i : Nat) (res res' : Option Nat), a < h.length →
      (∀ acc, res = some acc → acc < h.length) →
      transformLoopH .always (.build f) d vs ax a h ps i res = .ok (h', res') →
      transformLoop f d vs ax (h.cell a) ps i (res.map h.cell) = .ok (res'.map h'.cell) ∧ Keeps h h' ∧
        ∀ r, res' = some r → r < h'.length := by
  intro ps
  induction ps with
  | nil =>
    intro h h' i res res' _ hres e
    simp only [transformLoopH] at e
    injection e with e; injection e with e1 e2; subst e1; subst e2
    exact ⟨by simp [transformLoop], keeps_refl h, hres⟩
  | cons p ps ih =>
    intro h h' i res res' ha hres e
    simp only [transformLoopH] at e
    split at e
    · cases e
    · rename_i h1 r1 hi
      obtain ⟨hs, k1, hr1⟩ := transformIter_build hres hi
      obtain ⟨hl, k2, hr2⟩ := ih h1 h' (i + 1) (some r1) res' (Nat.lt_of_lt_of_le ha k1.1)
        (fun acc hacc => by injection hacc with hacc; subst hacc; exact hr1) e
      refine ⟨?_, keeps_trans k1 k2, hr2⟩
      rw [transformLoop_cons, hs]
      rw [cell_eq_of_keeps k1 ha] at hl
      exact hl

theorem transform_eq {P : Type} (f : NodeArray → P → Except Err NodeArray) (params : List P) (dim : DimArg) (axis : Nat)
    (A : NodeArray) :
    Fluent.transform f params dim axis A =
      match transformLoop f dim.dimName (dimValues dim params.length) axis A params 0 none with
      | .error e => .error e
      | .ok none => .error .value
      | .ok (some res) => squeeze res dim.dimName false := by
  cases dim with
  | name dn =>
    simp only [Fluent.transform, dimValues, bind, Except.bind]
    cases transformLoop f (DimArg.name dn).dimName (intLabels params.length) axis A params 0 none with
    | error e => rfl
    | ok v => cases v <;> rfl
  | coord dn ls =>
    simp only [Fluent.transform, dimValues, bind, Except.bind]
    cases transformLoop f (DimArg.coord dn ls).dimName ls axis A params 0 none with
    | error e => rfl
    | ok v => cases v <;> rfl

end Aux

open Aux in
/-- **The heap model computes what the value model computes**: for a func that builds new actions from
the receiver, the cell `transform` returns holds exactly `Fluent.transform` of the receiver's node array
(the model C13 reasons about and ties to the real graphs). -/
theorem c14_transform_refines {P : Type} (h : Heap) (a : Nat) (f : NodeArray → P → Except Err NodeArray)
    (params : List P) (dim : DimArg) (axis : Nat) (h' : Heap) (r : Nat) (ha : a < h.length)
    (e : transformH .always h a (.build f) params dim axis = .ok (h', r)) :
    Fluent.transform f params dim axis (h.cell a) = .ok (h'.cell r) := by
  unfold transformH at e
  split at e
  · cases e
  · cases e
  · rename_i h1 r1 hl
    obtain ⟨hv, k1, hr⟩ := transformLoopH_build params h h1 0 none (some r1) ha (by intro _ hh; cases hh) hl
    have hr1 := hr r1 rfl
    split at e
    · rename_i h2 hs
      injection e with e; injection e with e1 e2; subst e1; subst e2
      unfold squeezeAt at hs
      rw [transform_eq]
      simp only [Option.map] at hv
      rw [hv]
      dsimp only
      cases hq : squeeze (h1.cell r1) dim.dimName false with
      | error err => simp [hq] at hs
      | ok x =>
        simp only [hq] at hs
        injection hs with hs; subst hs
        rw [cell_set_eq h1 x hr1]
    · cases e

example :
    let h : Heap := [Fluent.fromSource [("d0", [.int 0, .int 10])] 0]
    (match transformH .always h 0 (.build (fun a (k : Int) => .ok (Fluent.arithScalar "multiply" (.num k) a))) [2, 3] (.name "t") 0 with
     | .ok (h', r) => (h'.length, r, (h'.cell r).dimNames)
     | .error _ => (0, 0, [])) = (6, 5, ["t", "d0"]) := by decide

open Aux in
/-- the heap version of stack / concatenate computes what `Fluent.combine` (the value model of C13) computes -/
theorem c14_combine_refines (h : Heap) (m : String) (kw : List (String × Static)) (a : Nat) (d : String) (b : Nat) (keep : Bool)
    (h' : Heap) (r : Nat) (e : combineH h m kw a d b keep = .ok (h', r)) :
    Fluent.combine m kw d b keep (h.cell a) = .ok (h'.cell r) := by
  unfold combineH at e
  unfold Fluent.combine
  split at e
  · cases e
  · rename_i x hx
    simp only [hx]
    split at e
    · rename_i h1
      simp only [h1, if_true]
      split at e
      · rename_i hk
        injection e with e; injection e with e1 e2; subst e1; subst e2; simp [hk]
      · rename_i hk
        unfold squeezeAt at e
        rw [cell_append_length h (h.cell a) []] at e
        cases hq : squeeze (h.cell a) d false with
        | error err => simp [hq] at e
        | ok y =>
          simp only [hq] at e
          injection e with e; injection e with e1 e2; subst e1; subst e2
          rw [cell_set_eq _ y (by simp)]
          simp [hk]
    · rename_i h1
      simp only [h1, if_false]
      split at e
      · rename_i y hy
        injection e with e; injection e with e1 e2; subst e1; subst e2
        rw [hy, cell_append_length h y []]
      · cases e

/-! ### C14 — what the name does not cover -/

/-- **The number of outputs is part of the name** (fix commit fee55c3; before it `a.map(f)` and
`a.map(f, yields=("y", [0, 1]))` shared a name): the same callable, statics and inputs with different numbers of
outputs get different names — for an injective hash, nothing else assumed. -/
theorem c14_outputs_in_name {σ : Type} (H : Str → Str) (hH : Function.Injective H) (R : σ → Str)
    (f : Callable) (s : σ) (ins : List Str) (m n : Nat) (hmn : m ≠ n) :
    nodeName H R { func := f, statics := s, inputs := ins, outputs := m } ≠
      nodeName H R { func := f, statics := s, inputs := ins, outputs := n } := by
  intro h
  simp only [nodeName] at h
  have h1 := List.append_cancel_left h
  injection h1 with _ h2
  have hr := hH h2
  simp only [render, List.append_assoc] at hr
  exact hmn (Aux.outSuffix_inj m n (List.append_cancel_left (List.append_cancel_left (List.append_cancel_left hr))))

example : nodeName id renderStatics { func := { name := "f".toList, ident := 0 }, statics := ([], []), inputs := [], outputs := 1 }
    ≠ nodeName id renderStatics { func := { name := "f".toList, ident := 0 }, statics := ([], []), inputs := [], outputs := 2 } :=
  c14_outputs_in_name id (fun _ _ h => h) _ _ _ _ 1 2 (by decide)

/-- **A lossy rendering of the statics loses the computation**: whenever two different static parts are rendered
alike (`repr` of a long array prints `...`), two nodes that differ only in them get the same name — this is exactly
the situation the hypothesis `hR` of `c14_injective_partial` excludes. -/
theorem c14_lossy_repr_full_fails {σ : Type} (H : Str → Str) (R : σ → Str) (x y : σ) (hxy : x ≠ y) (hR : R x = R y) :
    ∃ c1 c2 : Comp σ, c1.func = c2.func ∧ c1.inputs = c2.inputs ∧ c1.statics ≠ c2.statics ∧
      nodeName H R c1 = nodeName H R c2 :=
  ⟨{ func := { name := "f".toList, ident := 0 }, statics := x, inputs := [] },
   { func := { name := "f".toList, ident := 0 }, statics := y, inputs := [] },
   rfl, rfl, hxy, by simp [nodeName, render, hR]⟩

example : ∃ c1 c2 : Comp Bool, c1.func = c2.func ∧ c1.inputs = c2.inputs ∧ c1.statics ≠ c2.statics ∧
    nodeName id (fun _ => "array([0., ..., 0.])".toList) c1 = nodeName id (fun _ => "array([0., ..., 0.])".toList) c2 :=
  c14_lossy_repr_full_fails id _ true false (by decide) rfl

/-! ### C14 — corollaries: operand order, the set of taken source names -/

/-- **The order of the inputs is part of the name**: the same callable with the same statics over
different lists of (plain) input names — in particular the same two inputs swapped, `a - b` and `b - a` —
never get the same name (for an injective hash; nothing is assumed about the statics' rendering). -/
theorem c14_operand_order {σ : Type} (H : Str → Str) (hH : Function.Injective H) (R : σ → Str)
    (f : Callable) (s : σ) (xs ys : List Str) (hx : ∀ n ∈ xs, Plain n) (hy : ∀ n ∈ ys, Plain n) (hne : xs ≠ ys) :
    nodeName H R { func := f, statics := s, inputs := xs } ≠ nodeName H R { func := f, statics := s, inputs := ys } := by
  intro h
  simp only [nodeName] at h
  have h1 := List.append_cancel_left h
  injection h1 with _ h2
  have hr := hH h2
  simp only [render, List.append_assoc] at hr
  exact hne (Aux.reprNames_append_inj xs ys _ _ hx hy (List.append_cancel_left (List.append_cancel_left hr))).1

example : nodeName id renderStatics { func := { name := "subtract".toList, ident := 1 }, statics := ([], []), inputs := ["a".toList, "b".toList] }
    ≠ nodeName id renderStatics { func := { name := "subtract".toList, ident := 1 }, statics := ([], []), inputs := ["b".toList, "a".toList] } := by
  decide

/-- **`from_source` must start from an empty set of taken names**: if the set survived a call (a shared
default argument, a module-level set), building the same sources again would label them differently. -/
theorem c14_source_labels_fresh_set_needed :
    ∃ items : List (Str × List Nat), sourceLabels items (sourceLabels items []) ≠ sourceLabels items [] :=
  ⟨[("load".toList, [0])], by decide⟩

/-! ### C14 — unions (`Cascade.from_actions`, `+`, `+=`) -/

namespace Aux

variable {σ : Type} [DecidableEq σ]

theorem mem_insertNew (acc : List (Comp σ)) (c x : Comp σ) : x ∈ insertNew acc c ↔ x ∈ acc ∨ x = c := by
  unfold insertNew
  split
  · rename_i h
    constructor
    · intro hx; exact Or.inl hx
    · intro hx; rcases hx with hx | hx
      · exact hx
      · subst hx; exact h
  · simp

theorem mem_foldl_insertNew (l : List (Comp σ)) : ∀ (acc : List (Comp σ)) (x : Comp σ),
    x ∈ l.foldl insertNew acc ↔ x ∈ acc ∨ x ∈ l := by
  induction l with
  | nil => intro acc x; simp
  | cons c cs ih =>
    intro acc x
    simp only [List.foldl_cons, ih, mem_insertNew, List.mem_cons]
    constructor
    · rintro ((h | h) | h)
      · exact Or.inl h
      · exact Or.inr (Or.inl h)
      · exact Or.inr (Or.inr h)
    · rintro (h | h | h)
      · exact Or.inl (Or.inl h)
      · exact Or.inl (Or.inr h)
      · exact Or.inr h

theorem nodup_insertNew (acc : List (Comp σ)) (c : Comp σ) (h : acc.Nodup) : (insertNew acc c).Nodup := by
  unfold insertNew
  split
  · exact h
  · rename_i hc
    rw [List.nodup_append]
    refine ⟨h, by simp, ?_⟩
    intro a ha b hb
    simp at hb
    subst hb
    intro hab; subst hab; exact hc ha

theorem nodup_foldl_insertNew (l : List (Comp σ)) : ∀ acc : List (Comp σ), acc.Nodup → (l.foldl insertNew acc).Nodup := by
  induction l with
  | nil => intro acc h; exact h
  | cons c cs ih => intro acc h; exact ih _ (nodup_insertNew acc c h)

theorem foldl_insertNew_absorb (l : List (Comp σ)) : ∀ acc : List (Comp σ), (∀ c ∈ l, c ∈ acc) → l.foldl insertNew acc = acc := by
  induction l with
  | nil => intro acc _; rfl
  | cons c cs ih =>
    intro acc h
    have hc : c ∈ acc := h c (by simp)
    simp only [List.foldl_cons, insertNew, hc, if_true]
    exact ih acc (fun x hx => h x (by simp [hx]))

theorem nodup_map_on {α β : Type} (f : α → β) : ∀ (l : List α), l.Nodup →
    (∀ a ∈ l, ∀ b ∈ l, f a = f b → a = b) → (l.map f).Nodup := by
  intro l
  induction l with
  | nil => intro _ _; exact List.nodup_nil
  | cons x xs ih =>
    intro hnd hinj
    rw [List.nodup_cons] at hnd
    rw [List.map_cons, List.nodup_cons]
    refine ⟨?_, ih hnd.2 (fun a ha b hb => hinj a (by simp [ha]) b (by simp [hb]))⟩
    intro hmem
    rw [List.mem_map] at hmem
    obtain ⟨y, hy, hfy⟩ := hmem
    have := hinj y (by simp [hy]) x (by simp) hfy
    subst this
    exact hnd.1 hy

end Aux

open Aux

variable {σ : Type} [DecidableEq σ]

/-- **Unions de-duplicate**: the union keeps every computation exactly once — every node of the operands is in the
union, nothing else is, no computation twice; and uniting a graph with a second build of itself (node for node the
same computations) changes nothing. -/
theorem c14_union_dedup (g : List (Comp σ)) :
    (∀ c, c ∈ dedupNodes g ↔ c ∈ g) ∧ (dedupNodes g).Nodup ∧ dedupNodes (g ++ g) = dedupNodes g := by
  refine ⟨fun c => by simp [dedupNodes, mem_foldl_insertNew], nodup_foldl_insertNew g [] List.nodup_nil, ?_⟩
  simp only [dedupNodes, List.foldl_append]
  exact foldl_insertNew_absorb g _ (fun c hc => by simp [mem_foldl_insertNew, hc])

/-- **…and lowering by name is unambiguous — wherever names identify computations**: if on the nodes of the
operands equal names imply equal computations (`c14_injective_partial` gives callable, statics, inputs and the
number of outputs under its hypotheses), then the names in the de-duplicated
union are pairwise different, and looking a node of an operand up by its name finds that very computation. -/
theorem c14_union_unambiguous_partial (H : Str → Str) (R : σ → Str) (g : List (Comp σ))
    (hinj : ∀ c1 ∈ g, ∀ c2 ∈ g, nodeName H R c1 = nodeName H R c2 → c1 = c2) :
    ((dedupNodes g).map (nodeName H R)).Nodup ∧
    ∀ c ∈ g, ∀ c' ∈ dedupNodes g, nodeName H R c' = nodeName H R c → c' = c := by
  have hmem := (c14_union_dedup g).1
  refine ⟨?_, fun c hc c' hc' hn => hinj c' ((hmem c').1 hc') c hc hn⟩
  have hnd := (c14_union_dedup g).2.1
  exact nodup_map_on _ _ hnd (fun a ha b hb hab => hinj a ((hmem a).1 ha) b ((hmem b).1 hb) hab)

example : ((dedupNodes [({ func := { name := "f".toList, ident := 0 }, statics := (), inputs := ["a".toList] } : Comp Unit),
                        { func := { name := "f".toList, ident := 0 }, statics := (), inputs := ["a".toList] },
                        { func := { name := "f".toList, ident := 0 }, statics := (), inputs := ["b".toList] }]).map
            (nodeName id (fun _ => []))).Nodup :=
  (c14_union_unambiguous_partial id (fun _ => []) _ (by decide)).1

/-- **…and only there**: with the nodes the name does not tell apart (two different callables with one `__name__`)
the de-duplicated union holds two nodes under one name — `serialise` and `graph2job` cannot key it. -/
theorem c14_union_full_fails :
    ∃ g : List (Comp Unit), ¬ ((dedupNodes g).map (nodeName id (fun _ => []))).Nodup :=
  ⟨[{ func := { name := "<lambda>".toList, ident := 0 }, statics := (), inputs := [] },
    { func := { name := "<lambda>".toList, ident := 1 }, statics := (), inputs := [] }], by decide⟩

/-! ### C14 — names identify whole computations (induction over the depth of the graph) -/

/-- characters that occur neither in callable names / source labels / output names nor in hex digests -/
def Clean (s : Str) : Prop :=
  ∀ c ∈ s, c ≠ ':' ∧ c ≠ '.' ∧ c ≠ '[' ∧ c ≠ '\'' ∧ c ≠ '\\' ∧ c ≠ '\n' ∧ c ≠ '\t' ∧ c ≠ '\r'

mutual
/-- well-formed: callable names, labels and output names are clean, and every callable is one of `ok` -/
def Term.WF {σ : Type} (ok : Callable → Prop) : Term σ → Prop
  | .node label f _ _ args => Clean (label.getD f.name) ∧ Clean f.name ∧ ok f ∧ Args.WF ok args
def Args.WF {σ : Type} (ok : Callable → Prop) : Args σ → Prop
  | .nil => True
  | .cons t out rest => Term.WF ok t ∧ (∀ o, out = some o → Clean o) ∧ Args.WF ok rest
end

namespace Aux

theorem clean_plain {s : Str} (h : Clean s) : Plain s := fun c hc =>
  ⟨(h c hc).2.2.2.1, (h c hc).2.2.2.2.1, (h c hc).2.2.2.2.2.1, (h c hc).2.2.2.2.2.2.1, (h c hc).2.2.2.2.2.2.2⟩

theorem clean_not_mem {s : Str} (h : Clean s) : ':' ∉ s ∧ '.' ∉ s ∧ '[' ∉ s :=
  ⟨fun hm => (h _ hm).1 rfl, fun hm => (h _ hm).2.1 rfl, fun hm => (h _ hm).2.2.1 rfl⟩

/-- **`"<parent>.<output>"` is never a node name, and it names its parent and output uniquely**: node names have
the form `<label>:<digest>` with no `:` in the label and neither `:` nor `.` in the digest -/
theorem inputName_inj (l1 l2 d1 d2 : Str) (o1 o2 : Option Str) (hl1 : Clean l1) (hl2 : Clean l2)
    (hd1 : Clean d1) (hd2 : Clean d2)
    (h : inputName (l1 ++ ':' :: d1) o1 = inputName (l2 ++ ':' :: d2) o2) :
    l1 ++ ':' :: d1 = l2 ++ ':' :: d2 ∧ o1 = o2 := by
  have c1 := clean_not_mem hl1
  have c2 := clean_not_mem hl2
  have e1 := clean_not_mem hd1
  have e2 := clean_not_mem hd2
  cases o1 with
  | none =>
    cases o2 with
    | none => exact ⟨h, rfl⟩
    | some o =>
      simp only [inputName, List.append_assoc, List.cons_append] at h
      obtain ⟨_, hd⟩ := split_at_char ':' _ _ _ _ c1.1 c2.1 h
      exact absurd (by rw [hd]; simp) e1.2.1
  | some o =>
    cases o2 with
    | none =>
      simp only [inputName, List.append_assoc, List.cons_append] at h
      obtain ⟨_, hd⟩ := split_at_char ':' _ _ _ _ c1.1 c2.1 h
      exact absurd (by rw [← hd]; simp) e2.2.1
    | some o' =>
      simp only [inputName, List.append_assoc, List.cons_append] at h
      obtain ⟨hl, hd⟩ := split_at_char ':' _ _ _ _ c1.1 c2.1 h
      obtain ⟨hdd, ho⟩ := split_at_char '.' _ _ _ _ e1.2.1 e2.2.1 hd
      exact ⟨by rw [hl, hdd], by rw [ho]⟩

theorem plain_inputName (l d : Str) (o : Option Str) (hl : Clean l) (hd : Clean d) (ho : ∀ x, o = some x → Clean x) :
    Plain (inputName (l ++ ':' :: d) o) := by
  intro c hc
  have key : c ∈ l ∨ c = ':' ∨ c ∈ d ∨ c = '.' ∨ (∃ x, o = some x ∧ c ∈ x) := by
    cases o with
    | none => simp [inputName] at hc; rcases hc with h | h | h <;> simp [h]
    | some x => simp [inputName] at hc; rcases hc with h | h | h | h | h <;> simp [h]
  rcases key with h | h | h | h | ⟨x, hx, h⟩
  · exact clean_plain hl c h
  · subst h; decide
  · exact clean_plain hd c h
  · subst h; decide
  · exact clean_plain (ho x hx) c h

theorem args_names_plain {σ : Type} (H : Str → Str) (R : σ → Str) (ok : Callable → Prop) (hHc : ∀ s, Clean (H s)) :
    ∀ (a : Args σ), a.WF ok → ∀ n ∈ a.names H R, Plain n
  | .nil, _, n, hn => by simp [Args.names] at hn
  | .cons (.node label f s o args) out rest, hw, n, hn => by
    simp only [Args.WF, Term.WF] at hw
    simp only [Args.names, Term.name, List.mem_cons] at hn
    rcases hn with hn | hn
    · subst hn
      exact plain_inputName _ _ out hw.1.1 (hHc _) hw.2.1
    · exact args_names_plain H R ok hHc rest hw.2.2 n hn

mutual
theorem term_inj {σ : Type} (H : Str → Str) (R : σ → Str) (ok : Callable → Prop)
    (hH : Function.Injective H) (hHc : ∀ s, Clean (H s))
    (hR : UniquelyDecodable R) (hRb : ∀ s, ∃ t, R s = '[' :: t)
    (hcall : ∀ f g, ok f → ok g → f.name = g.name → f = g) :
    ∀ (t1 t2 : Term σ), t1.WF ok → t2.WF ok → t1.name H R = t2.name H R → t1.comp = t2.comp
  | .node l1 f1 s1 o1 a1, .node l2 f2 s2 o2 a2, w1, w2, h => by
    simp only [Term.WF] at w1 w2
    simp only [Term.name] at h
    obtain ⟨hl, hd⟩ := split_at_char ':' _ _ _ _ (clean_not_mem w1.1).1 (clean_not_mem w2.1).1 h
    have hr := hH hd
    obtain ⟨t1, ht1⟩ := hRb s1
    obtain ⟨t2, ht2⟩ := hRb s2
    have hr' := hr
    rw [ht1, ht2] at hr'
    simp only [List.append_assoc, List.cons_append] at hr'
    obtain ⟨hfn, _⟩ := split_at_char '[' _ _ _ _ (clean_not_mem w1.2.1).2.2 (clean_not_mem w2.2.1).2.2 hr'
    have hf : f1 = f2 := hcall f1 f2 w1.2.2.1 w2.2.2.1 hfn
    subst hf
    simp only [List.append_assoc] at hr
    have hr2 := List.append_cancel_left hr
    obtain ⟨hs, hn⟩ := hR _ _ _ _ hr2
    subst hs
    obtain ⟨hnames, hsuf⟩ := reprNames_append_inj _ _ _ _ (args_names_plain H R ok hHc a1 w1.2.2.2)
      (args_names_plain H R ok hHc a2 w2.2.2.2) hn
    have ho : o1 = o2 := outSuffix_inj _ _ hsuf
    have ha := args_inj H R ok hH hHc hR hRb hcall a1 a2 w1.2.2.2 w2.2.2.2 hnames
    simp only [Term.comp, hl, ha, ho]
theorem args_inj {σ : Type} (H : Str → Str) (R : σ → Str) (ok : Callable → Prop)
    (hH : Function.Injective H) (hHc : ∀ s, Clean (H s))
    (hR : UniquelyDecodable R) (hRb : ∀ s, ∃ t, R s = '[' :: t)
    (hcall : ∀ f g, ok f → ok g → f.name = g.name → f = g) :
    ∀ (a1 a2 : Args σ), a1.WF ok → a2.WF ok → a1.names H R = a2.names H R → a1.comp = a2.comp
  | .nil, .nil, _, _, _ => rfl
  | .nil, .cons _ _ _, _, _, h => by simp [Args.names] at h
  | .cons _ _ _, .nil, _, _, h => by simp [Args.names] at h
  | .cons (.node l1 f1 s1 p1 b1) o1 r1, .cons (.node l2 f2 s2 p2 b2) o2 r2, w1, w2, h => by
    simp only [Args.names, List.cons.injEq] at h
    have w1' := w1
    have w2' := w2
    simp only [Args.WF, Term.WF] at w1 w2
    have hi := h.1
    simp only [Term.name] at hi
    obtain ⟨hname, ho⟩ := inputName_inj _ _ _ _ o1 o2 w1.1.1 w2.1.1 (hHc _) (hHc _) hi
    have ht := term_inj H R ok hH hHc hR hRb hcall (.node l1 f1 s1 p1 b1) (.node l2 f2 s2 p2 b2)
      (by simp only [Args.WF] at w1'; exact w1'.1) (by simp only [Args.WF] at w2'; exact w2'.1)
      (by simp only [Term.name]; exact hname)
    have hrest := args_inj H R ok hH hHc hR hRb hcall r1 r2 w1.2.2 w2.2.2 h.2
    simp only [Args.comp, ht, ho, hrest]
end

/-- an injective "hash" whose digests are clean (for the non-vacuity examples): every character `c` becomes
`a…a b` with `c.toNat` letters `a` -/
def unaryH (s : Str) : Str := s.flatMap (fun c => List.replicate c.toNat 'a' ++ ['b'])

theorem unaryH_clean (s : Str) : Clean (unaryH s) := by
  intro c hc
  simp only [unaryH, List.mem_flatMap, List.mem_append, List.mem_replicate, List.mem_singleton] at hc
  obtain ⟨_, _, hc⟩ := hc
  rcases hc with ⟨_, hc⟩ | hc <;> subst hc <;> decide

theorem unaryH_injective : Function.Injective unaryH := by
  intro s
  induction s with
  | nil =>
    intro t h
    cases t with
    | nil => rfl
    | cons d t => simp [unaryH] at h
  | cons c s ih =>
    intro t h
    cases t with
    | nil => simp [unaryH] at h
    | cons d t =>
      simp only [unaryH, List.flatMap_cons, List.append_assoc, List.cons_append, List.nil_append] at h
      have nb : ∀ n : Nat, 'b' ∉ List.replicate n 'a' := by
        intro n hm; exact absurd (List.eq_of_mem_replicate hm) (by decide)
      obtain ⟨hrep, hrest⟩ := split_at_char 'b' _ _ _ _ (nb _) (nb _) h
      have hlen : c.toNat = d.toNat := by
        have := congrArg List.length hrep
        simpa using this
      have hcd : c = d := Char.ext (UInt32.toNat_inj.mp hlen)
      subst hcd
      rw [ih hrest]

end Aux

theorem Term.name_eq_nodeName {σ : Type} (H : Str → Str) (R : σ → Str) (f : Callable) (s : σ) (o : Nat) (args : Args σ) :
    Term.name H R (.node none f s o args) = nodeName H R { func := f, statics := s, inputs := Args.names H R args, outputs := o } := by
  simp [Term.name, nodeName, render]

theorem Term.name_eq_nodeNameLabelled {σ : Type} (H : Str → Str) (R : σ → Str) (l : Str) (f : Callable) (s : σ) (o : Nat) (args : Args σ) :
    Term.name H R (.node (some l) f s o args) = nodeNameLabelled H R l { func := f, statics := s, inputs := Args.names H R args, outputs := o } := by
  simp [Term.name, nodeNameLabelled, render]

open Aux in
/-- **`"<parent>.<output>"` is never a node name and is read back uniquely**: every node name is `<label>:<digest>`
with a label free of `:` and a digest free of `:` and `.` (hex); so the name an Output contributes to the hashed
string cannot be confused with the name a Node contributes, and two of them are equal only for the same parent
name and the same output. -/
theorem c14_input_name_injective (l1 l2 d1 d2 : Str) (o1 o2 : Option Str) (hl1 : Clean l1) (hl2 : Clean l2)
    (hd1 : Clean d1) (hd2 : Clean d2)
    (h : inputName (l1 ++ ':' :: d1) o1 = inputName (l2 ++ ':' :: d2) o2) :
    l1 ++ ':' :: d1 = l2 ++ ':' :: d2 ∧ o1 = o2 :=
  inputName_inj l1 l2 d1 d2 o1 o2 hl1 hl2 hd1 hd2 h

example : inputName ("f".toList ++ ':' :: "ab12".toList) (some "0".toList) ≠ "f".toList ++ ':' :: "ab12".toList := by
  intro h
  have := c14_input_name_injective "f".toList "f".toList "ab12".toList "ab12".toList (some "0".toList) none
    (by simp [Clean]) (by simp [Clean]) (by simp [Clean]) (by simp [Clean]) h
  cases this.2

open Aux in
/-- **Names identify whole computations — induction over the depth of the graph, source nodes included.** For an
injective hash with clean (hex) digests, statics whose rendering can be read back and starts with `[` (Python's
`repr` of the argument list), clean callable names / source labels / output names, and callables distinguished by
their `__name__` (`ok`): two nodes with the same name denote the same computation all the way down — the same
callables, statics, parameter-to-input wiring, outputs used and numbers of outputs, at every node of the two
graphs. (`comp` forgets only whether the name prefix was passed explicitly.)
`_partial`: `UniquelyDecodable R` is a HYPOTHESIS on the rendering of the statics. It is discharged in this file only for
`σ = Unit` (no statics, the example below) and, one level deep, for `PlainArgs` (plain strings, no keyword arguments:
`c14_injective_plain_partial`); for the real `renderStatics` over ints / floats / nested containers / keyword arguments —
`axis=0`, the scalar of `a.add(2)` — "same static arguments" is assumed, not proved (it fails for lossy reprs:
`c14_lossy_repr_full_fails`), and is sampled on the real code by the name-collision oracle. -/
theorem c14_injective_deep_partial {σ : Type} (H : Str → Str) (R : σ → Str) (ok : Callable → Prop)
    (hH : Function.Injective H) (hHc : ∀ s, Clean (H s))
    (hR : UniquelyDecodable R) (hRb : ∀ s, ∃ t, R s = '[' :: t)
    (hcall : ∀ f g, ok f → ok g → f.name = g.name → f = g)
    (t1 t2 : Term σ) (w1 : t1.WF ok) (w2 : t2.WF ok) (h : t1.name H R = t2.name H R) :
    t1.comp = t2.comp :=
  term_inj H R ok hH hHc hR hRb hcall t1 t2 w1 w2 h

/-- non-vacuity: with the injective clean "hash" `unaryH` the hypotheses hold, and the theorem separates
`f(src)` from `f(src.0)` (the node itself vs. its output `0` as input) two levels above the source -/
example :
    let src : Term Unit := .node (some "src(0,)".toList) { name := "src".toList, ident := 0 } () 1 .nil
    let t1 : Term Unit := .node none { name := "g".toList, ident := 0 } () 1
      (.cons (.node none { name := "f".toList, ident := 0 } () 1 (.cons src none .nil)) none .nil)
    let t2 : Term Unit := .node none { name := "g".toList, ident := 0 } () 1
      (.cons (.node none { name := "f".toList, ident := 0 } () 1 (.cons src (some "0".toList) .nil)) none .nil)
    t1.name Aux.unaryH (fun _ => "[]{}".toList) ≠ t2.name Aux.unaryH (fun _ => "[]{}".toList) := by
  intro src t1 t2 h
  have hR : UniquelyDecodable (fun (_ : Unit) => "[]{}".toList) := by
    intro x y s t hst; exact ⟨rfl, List.append_cancel_left hst⟩
  have := c14_injective_deep_partial Aux.unaryH (fun _ => "[]{}".toList) (fun f => f.ident = 0)
    Aux.unaryH_injective Aux.unaryH_clean hR (fun _ => ⟨_, rfl⟩)
    (fun f g hf hg hn => by cases f; cases g; simp_all)
    t1 t2 (by simp [t1, src, Term.WF, Args.WF, Clean]) (by simp [t2, src, Term.WF, Args.WF, Clean]) h
  simp [t1, t2, Term.comp, Args.comp] at this

end EkwVerif.Names
