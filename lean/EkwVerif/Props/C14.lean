/-
C14 — fluent node names identify computations; operations leave operands intact.
Property theorems (`c14_*`) over Model/Names.lean; helper lemmas in `namespace Aux`.
-/
import EkwVerif.Model.Names

namespace EkwVerif.Names

/-! ### vocabulary -/

/-- a string whose Python `repr` is just the string between single quotes -/
def Plain (s : Str) : Prop := ∀ c ∈ s, c ≠ '\'' ∧ c ≠ '\\' ∧ c ≠ '\n' ∧ c ≠ '\t' ∧ c ≠ '\r'

/-- the rendering of the static part of a payload can be read back, whatever follows it
("statics with injective repr"; true of Python literals, assumed here) -/
def UniquelyDecodable {σ : Type} (R : σ → Str) : Prop :=
  ∀ (x y : σ) (s t : Str), R x ++ s = R y ++ t → x = y ∧ s = t

namespace Aux

theorem flatMap_escape_plain (s : Str) (h : Plain s) : s.flatMap (escapeChar '\'') = s := by
  induction s with
  | nil => rfl
  | cons c cs ih =>
    have hc := h c (by simp)
    have hcs : Plain cs := fun d hd => h d (by simp [hd])
    simp only [List.flatMap_cons, ih hcs]
    simp [escapeChar, hc.1, hc.2.1, hc.2.2.1, hc.2.2.2.1, hc.2.2.2.2]

theorem contains_quote_plain (s : Str) (h : Plain s) : s.contains '\'' = false := by
  cases hcon : s.contains '\'' with
  | false => rfl
  | true =>
    have : '\'' ∈ s := by simpa using hcon
    exact absurd rfl (h _ this).1

theorem reprStr_plain (s : Str) (h : Plain s) : reprStr s = '\'' :: s ++ ['\''] := by
  unfold reprStr
  rw [contains_quote_plain s h]
  simp [flatMap_escape_plain s h]

/-- splitting at the first occurrence of a character that occurs in neither prefix -/
theorem split_at_char (c : Char) : ∀ (l1 l2 r1 r2 : Str), c ∉ l1 → c ∉ l2 →
    l1 ++ c :: r1 = l2 ++ c :: r2 → l1 = l2 ∧ r1 = r2 := by
  intro l1
  induction l1 with
  | nil =>
    intro l2 r1 r2 _ h2 h
    cases l2 with
    | nil => simp at h; exact ⟨rfl, h⟩
    | cons d l2 =>
      simp at h
      exact absurd (by simp [h.1]) h2
  | cons a l1 ih =>
    intro l2 r1 r2 h1 h2 h
    cases l2 with
    | nil =>
      simp at h
      exact absurd (by simp [h.1]) h1
    | cons d l2 =>
      simp at h
      obtain ⟨had, hrest⟩ := h
      have := ih l2 r1 r2 (fun hm => h1 (by simp [hm])) (fun hm => h2 (by simp [hm])) hrest
      exact ⟨by rw [had, this.1], this.2⟩

/-- `repr` of a list of plain names, written as a recursion: `'x', 'y']` -/
def tailOf : List Str → Str
  | [] => [']']
  | x :: xs => [',', ' '] ++ ('\'' :: x ++ ['\'']) ++ tailOf xs

def bodyOf : List Str → Str
  | [] => [']']
  | x :: xs => ('\'' :: x ++ ['\'']) ++ tailOf xs

theorem intercalate_tail (x : Str) (xs : List Str) :
    intercalate [',', ' '] ((x :: xs).map (fun s => '\'' :: s ++ ['\''])) ++ [']'] = ('\'' :: x ++ ['\'']) ++ tailOf xs := by
  induction xs generalizing x with
  | nil => simp [intercalate, tailOf]
  | cons y ys ih =>
    simp only [List.map_cons, intercalate] at ih ⊢
    rw [List.append_assoc, List.append_assoc, ih y]
    simp [tailOf]

theorem reprNames_plain (names : List Str) (h : ∀ n ∈ names, Plain n) : reprNames names = '[' :: bodyOf names := by
  have hmap : names.map reprStr = names.map (fun s => '\'' :: s ++ ['\'']) := by
    apply List.map_congr_left
    intro n hn
    exact reprStr_plain n (h n hn)
  cases names with
  | nil => simp [reprNames, intercalate, bodyOf]
  | cons x xs =>
    simp only [reprNames, hmap, bodyOf]
    rw [List.cons_append, intercalate_tail]

theorem tailOf_inj : ∀ (xs ys : List Str) (u v : Str), (∀ n ∈ xs, Plain n) → (∀ n ∈ ys, Plain n) →
    tailOf xs ++ u = tailOf ys ++ v → xs = ys ∧ u = v := by
  intro xs
  induction xs with
  | nil =>
    intro ys u v _ _ h
    cases ys with
    | nil => simp [tailOf] at h; exact ⟨rfl, h⟩
    | cons y ys => simp [tailOf] at h
  | cons x xs ih =>
    intro ys u v hx hy h
    cases ys with
    | nil => simp [tailOf] at h
    | cons y ys =>
      simp only [tailOf, List.cons_append, List.nil_append, List.cons.injEq, true_and, List.append_assoc] at h
      have hxq : '\'' ∉ x := fun hm => (hx x (by simp) _ hm).1 rfl
      have hyq : '\'' ∉ y := fun hm => (hy y (by simp) _ hm).1 rfl
      obtain ⟨hxy, ht⟩ := split_at_char '\'' x y _ _ hxq hyq h
      obtain ⟨h1, h2⟩ := ih ys u v (fun n hn => hx n (by simp [hn])) (fun n hn => hy n (by simp [hn])) ht
      exact ⟨by rw [hxy, h1], h2⟩

theorem bodyOf_inj (xs ys : List Str) (u v : Str) (hx : ∀ n ∈ xs, Plain n) (hy : ∀ n ∈ ys, Plain n)
    (h : bodyOf xs ++ u = bodyOf ys ++ v) : xs = ys ∧ u = v := by
  cases xs with
  | nil =>
    cases ys with
    | nil => simp [bodyOf] at h; exact ⟨rfl, h⟩
    | cons y ys => simp [bodyOf] at h
  | cons x xs =>
    cases ys with
    | nil => simp [bodyOf] at h
    | cons y ys =>
      simp only [bodyOf, List.cons_append, List.cons.injEq, true_and, List.append_assoc] at h
      have hxq : '\'' ∉ x := fun hm => (hx x (by simp) _ hm).1 rfl
      have hyq : '\'' ∉ y := fun hm => (hy y (by simp) _ hm).1 rfl
      obtain ⟨hxy, ht⟩ := split_at_char '\'' x y _ _ hxq hyq h
      obtain ⟨h1, h2⟩ := tailOf_inj xs ys u v (fun n hn => hx n (by simp [hn])) (fun n hn => hy n (by simp [hn])) ht
      exact ⟨by rw [hxy, h1], h2⟩

/-- the rendering of the list of input names is injective on plain names (proved, not assumed) -/
theorem reprNames_inj (xs ys : List Str) (hx : ∀ n ∈ xs, Plain n) (hy : ∀ n ∈ ys, Plain n)
    (h : reprNames xs = reprNames ys) : xs = ys := by
  rw [reprNames_plain xs hx, reprNames_plain ys hy] at h
  exact (bodyOf_inj xs ys [] [] hx hy (by simpa using h)).1

theorem reprAll_strs (names : List Str) : reprAll (names.map PyVal.str) = names.map reprStr := by
  induction names with
  | nil => rfl
  | cons n ns ih => simp [reprAll, PyVal.repr, ih]

theorem renderStatics_plain (names : List Str) (h : ∀ n ∈ names, Plain n) :
    renderStatics (names.map PyVal.str, []) = '[' :: bodyOf names ++ ['{', '}'] := by
  have := reprNames_plain names h
  simp only [reprNames] at this
  simp only [renderStatics, PyVal.repr, reprAll_strs, this, reprDict, List.map_nil, intercalate]
  simp

end Aux

open Aux

/-! ### C14 — names -/

/-- **Determinism**: a node's name is a function of (callable name, statics, input names) alone —
no counter, clock or object identity enters it; building the same computation again gives the
same name (and, inductively over the inputs, the same names throughout the graph). -/
theorem c14_deterministic {σ : Type} (H : Str → Str) (R : σ → Str) (c1 c2 : Comp σ)
    (hf : c1.func.name = c2.func.name) (hs : c1.statics = c2.statics) (hi : c1.inputs = c2.inputs) :
    nodeName H R c1 = nodeName H R c2 := by
  simp [nodeName, render, hf, hs, hi]

example : nodeName (fun s => s.reverse) renderStatics
      { func := { name := "sum".toList, ident := 1 }, statics := ([.str "input0".toList], []), inputs := ["a:1".toList] }
    = nodeName (fun s => s.reverse) renderStatics
      { func := { name := "sum".toList, ident := 2 }, statics := ([.str "input0".toList], []), inputs := ["a:1".toList] } :=
  c14_deterministic _ _ _ _ rfl rfl rfl

/-- **Names identify computations — under the named hypotheses.** If the hash `H` is injective
(sha256 collision freedom — a hypothesis, never an axiom), the statics' rendering can be read back
for these two nodes (`hR`; implied by `UniquelyDecodable R`), the callables' names contain no `:` (identifiers, `<lambda>`) and distinguish the two
callables, and the input names are plain (no quote or backslash: true of `<name>:<hex>` names),
then equal node names ⇒ the same callable, the same statics and the same inputs. Hence a union
of actions de-duplicates only equal computations and lowering by name is unambiguous. -/
theorem c14_injective_partial {σ : Type} (H : Str → Str) (hH : Function.Injective H)
    (R : σ → Str) (c1 c2 : Comp σ)
    (hR : ∀ s t : Str, R c1.statics ++ s = R c2.statics ++ t → c1.statics = c2.statics ∧ s = t)
    (hc1 : ':' ∉ c1.func.name) (hc2 : ':' ∉ c2.func.name)
    (hname : c1.func.name = c2.func.name → c1.func = c2.func)
    (hp1 : ∀ n ∈ c1.inputs, Plain n) (hp2 : ∀ n ∈ c2.inputs, Plain n)
    (h : nodeName H R c1 = nodeName H R c2) :
    c1.func = c2.func ∧ c1.statics = c2.statics ∧ c1.inputs = c2.inputs := by
  simp only [nodeName] at h
  obtain ⟨hn, hh⟩ := split_at_char ':' _ _ _ _ hc1 hc2 h
  have hfunc := hname hn
  have hr : render R c1 = render R c2 := hH hh
  simp only [render, hn, List.append_assoc] at hr
  have hr' := List.append_cancel_left hr
  obtain ⟨hs, hi⟩ := hR _ _ hr'
  exact ⟨hfunc, hs, reprNames_inj _ _ hp1 hp2 hi⟩

/-- non-vacuity: the hypotheses are jointly satisfiable — `H = id` is injective, a statics type with
one value is uniquely decodable, and the theorem then separates two nodes with different inputs -/
example :
    let c1 : Comp Unit := { func := { name := "sum".toList, ident := 1 }, statics := (), inputs := ["a:1f".toList] }
    let c2 : Comp Unit := { func := { name := "sum".toList, ident := 1 }, statics := (), inputs := ["b:2e".toList] }
    nodeName id (fun _ => []) c1 ≠ nodeName id (fun _ => []) c2 := by
  intro c1 c2 h
  have hR : UniquelyDecodable (fun (_ : Unit) => ([] : Str)) := by
    intro x y s t hst; exact ⟨rfl, by simpa using hst⟩
  have hplain : ∀ (w : Str), (w = "a:1f".toList ∨ w = "b:2e".toList) → Plain w := by
    intro w hw c hc
    rcases hw with hw | hw <;> subst hw <;> simp at hc <;> rcases hc with h | h | h | h <;> subst h <;> decide
  have := c14_injective_partial id (fun _ _ h => h) _ c1 c2 (hR _ _) (by decide) (by decide) (fun _ => rfl)
    (by intro n hn; exact hplain n (Or.inl (by simpa [c1] using hn)))
    (by intro n hn; exact hplain n (Or.inr (by simpa [c2] using hn))) h
  exact absurd this.2.2 (by decide)


/-- the static part of a payload that only names its inputs (every `reduce`/`map` node built from
a bare callable: args = `['input0', …]`, no kwargs) -/
def PlainArgs (s : Statics) : Prop := ∃ names : List Str, s = (names.map PyVal.str, []) ∧ ∀ n ∈ names, Plain n

/-- **…and for payloads that only name their inputs nothing about `repr` is assumed**: the
concrete Python rendering `"['input0', 'input1']{}"` is proved to be readable back, so for such
nodes equal names ⇒ equal (callable, statics, inputs) under the hash and `__name__` hypotheses only. -/
theorem c14_injective_plain_partial (H : Str → Str) (hH : Function.Injective H) (c1 c2 : Comp Statics)
    (ha1 : PlainArgs c1.statics) (ha2 : PlainArgs c2.statics)
    (hc1 : ':' ∉ c1.func.name) (hc2 : ':' ∉ c2.func.name)
    (hname : c1.func.name = c2.func.name → c1.func = c2.func)
    (hp1 : ∀ n ∈ c1.inputs, Plain n) (hp2 : ∀ n ∈ c2.inputs, Plain n)
    (h : nodeName H renderStatics c1 = nodeName H renderStatics c2) :
    c1.func = c2.func ∧ c1.statics = c2.statics ∧ c1.inputs = c2.inputs := by
  apply c14_injective_partial H hH renderStatics c1 c2 ?_ hc1 hc2 hname hp1 hp2 h
  intro s t hst
  obtain ⟨n1, e1, p1⟩ := ha1
  obtain ⟨n2, e2, p2⟩ := ha2
  rw [e1, e2, renderStatics_plain n1 p1, renderStatics_plain n2 p2] at hst
  simp only [List.cons_append, List.cons.injEq, true_and, List.append_assoc] at hst
  obtain ⟨hn, hs⟩ := bodyOf_inj n1 n2 _ _ p1 p2 hst
  refine ⟨by rw [e1, e2, hn], ?_⟩
  simpa using hs

example : PlainArgs ([.str "input0".toList, .str "input1".toList], []) := by
  refine ⟨["input0".toList, "input1".toList], rfl, ?_⟩
  intro n hn c hc
  simp at hn
  rcases hn with hn | hn <;> subst hn <;> simp at hc <;> rcases hc with h | h | h | h | h | h <;> subst h <;> decide

/-- **The full statement is false**: without "callables are distinguished by `__name__`" two
different callables (two lambdas; two functions both called `f`) with the same statics over the
same inputs get the same name — whatever `H` and `R` are. -/
theorem c14_full_fails {σ : Type} [Inhabited σ] (H : Str → Str) (R : σ → Str) :
    ¬ (∀ c1 c2 : Comp σ, nodeName H R c1 = nodeName H R c2 → c1.func = c2.func) := by
  intro hall
  have := hall { func := { name := "<lambda>".toList, ident := 0 }, statics := default, inputs := [] }
               { func := { name := "<lambda>".toList, ident := 1 }, statics := default, inputs := [] } rfl
  simp at this

/-! ### C14 — operands stay intact -/

/-- **Operations leave operands intact** (model level): whatever operation is applied to the
store of live actions — join with `match_coord_values`, broadcast, arithmetic between actions,
stack/concatenate on a size-1 dimension, reduce, select — every action that existed before is
still there, unchanged, at its place; at most one action is added. -/
theorem c14_operands_intact (st : List Fluent.NodeArray) (op : FOp) :
    (∀ k, k < st.length → (step st op)[k]? = st[k]?) ∧
    st.length ≤ (step st op).length ∧ (step st op).length ≤ st.length + 1 := by
  unfold step
  split
  · refine ⟨?_, by simp, by simp⟩
    intro k hk
    simp [List.getElem?_append_left hk]
  · exact ⟨fun _ _ => rfl, Nat.le_refl _, by omega⟩

example : (step [Fluent.fromSource [("d0", [.int 0])] 0, Fluent.fromSource [("d0", [.int 5])] 1]
    (.join 0 1 (.name "w") true)).length = 3 := by decide

end EkwVerif.Names
