/-
C02, clause (g), executor layer: "a worker never starts the task before all of those datasets have ACTUALLY arrived
on its host" — for ONE host of the cluster (`Model/ExecLayer.lean`: the executor's forwarding and fan-out, the purge filter
on `Executor.datasets`, the workers' wait loops composed with `execute_sequence`/`Memory.handle`, the data server's store jobs,
the shm at the level of key status) and EVERY interleaving of these actors at their pause points, every order in which a
receiver reads its queued messages, and every traffic a controller and the network can produce (`Pick.ctrl`, `Pick.net` are
unconstrained adversaries; the controller theorems C02/C04 are NOT assumed except where a hypothesis says so).

* `c02_exec_inputs_arrived`  — at every entry into `execute_sequence` every dataset the sequence requires (computed as
  entrypoint.py does) HAS BEEN completely written (allocate, write, close) into the shm of this host before. Any traffic.
* `c02_exec_inputs_readable` — and is READABLE there at that moment, when the controller keeps `ctrlOK`: no purge of a dataset
  that a not yet started sequence on this host requires, no sequence that requires a dataset purged from this host (what
  C04 proves of the real controller: `c04_no_purge_while_running`, `c04_never_needed_again`).
  `c02_exec_inputs_readable_full_fails`: without that hypothesis a purge can overtake (decided witness, replayed on the real
  code by the check).
* `c02_exec_announced_after_write` — the mechanism: whatever says "d is published" anywhere on the host (executor queue,
  worker inbox, a worker's `availab_ds`, `Executor.datasets`, what went up to the controller) refers to a dataset completely
  written before: Memory.handle and DataServer.store_payload announce AFTER write and close.
* `c02_exec_written_stays_readable` — a written dataset stays readable until the controller commands its purge; a purge
  reaches the data server only if the controller commanded it (purge filter and forwarding).
* `c02_exec_named_worker` — a worker enters `execute_sequence` only for a sequence the controller addressed to that worker.
* `c02_gpu_*` — the worker with index i is registered with a GPU iff i < CASCADE_GPU_COUNT and sees exactly device i
  (CUDA_VISIBLE_DEVICES = str(i)); distinct workers see distinct devices. (Before the repair: `",".join(str(i))`, worker 12
  saw devices 1 and 2 — the last `example`.)
-/
import EkwVerif.Model.ExecLayer
import EkwVerif.Props.C02Worker

namespace EkwVerif.ExecLayer
open EkwVerif.Worker

/-- the invariant of the layer (all traffic) -/
structure Inv (s : Host) : Prop where
  xq_pub : ∀ d f, XMsg.published d f ∈ s.xq → d ∈ s.ever
  inbox_pub : ∀ k d, WMsg.published d ∈ (s.wk k).inbox → d ∈ s.ever
  winv : ∀ k, InvP (· ∈ s.ever) (s.wk k).w
  run_ann : ∀ k d st, Instr.pub d st ∈ (s.wk k).run → 2 ≤ st → d ∈ s.ever
  job_ann : ∀ d st, (d, st) ∈ s.jobs → 2 ≤ st → d ∈ s.ever
  log_ever : ∀ e, e ∈ s.execLog → ∀ d, d ∈ e.req → d ∈ e.ever
  log_req : ∀ e, e ∈ s.execLog → e.req = required s.job e.ts
  pend_ok : ∀ k id req, (s.wk k).w.waiting = some (id, req) →
    ∃ ts pub, (s.wk k).pend = some (ts, pub) ∧ req = required s.job ts ∧ CtrlMsg.task k id ts pub ∈ s.sentC
  run_nowait : ∀ k, (s.wk k).run ≠ [] → (s.wk k).w.waiting = none
  ctrl_pub : ∀ d f, CMsg.published d f ∈ s.toCtrl → d ∈ s.ever
  datasets_ever : ∀ d, d ∈ s.datasets → d ∈ s.ever
  ever_shm : ∀ d, d ∈ s.ever → d ∉ s.purgedC → d ∈ s.shmR
  xq_purge : ∀ d, XMsg.purge d ∈ s.xq → d ∈ s.purgedC
  dq_purge : ∀ d, DMsg.purge d ∈ s.dq → d ∈ s.purgedC
  xq_task : ∀ k id ts pub, XMsg.task k id ts pub ∈ s.xq → CtrlMsg.task k id ts pub ∈ s.sentC
  inbox_task : ∀ k id ts pub, WMsg.task id ts pub ∈ (s.wk k).inbox → CtrlMsg.task k id ts pub ∈ s.sentC
  log_sent : ∀ e, e ∈ s.execLog → ∃ id pub, CtrlMsg.task e.k id e.ts pub ∈ s.sentC

/-- `s'` differs from `s` only in the private memory of worker `k` (loc, bufs, cur, run; `pend` may be reset) and in
TaskFailure reports appended to the executor's queue -/
structure WFrame (k : Nat) (s s' : Host) : Prop where
  job : s'.job = s.job
  nW : s'.nW = s.nW
  xdead : s'.xdead = s.xdead
  datasets : s'.datasets = s.datasets
  dq : s'.dq = s.dq
  invalid : s'.invalid = s.invalid
  jobs : s'.jobs = s.jobs
  shmR : s'.shmR = s.shmR
  shmW : s'.shmW = s.shmW
  ever : s'.ever = s.ever
  purgedC : s'.purgedC = s.purgedC
  execLog : s'.execLog = s.execLog
  toCtrl : s'.toCtrl = s.toCtrl
  sentC : s'.sentC = s.sentC
  xq : ∃ extra, s'.xq = s.xq ++ extra ∧ ∀ m, m ∈ extra → ∃ t, m = XMsg.taskFail k t
  other : ∀ i, i ≠ k → s'.wk i = s.wk i
  w : (s'.wk k).w = (s.wk k).w
  inbox : (s'.wk k).inbox = (s.wk k).inbox
  pend : (s'.wk k).pend = (s.wk k).pend ∨ (s'.wk k).pend = none

namespace Aux

theorem wframe_refl (k : Nat) (s : Host) : WFrame k s s :=
  ⟨rfl, rfl, rfl, rfl, rfl, rfl, rfl, rfl, rfl, rfl, rfl, rfl, rfl, rfl, ⟨[], by simp, by simp⟩, fun _ _ => rfl, rfl, rfl, Or.inl rfl⟩

theorem wframe_trans (k : Nat) (s s1 s2 : Host) (h1 : WFrame k s s1) (h2 : WFrame k s1 s2) : WFrame k s s2 := by
  obtain ⟨e1, he1, hf1⟩ := h1.xq
  obtain ⟨e2, he2, hf2⟩ := h2.xq
  refine ⟨by rw [h2.job, h1.job], by rw [h2.nW, h1.nW], by rw [h2.xdead, h1.xdead], by rw [h2.datasets, h1.datasets],
    by rw [h2.dq, h1.dq], by rw [h2.invalid, h1.invalid], by rw [h2.jobs, h1.jobs], by rw [h2.shmR, h1.shmR],
    by rw [h2.shmW, h1.shmW], by rw [h2.ever, h1.ever], by rw [h2.purgedC, h1.purgedC], by rw [h2.execLog, h1.execLog],
    by rw [h2.toCtrl, h1.toCtrl], by rw [h2.sentC, h1.sentC], ?_, ?_, by rw [h2.w, h1.w], by rw [h2.inbox, h1.inbox], ?_⟩
  · refine ⟨e1 ++ e2, by rw [he2, he1, List.append_assoc], ?_⟩
    intro m hm
    rcases List.mem_append.mp hm with h | h
    · exact hf1 m h
    · exact hf2 m h
  · intro i hi; rw [h2.other i hi, h1.other i hi]
  · rcases h2.pend with h | h
    · rw [h]; exact h1.pend
    · exact Or.inr h

/-- a change of worker k's private memory only -/
theorem wframe_set (s : Host) (k : Nat) (ws' : WS) (hw : ws'.w = (s.wk k).w) (hi : ws'.inbox = (s.wk k).inbox)
    (hp : ws'.pend = (s.wk k).pend ∨ ws'.pend = none) :
    WFrame k s (setW s k ws') := by
  refine ⟨rfl, rfl, rfl, rfl, rfl, rfl, rfl, rfl, rfl, rfl, rfl, rfl, rfl, rfl, ⟨[], by simp [setW], by simp⟩, ?_, ?_, ?_, ?_⟩
  · intro i hi; simp [setW, hi]
  all_goals simp [setW, *]

theorem failSeq_frame (s : Host) (k : Nat) : WFrame k s (failSeq s k).1 := by
  refine ⟨rfl, rfl, rfl, rfl, rfl, rfl, rfl, rfl, rfl, rfl, rfl, rfl, rfl, rfl, ⟨[XMsg.taskFail k (s.wk k).cur], by simp [failSeq, setW], by simp⟩, ?_, ?_, ?_, ?_⟩
  · intro i hi; simp [failSeq, setW, hi]
  all_goals simp [failSeq, setW]

theorem failSeq_run (s : Host) (k : Nat) : ((failSeq s k).1.wk k).run = [] := by simp [failSeq, setW]

theorem cont_frame (s : Host) (k : Nat) (is : List Instr) : WFrame k s (cont s k is).1 := by
  induction is generalizing s with
  | nil =>
    simp only [cont]
    exact wframe_set s k _ rfl rfl (Or.inr rfl)
  | cons i rest ih =>
    cases i with
    | pub d st => simp only [cont]; exact wframe_set s k _ rfl rfl (Or.inl rfl)
    | begin t => simp only [cont]; refine wframe_trans k s _ _ ?_ (ih _); exact wframe_set s k _ rfl rfl (Or.inl rfl)
    | prov d =>
      simp only [cont]
      split
      · exact ih s
      · split
        · exact failSeq_frame s k
        · split
          · refine wframe_trans k s _ _ ?_ (ih _); exact wframe_set s k _ rfl rfl (Or.inl rfl)
          · exact failSeq_frame s k
    | fail => simp only [cont]; exact failSeq_frame s k
    | keep d => simp only [cont]; refine wframe_trans k s _ _ ?_ (ih _); exact wframe_set s k _ rfl rfl (Or.inl rfl)
    | flush => simp only [cont]; refine wframe_trans k s _ _ ?_ (ih _); exact wframe_set s k _ rfl rfl (Or.inl rfl)

theorem cont_run (s : Host) (k : Nat) (is : List Instr) : ∀ i, i ∈ ((cont s k is).1.wk k).run → i ∈ is := by
  induction is generalizing s with
  | nil => simp [cont, setW]
  | cons i rest ih =>
    have hsub : ∀ s' : Host, ∀ x, x ∈ ((cont s' k rest).1.wk k).run → x ∈ i :: rest :=
      fun s' x hx => List.mem_cons_of_mem _ (ih s' x hx)
    cases i with
    | pub d st => simp [cont, setW]
    | begin t => simp only [cont]; exact hsub _
    | prov d =>
      simp only [cont]
      split
      · exact hsub _
      · split
        · simp [failSeq_run]
        · split
          · exact hsub _
          · simp [failSeq_run]
    | fail => simp [cont, failSeq_run]
    | keep d => simp only [cont]; exact hsub _
    | flush => simp only [cont]; exact hsub _

theorem provideLoop_frame (s : Host) (k : Nat) (ds : List Ds) (r : Host × List Op) (h : provideLoop s k ds = some r) :
    WFrame k s r.1 ∧ (r.1.wk k).run = (s.wk k).run ∧ (r.1.wk k).pend = (s.wk k).pend := by
  induction ds generalizing s r with
  | nil => simp [provideLoop] at h; subst h; exact ⟨wframe_refl k s, rfl, rfl⟩
  | cons d ds ih =>
    unfold provideLoop at h
    simp only at h
    split at h
    · exact ih s r h
    · split at h
      · simp at h
      · split at h
        · split at h
          · rename_i r' hr'
            simp only [Option.some.injEq] at h
            subst h
            have := ih _ r' hr'
            refine ⟨wframe_trans k s _ _ ?_ this.1, ?_, ?_⟩
            · exact wframe_set s k _ rfl rfl (Or.inl rfl)
            · rw [this.2.1]; simp [setW]
            · rw [this.2.2]; simp [setW]
          · simp at h
        · simp at h

theorem frame_wk (k : Nat) (s s' : Host) (f : WFrame k s s') (i : Nat) :
    (s'.wk i).w = (s.wk i).w ∧ (s'.wk i).inbox = (s.wk i).inbox := by
  by_cases hi : i = k
  · subst hi; exact ⟨f.w, f.inbox⟩
  · rw [f.other i hi]; exact ⟨rfl, rfl⟩

theorem frame_inv (k : Nat) (s s' : Host) (f : WFrame k s s') (h : Inv s)
    (hr : ∀ d st, Instr.pub d st ∈ (s'.wk k).run → 2 ≤ st → d ∈ s.ever)
    (hn : (s'.wk k).run ≠ [] → (s.wk k).w.waiting = none)
    (hp : (s'.wk k).pend = (s.wk k).pend ∨ (s.wk k).w.waiting = none) : Inv s' := by
  obtain ⟨extra, hx, hxf⟩ := f.xq
  have hwk := frame_wk k s s' f
  refine ⟨?_, ?_, ?_, ?_, ?_, ?_, ?_, ?_, ?_, ?_, ?_, ?_, ?_, ?_, ?_, ?_, ?_⟩
  · intro d fl hm
    rw [hx] at hm
    rw [f.ever]
    rcases List.mem_append.mp hm with h1 | h1
    · exact h.xq_pub d fl h1
    · obtain ⟨t, ht⟩ := hxf _ h1; cases ht
  · intro i d hm
    rw [(hwk i).2] at hm
    rw [f.ever]; exact h.inbox_pub i d hm
  · intro i
    rw [(hwk i).1, f.ever]; exact h.winv i
  · intro i d st hm hst
    rw [f.ever]
    by_cases hi : i = k
    · subst hi; exact hr d st hm hst
    · rw [f.other i hi] at hm; exact h.run_ann i d st hm hst
  · intro d st hm hst; rw [f.jobs] at hm; rw [f.ever]; exact h.job_ann d st hm hst
  · intro e he; rw [f.execLog] at he; exact h.log_ever e he
  · intro e he; rw [f.execLog] at he; rw [f.job]; exact h.log_req e he
  · intro i id req hw
    rw [(hwk i).1] at hw
    rw [f.job, f.sentC]
    by_cases hi : i = k
    · subst hi
      rcases hp with hp | hp
      · rw [hp]; exact h.pend_ok i id req hw
      · rw [hp] at hw; cases hw
    · rw [f.other i hi]; exact h.pend_ok i id req hw
  · intro i hne
    rw [(hwk i).1]
    by_cases hi : i = k
    · subst hi; exact hn hne
    · rw [f.other i hi] at hne; exact h.run_nowait i hne
  · intro d fl hm; rw [f.toCtrl] at hm; rw [f.ever]; exact h.ctrl_pub d fl hm
  · intro d hm; rw [f.datasets] at hm; rw [f.ever]; exact h.datasets_ever d hm
  · intro d hm hn'; rw [f.ever] at hm; rw [f.purgedC] at hn'; rw [f.shmR]; exact h.ever_shm d hm hn'
  · intro d hm
    rw [hx] at hm
    rw [f.purgedC]
    rcases List.mem_append.mp hm with h1 | h1
    · exact h.xq_purge d h1
    · obtain ⟨t, ht⟩ := hxf _ h1; cases ht
  · intro d hm; rw [f.dq] at hm; rw [f.purgedC]; exact h.dq_purge d hm
  · intro i id ts pub hm
    rw [hx] at hm
    rw [f.sentC]
    rcases List.mem_append.mp hm with h1 | h1
    · exact h.xq_task i id ts pub h1
    · obtain ⟨t, ht⟩ := hxf _ h1; cases ht
  · intro i id ts pub hm
    rw [(hwk i).2] at hm
    rw [f.sentC]; exact h.inbox_task i id ts pub hm
  · intro e he; rw [f.execLog] at he; rw [f.sentC]; exact h.log_sent e he

theorem outInstrs_no_ann (pub : List Ds) (fa : Option Nat) (t k : Nat) (d : Ds) (st : Nat) (hst : 2 ≤ st) :
    Instr.pub d st ∉ outInstrs pub fa t k := by
  unfold outInstrs
  intro h
  simp only [List.mem_append, List.mem_cons, List.not_mem_nil, or_false] at h
  rcases h with (h | h) | h
  · split at h <;> simp at h
  · cases h
  · split at h
    · simp at h; omega
    · simp at h

theorem instrs_no_ann (j : Job) (ts : List Nat) (pub : List Ds) (d : Ds) (st : Nat) (hst : 2 ≤ st) :
    Instr.pub d st ∉ instrsOf j ts pub := by
  unfold instrsOf instrsOfTask
  intro h
  simp only [List.mem_append, List.mem_flatMap, List.mem_cons, List.mem_map, List.not_mem_nil, or_false, List.mem_range] at h
  rcases h with ⟨t, _, h⟩ | h
  · rcases h with ((h | ⟨a, _, h⟩) | ⟨k, _, h⟩) | h
    · cases h
    · cases h
    · exact outInstrs_no_ann _ _ _ _ _ _ hst h
    · split at h <;> simp at h
  · cases h

theorem terminate_inv (s : Host) (h : Inv s) : Inv (terminate s).1 := by
  obtain ⟨h1, h2, h3, h4, h5, h6, h7, h8, h9, h10, h11, h12, h13, h14, h15, h16, h17⟩ := h
  constructor <;> simp only [terminate, toAll] <;> try assumption
  all_goals grind

theorem xFail_inv (s : Host) (why : String) (pre : List Op) (h : Inv s) : Inv (xFail s why pre).1 := by
  apply terminate_inv
  obtain ⟨h1, h2, h3, h4, h5, h6, h7, h8, h9, h10, h11, h12, h13, h14, h15, h16, h17⟩ := h
  constructor <;> simp only [upC] <;> try assumption
  all_goals grind

theorem health_inv (s : Host) (pre : List Op) (h : Inv s) : Inv (health s pre).1 := by
  unfold health
  split
  · exact xFail_inv s _ _ h
  · exact h

theorem ctrl_inv (s : Host) (m : CtrlMsg) (h : Inv s) : Inv (pick s (.ctrl m)).1 := by
  obtain ⟨h1, h2, h3, h4, h5, h6, h7, h8, h9, h10, h11, h12, h13, h14, h15, h16, h17⟩ := h
  cases m <;> (constructor <;> simp only [pick, CtrlMsg.toX] <;> try assumption) <;> grind [Worker.Aux.mem_addSet]

theorem net_inv (s : Host) (d : Ds) (h : Inv s) : Inv (pick s (.net d)).1 := by
  obtain ⟨h1, h2, h3, h4, h5, h6, h7, h8, h9, h10, h11, h12, h13, h14, h15, h16, h17⟩ := h
  constructor <;> simp only [pick] <;> try assumption
  all_goals grind

theorem xPick_inv (s : Host) (i : Nat) (h : Inv s) : Inv (xPick s i).1 := by
  unfold xPick
  split
  · exact h
  · split
    · exact h
    · rename_i m hm
      have hmem : m ∈ s.xq := List.mem_of_getElem? hm
      have her : ∀ x, x ∈ s.xq.eraseIdx i → x ∈ s.xq := fun x hx => List.mem_of_mem_eraseIdx hx
      obtain ⟨h1, h2, h3, h4, h5, h6, h7, h8, h9, h10, h11, h12, h13, h14, h15, h16, h17⟩ := h
      have h0 : Inv { s with xq := s.xq.eraseIdx i } := by
        constructor <;> simp only <;> try assumption
        all_goals grind
      cases m with
      | task k id ts pub =>
        simp only
        split
        · split
          · exact xFail_inv _ _ _ h0
          · apply health_inv
            obtain ⟨g1, g2, g3, g4, g5, g6, g7, g8, g9, g10, g11, g12, g13, g14, g15, g16, g17⟩ := h0
            constructor <;> simp only [setW] <;> try assumption
            all_goals grind
        · exact xFail_inv _ _ _ h0
      | purge d =>
        simp only
        have hd : d ∈ s.purgedC := h13 d hmem
        split
        · apply health_inv
          obtain ⟨g1, g2, g3, g4, g5, g6, g7, g8, g9, g10, g11, g12, g13, g14, g15, g16, g17⟩ := h0
          constructor <;> simp only [toAll] <;> try assumption
          all_goals grind
        · exact health_inv _ _ h0
      | shutdown =>
        simp only
        apply terminate_inv
        obtain ⟨g1, g2, g3, g4, g5, g6, g7, g8, g9, g10, g11, g12, g13, g14, g15, g16, g17⟩ := h0
        constructor <;> simp only [upC] <;> try assumption
        all_goals grind
      | published d f =>
        simp only
        have hd : d ∈ s.ever := h1 d f hmem
        apply health_inv
        obtain ⟨g1, g2, g3, g4, g5, g6, g7, g8, g9, g10, g11, g12, g13, g14, g15, g16, g17⟩ := h0
        constructor <;> simp only [upC, toAll] <;> try assumption
        all_goals grind [Worker.Aux.mem_addSet]
      | taskFail k t =>
        simp only
        apply health_inv
        obtain ⟨g1, g2, g3, g4, g5, g6, g7, g8, g9, g10, g11, g12, g13, g14, g15, g16, g17⟩ := h0
        constructor <;> simp only [upC] <;> try assumption
        all_goals grind
      | transmitFail =>
        simp only
        apply health_inv
        obtain ⟨g1, g2, g3, g4, g5, g6, g7, g8, g9, g10, g11, g12, g13, g14, g15, g16, g17⟩ := h0
        constructor <;> simp only [upC] <;> try assumption
        all_goals grind

theorem invP_mono (P P' : Ds → Prop) (w : W) (hm : ∀ d, P d → P' d) (h : InvP P w) : InvP P' w :=
  ⟨fun d hd => hm d (h.avail_p d hd), fun id req hw d hd => (h.wait_p id req hw d hd).imp (fun x => x) (hm d), h.missing_wait⟩

theorem dPick_inv (s : Host) (i : Nat) (h : Inv s) : Inv (dPick s i).1 := by
  unfold dPick
  split
  · exact h
  · rename_i m hm
    split
    · exact h
    · have hmem : m ∈ s.dq := List.mem_of_getElem? hm
      have her : ∀ x, x ∈ s.dq.eraseIdx i → x ∈ s.dq := fun x hx => List.mem_of_mem_eraseIdx hx
      obtain ⟨h1, h2, h3, h4, h5, h6, h7, h8, h9, h10, h11, h12, h13, h14, h15, h16, h17⟩ := h
      cases m with
      | payload d =>
        simp only
        split
        · constructor <;> simp only <;> try assumption
          all_goals grind
        · constructor <;> simp only <;> try assumption
          all_goals grind
      | purge d =>
        simp only
        have hd : d ∈ s.purgedC := h14 d hmem
        constructor <;> simp only [shmPurge] <;> try assumption
        all_goals grind

theorem jPick_inv (s : Host) (i : Nat) (h : Inv s) : Inv (jPick s i).1 := by
  unfold jPick
  split
  · exact h
  · rename_i d st hm
    have hmem : (d, st) ∈ s.jobs := List.mem_of_getElem? hm
    have her : ∀ x, x ∈ s.jobs.eraseIdx i → x ∈ s.jobs := fun x hx => List.mem_of_mem_eraseIdx hx
    have hset : ∀ x v, x ∈ s.jobs.set i v → x ∈ s.jobs ∨ x = v := by
      intro x v hx
      rcases List.mem_or_eq_of_mem_set hx with h | h
      · exact Or.inl h
      · exact Or.inr h
    obtain ⟨h1, h2, h3, h4, h5, h6, h7, h8, h9, h10, h11, h12, h13, h14, h15, h16, h17⟩ := h
    split
    · split
      · constructor <;> simp only [shmAlloc] <;> try assumption
        all_goals grind
      · constructor <;> simp only <;> try assumption
        all_goals grind
    · split
      · have h3' : ∀ k, InvP (· ∈ addSet s.ever d) (s.wk k).w :=
          fun k => invP_mono _ _ _ (fun x hx => (Worker.Aux.mem_addSet _ _ _).mpr (Or.inl hx)) (h3 k)
        constructor <;> simp only [shmClose] <;> try assumption
        all_goals grind [Worker.Aux.mem_addSet]
      · constructor <;> simp only <;> try assumption
        all_goals grind
    · rename_i hne0 hne1
      have hst2 : 2 ≤ st := by
        rcases st with _ | _ | st
        · exact absurd rfl hne0
        · exact absurd rfl hne1
        · omega
      have hd : d ∈ s.ever := h5 d st hmem hst2
      constructor <;> simp only <;> try assumption
      all_goals grind

theorem cont_inv (s : Host) (k : Nat) (is : List Instr) (h : Inv s)
    (hr : ∀ d st, Instr.pub d st ∈ is → 2 ≤ st → d ∈ s.ever) (hw : (s.wk k).w.waiting = none) : Inv (cont s k is).1 :=
  frame_inv k s _ (cont_frame s k is) h (fun d st hm hst => hr d st (cont_run s k is _ hm) hst) (fun _ => hw) (Or.inr hw)

theorem failSeq_inv (s : Host) (k : Nat) (h : Inv s) (hw : (s.wk k).w.waiting = none) : Inv (failSeq s k).1 :=
  frame_inv k s _ (failSeq_frame s k) h (fun d st hm _ => by rw [failSeq_run] at hm; cases hm) (fun _ => hw) (Or.inr hw)

theorem wRun_inv (s : Host) (k : Nat) (d : Ds) (st : Nat) (rest : List Instr) (h : Inv s)
    (hrun : (s.wk k).run = Instr.pub d st :: rest) : Inv (wRun s k d st rest).1 := by
  have hw : (s.wk k).w.waiting = none := h.run_nowait k (by rw [hrun]; simp)
  have hrest : ∀ d' st', Instr.pub d' st' ∈ rest → 2 ≤ st' → d' ∈ s.ever :=
    fun d' st' hm hst => h.run_ann k d' st' (by rw [hrun]; exact List.mem_cons_of_mem _ hm) hst
  unfold wRun
  simp only
  split
  · split
    · obtain ⟨h1, h2, h3, h4, h5, h6, h7, h8, h9, h10, h11, h12, h13, h14, h15, h16, h17⟩ := h
      constructor <;> simp only [setW, shmAlloc] <;> try assumption
      all_goals grind
    · exact failSeq_inv s k h hw
  · split
    · obtain ⟨h1, h2, h3, h4, h5, h6, h7, h8, h9, h10, h11, h12, h13, h14, h15, h16, h17⟩ := h
      have h3' : ∀ k, InvP (· ∈ addSet s.ever d) (s.wk k).w :=
        fun k => invP_mono _ _ _ (fun x hx => (Worker.Aux.mem_addSet _ _ _).mpr (Or.inl hx)) (h3 k)
      constructor <;> simp only [setW, shmClose] <;> try assumption
      all_goals grind [Worker.Aux.mem_addSet]
    · exact failSeq_inv s k h hw
  · rename_i hne0 hne1
    have hst2 : 2 ≤ st := by
      rcases st with _ | _ | st
      · exact absurd rfl hne0
      · exact absurd rfl hne1
      · omega
    have hd : d ∈ s.ever := h.run_ann k d st (by rw [hrun]; simp) hst2
    show Inv (cont { s with xq := s.xq ++ [XMsg.published d false] } k rest).1
    refine cont_inv { s with xq := s.xq ++ [XMsg.published d false] } k rest ?_ hrest hw
    obtain ⟨h1, h2, h3, h4, h5, h6, h7, h8, h9, h10, h11, h12, h13, h14, h15, h16, h17⟩ := h
    constructor <;> simp only <;> try assumption
    all_goals grind

theorem step_published_cases (w w' : W) (o : Out) (d : Ds) (hs : step w (.published d) = (w', o)) :
    (o = .nothing ∧ w'.waiting = w.waiting) ∨ (∃ l, o = .provided l ∧ w'.waiting = w.waiting) ∨
    (∃ id, o = .executed id ∧ w'.waiting = none ∧ ∃ req, w.waiting = some (id, req)) := by
  simp only [step] at hs
  split at hs
  · cases hw : w.waiting with
    | none =>
      simp only [hw, Prod.mk.injEq] at hs
      obtain ⟨rfl, rfl⟩ := hs
      exact Or.inr (Or.inl ⟨_, rfl, hw.symm ▸ rfl⟩)
    | some p =>
      obtain ⟨id, req⟩ := p
      simp only [hw] at hs
      split at hs
      · simp only [Prod.mk.injEq] at hs
        obtain ⟨rfl, rfl⟩ := hs
        exact Or.inr (Or.inr ⟨id, rfl, rfl, req, rfl⟩)
      · simp only [Prod.mk.injEq] at hs
        obtain ⟨rfl, rfl⟩ := hs
        exact Or.inr (Or.inl ⟨_, rfl, hw.symm ▸ rfl⟩)
  · simp only [Prod.mk.injEq] at hs
    obtain ⟨rfl, rfl⟩ := hs
    exact Or.inl ⟨rfl, rfl⟩

theorem step_task_cases (w w' : W) (o : Out) (id : Nat) (req : List Ds) (hs : step w (.taskSeq id req) = (w', o)) :
    (∃ msg, o = .raised msg ∧ w' = w) ∨ (o = .executed id ∧ w'.waiting = none ∧ w.waiting = none) ∨
    (∃ l, o = .provided l ∧ w'.waiting = some (id, req) ∧ w.waiting = none) := by
  simp only [step] at hs
  cases hw : w.waiting with
  | some p =>
    simp only [hw, Prod.mk.injEq] at hs
    obtain ⟨rfl, rfl⟩ := hs
    exact Or.inl ⟨_, rfl, rfl⟩
  | none =>
    simp only [hw] at hs
    split at hs
    · simp only [Prod.mk.injEq] at hs
      obtain ⟨rfl, rfl⟩ := hs
      exact Or.inr (Or.inl ⟨rfl, rfl, rfl⟩)
    · simp only [Prod.mk.injEq] at hs
      obtain ⟨rfl, rfl⟩ := hs
      exact Or.inr (Or.inr ⟨_, rfl, rfl, rfl⟩)

/-- replace the loop state (and `pend`) of worker k -/
theorem setWw_inv (s : Host) (k : Nat) (w' : W) (pend' : Option (List Nat × List Ds)) (loc' bufs' : List Ds) (h : Inv s)
    (hw : InvP (· ∈ s.ever) w')
    (hp : ∀ id req, w'.waiting = some (id, req) →
      ∃ ts pub, pend' = some (ts, pub) ∧ req = required s.job ts ∧ CtrlMsg.task k id ts pub ∈ s.sentC)
    (hn : (s.wk k).run ≠ [] → w'.waiting = none) :
    Inv (setW s k { s.wk k with w := w', pend := pend', loc := loc', bufs := bufs' }) := by
  obtain ⟨h1, h2, h3, h4, h5, h6, h7, h8, h9, h10, h11, h12, h13, h14, h15, h16, h17⟩ := h
  constructor <;> simp only [setW] <;> try assumption
  all_goals grind

theorem log_inv (s : Host) (e : ExecEntry) (h : Inv s) (he : ∀ d, d ∈ e.req → d ∈ e.ever) (hr : e.req = required s.job e.ts)
    (hs : ∃ id pub, CtrlMsg.task e.k id e.ts pub ∈ s.sentC) :
    Inv { s with execLog := s.execLog ++ [e] } := by
  obtain ⟨h1, h2, h3, h4, h5, h6, h7, h8, h9, h10, h11, h12, h13, h14, h15, h16, h17⟩ := h
  constructor <;> simp only <;> try assumption
  all_goals grind

theorem startSeq_inv (s : Host) (k : Nat) (ts : List Nat) (pub req : List Ds) (h : Inv s)
    (he : ∀ d, d ∈ req → d ∈ s.ever) (hr : req = required s.job ts) (hw : (s.wk k).w.waiting = none)
    (hs : ∃ id pub', CtrlMsg.task k id ts pub' ∈ s.sentC) :
    Inv (startSeq s k ts pub req).1 := by
  unfold startSeq
  simp only
  refine cont_inv _ k _ (log_inv s _ h he hr hs) ?_ hw
  intro d st hm hst
  exact absurd hm (instrs_no_ann _ _ _ _ _ hst)

theorem die_inv (s : Host) (k : Nat) (why : String) (pre : List Op) (h : Inv s) : Inv (die s k why pre).1 := by
  unfold die
  exact frame_inv k s _ (wframe_set s k _ rfl rfl (Or.inl rfl)) h (by simp [setW]) (by simp [setW]) (Or.inl (by simp [setW]))

theorem provideLoop_inv (s : Host) (k : Nat) (ds : List Ds) (r : Host × List Op) (hp : provideLoop s k ds = some r) (h : Inv s) :
    Inv r.1 ∧ (r.1.wk k).w = (s.wk k).w ∧ (r.1.wk k).run = (s.wk k).run ∧ (r.1.wk k).pend = (s.wk k).pend ∧ r.1.ever = s.ever ∧ r.1.job = s.job ∧ r.1.sentC = s.sentC := by
  obtain ⟨f, hr, hpd⟩ := provideLoop_frame s k ds r hp
  refine ⟨frame_inv k s _ f h ?_ ?_ (Or.inl hpd), f.w, hr, hpd, f.ever, f.job, f.sentC⟩
  · intro d st hm hst; rw [hr] at hm; exact h.run_ann k d st hm hst
  · intro hne; rw [hr] at hne; exact h.run_nowait k hne

theorem wPublished_inv (s : Host) (k : Nat) (d : Ds) (h : Inv s) (hrun : (s.wk k).run = []) (hd : d ∈ s.ever) :
    Inv (wPublished s k d).1 := by
  unfold wPublished
  simp only
  cases hs : step (s.wk k).w (.published d) with
  | mk w' o =>
    have hst := Worker.Aux.step_invP (· ∈ s.ever) (· ∈ s.ever) (fun _ hx => hx) _ _ _ _ (h.winv k) hs (fun d' hm => by cases hm; exact hd)
    have hcases := step_published_cases _ _ _ _ hs
    have h1 : Inv (setW s k { s.wk k with w := w', pend := (s.wk k).pend }) := by
      refine setWw_inv s k w' _ _ _ h hst.1 ?_ (fun hne => absurd hrun hne)
      intro id req hw
      rcases hcases with ⟨_, hc⟩ | ⟨_, _, hc⟩ | ⟨_, _, hc, _⟩
      · rw [hc] at hw; exact h.pend_ok k id req hw
      · rw [hc] at hw; exact h.pend_ok k id req hw
      · rw [hc] at hw; cases hw
    cases o with
    | nothing => exact h1
    | raised msg => exact h1
    | stop => exact h1
    | provided l =>
      simp only
      split
      · exact die_inv _ _ _ _ h1
      · rename_i p hp
        exact (provideLoop_inv _ _ _ _ hp h1).1
    | executed id =>
      simp only
      split
      · exact die_inv _ _ _ _ h1
      · rename_i p hp
        obtain ⟨hp1, hpw, hprun, hppend, hpever, hpjob, hpsent⟩ := provideLoop_inv _ _ _ _ hp h1
        split
        · rename_i ts pub id' req hpend hwait
          rcases hcases with ⟨hc, _⟩ | ⟨_, hc, _⟩ | ⟨id2, _, hnone, req2, hw2⟩
          · cases hc
          · cases hc
          · obtain ⟨ts', pub', hpe, hreq, hsent⟩ := h.pend_ok k id' req hwait
            rw [hpend] at hpe
            cases hpe
            refine startSeq_inv p.1 k ts pub req hp1 ?_ ?_ ?_ ⟨id', pub, by rw [hpsent]; simpa [setW] using hsent⟩
            · intro x hx
              rw [hpever]
              refine hst.2 id rfl x ?_
              simp only [reqOf, hwait, Option.map_some, Option.getD_some]
              exact hx
            · rw [hpjob]
              simpa [setW] using hreq
            · rw [hpw]; simpa [setW] using hnone
        · exact hp1

theorem wTask_inv (s : Host) (k : Nat) (id : Nat) (ts : List Nat) (pub : List Ds) (h : Inv s) (hrun : (s.wk k).run = [])
    (hsent : CtrlMsg.task k id ts pub ∈ s.sentC) : Inv (wTask s k id ts pub).1 := by
  unfold wTask
  simp only
  cases hs : step (s.wk k).w (.taskSeq id (required s.job ts)) with
  | mk w' o =>
    have hst := Worker.Aux.step_invP (· ∈ s.ever) (· ∈ s.ever) (fun _ hx => hx) _ _ _ _ (h.winv k) hs (fun d' hm => by cases hm)
    have hcases := step_task_cases _ _ _ _ _ hs
    cases o with
    | nothing => exact h
    | stop => exact h
    | raised msg => exact die_inv _ _ _ _ h
    | executed id' =>
      simp only
      rcases hcases with ⟨_, hc, _⟩ | ⟨_, hnone, _⟩ | ⟨_, hc, _⟩
      · cases hc
      · have h1 : Inv (setW s k { s.wk k with w := w', pend := (s.wk k).pend }) :=
          setWw_inv s k w' _ _ _ h hst.1 (by intro id2 req2 hw; rw [hnone] at hw; cases hw) (fun hne => absurd hrun hne)
        refine startSeq_inv _ k ts pub _ h1 ?_ rfl (by simpa [setW] using hnone) ⟨id, pub, hsent⟩
        intro x hx
        exact hst.2 id' rfl x (by simpa [reqOf] using hx)
      · cases hc
    | provided l =>
      simp only
      rcases hcases with ⟨_, hc, _⟩ | ⟨hc, _⟩ | ⟨_, _, hwait, _⟩
      · cases hc
      · cases hc
      · have h1 : Inv (setW s k { s.wk k with w := w', pend := some (ts, pub) }) := by
          refine setWw_inv s k w' _ _ _ h hst.1 ?_ (fun hne => absurd hrun hne)
          intro id2 req2 hw
          rw [hwait] at hw
          cases hw
          exact ⟨ts, pub, rfl, rfl, hsent⟩
        split
        · exact die_inv _ _ _ _ h1
        · rename_i p hp
          exact (provideLoop_inv _ _ _ _ hp h1).1

theorem wHandle_inv (s : Host) (k : Nat) (m : WMsg) (h : Inv s) (hrun : (s.wk k).run = [])
    (hm : ∀ d, m = .published d → d ∈ s.ever) (hmt : ∀ id ts pub, m = .task id ts pub → CtrlMsg.task k id ts pub ∈ s.sentC) :
    Inv (wHandle s k m).1 := by
  cases m with
  | shutdown =>
    simp only [wHandle]
    exact frame_inv k s _ (wframe_set s k _ rfl rfl (Or.inl rfl)) h (by simp [setW, hrun]) (by simp [setW, hrun]) (Or.inl (by simp [setW]))
  | purge d =>
    simp only [wHandle]
    cases hs : step (s.wk k).w (.purge d) with
    | mk w' o =>
      have hst := Worker.Aux.step_invP (· ∈ s.ever) (· ∈ s.ever) (fun _ hx => hx) _ _ _ _ (h.winv k) hs (fun d' hm => by cases hm)
      have hwt : w'.waiting = (s.wk k).w.waiting := by
        simp only [step, Prod.mk.injEq] at hs
        obtain ⟨rfl, _⟩ := hs
        rfl
      refine setWw_inv s k w' _ _ _ h hst.1 ?_ (fun hne => absurd hrun hne)
      intro id req hw
      rw [hwt] at hw
      exact h.pend_ok k id req hw
  | published d => exact wPublished_inv s k d h hrun (hm d rfl)
  | task id ts pub => exact wTask_inv s k id ts pub h hrun (hmt id ts pub rfl)

theorem wRecv_inv (s : Host) (k i : Nat) (h : Inv s) (hrun : (s.wk k).run = []) : Inv (wRecv s k i).1 := by
  unfold wRecv
  split
  · exact h
  · rename_i m hm
    have hmem : m ∈ (s.wk k).inbox := List.mem_of_getElem? hm
    have h0 : Inv (setW s k { s.wk k with inbox := (s.wk k).inbox.eraseIdx i }) := by
      have her : ∀ x, x ∈ (s.wk k).inbox.eraseIdx i → x ∈ (s.wk k).inbox := fun x hx => List.mem_of_mem_eraseIdx hx
      obtain ⟨h1, h2, h3, h4, h5, h6, h7, h8, h9, h10, h11, h12, h13, h14, h15, h16, h17⟩ := h
      constructor <;> simp only [setW] <;> try assumption
      all_goals grind
    refine wHandle_inv _ k m h0 (by simp [setW, hrun]) ?_ ?_
    · intro d hd
      subst hd
      exact h.inbox_pub k d hmem
    · intro id ts pub hd
      subst hd
      exact h.inbox_task k id ts pub hmem

theorem wPick_inv (s : Host) (k i : Nat) (h : Inv s) : Inv (wPick s k i).1 := by
  unfold wPick
  split
  · split
    · rename_i d st rest hr
      exact wRun_inv s k d st rest h hr
    · rename_i hr
      exact wRecv_inv s k i h hr
    · exact h
  · exact h

theorem pick_inv (s : Host) (p : Pick) (h : Inv s) : Inv (pick s p).1 := by
  cases p with
  | ctrl m => exact ctrl_inv s m h
  | net d => exact net_inv s d h
  | x i => exact xPick_inv s i h
  | w k i => exact wPick_inv s k i h
  | d i => exact dPick_inv s i h
  | j i => exact jPick_inv s i h

theorem inv_init (job : Job) (nW : Nat) : Inv (Host.init job nW) := by
  constructor <;> simp [Host.init, WS.init, W.init]
  exact Worker.Aux.invP_init _

theorem runPicks_inv (s : Host) (ps : List Pick) (h : Inv s) : Inv (runPicks s ps) := by
  induction ps generalizing s with
  | nil => exact h
  | cons p ps ih => exact ih _ (pick_inv s p h)

end Aux

/-- dataset d is required by a task sequence that is on its way to its worker or waiting there -/
def Unstarted (s : Host) (d : Ds) : Prop :=
  (∃ m, m ∈ s.xq ∧ d ∈ xReq s.job m) ∨
  (∃ k, k < s.nW ∧ ((∃ m, m ∈ (s.wk k).inbox ∧ d ∈ wReq s.job m) ∨ d ∈ waitReq (s.wk k)))

/-- what a pick that is not the controller's does to the facts the discipline speaks about -/
structure Quiet (s s' : Host) : Prop where
  job : s'.job = s.job
  nW : s'.nW = s.nW
  purgedC : s'.purgedC = s.purgedC
  unst : ∀ d, Unstarted s' d → Unstarted s d
  log : ∀ e, e ∈ s'.execLog → e ∈ s.execLog ∨ (e.shmR = s.shmR ∧ e.ever = s.ever ∧ ∀ d, d ∈ e.req → Unstarted s d)

namespace Aux

theorem quiet_refl (s : Host) : Quiet s s := ⟨rfl, rfl, rfl, fun _ h => h, fun _ h => Or.inl h⟩

theorem quiet_trans (s s1 s2 : Host) (h1 : Quiet s s1) (h2 : Quiet s1 s2) (hshm : s1.shmR = s.shmR ∧ s1.ever = s.ever) : Quiet s s2 := by
  refine ⟨by rw [h2.job, h1.job], by rw [h2.nW, h1.nW], by rw [h2.purgedC, h1.purgedC], fun d hd => h1.unst d (h2.unst d hd), ?_⟩
  intro e he
  rcases h2.log e he with h | ⟨h, hev, h'⟩
  · exact h1.log e h
  · exact Or.inr ⟨by rw [h, hshm.1], by rw [hev, hshm.2], fun d hd => h1.unst d (h' d hd)⟩

theorem frame_quiet (k : Nat) (s s' : Host) (f : WFrame k s s') : Quiet s s' := by
  obtain ⟨extra, hx, hxf⟩ := f.xq
  have hwk := frame_wk k s s' f
  refine ⟨f.job, f.nW, f.purgedC, ?_, fun e he => Or.inl (f.execLog ▸ he)⟩
  intro d hu
  rcases hu with ⟨m, hm, hd⟩ | ⟨i, hi, hu⟩
  · rw [hx] at hm
    rw [f.job] at hd
    rcases List.mem_append.mp hm with h | h
    · exact Or.inl ⟨m, h, hd⟩
    · obtain ⟨t, ht⟩ := hxf m h
      subst ht
      simp [xReq] at hd
  · rw [f.nW] at hi
    rw [f.job, (hwk i).2] at hu
    refine Or.inr ⟨i, hi, ?_⟩
    rcases hu with h | h
    · exact Or.inl h
    · right
      simpa [waitReq, (hwk i).1] using h

theorem quiet_of (s s' : Host) (hj : s'.job = s.job) (hn : s'.nW = s.nW) (hp : s'.purgedC = s.purgedC) (hl : s'.execLog = s.execLog)
    (hx : ∀ m, m ∈ s'.xq → m ∈ s.xq ∨ xReq s.job m = [])
    (hi : ∀ k, k < s.nW → ∀ m, m ∈ (s'.wk k).inbox → m ∈ (s.wk k).inbox ∨ wReq s.job m = [] ∨
      (∃ id ts pub, m = .task id ts pub ∧ XMsg.task k id ts pub ∈ s.xq))
    (hw : ∀ k, k < s.nW → (s'.wk k).w.waiting = (s.wk k).w.waiting ∨ (s'.wk k).w.waiting = none) : Quiet s s' := by
  refine ⟨hj, hn, hp, ?_, fun e he => Or.inl (hl ▸ he)⟩
  intro d hu
  rcases hu with ⟨m, hm, hd⟩ | ⟨k, hk, hu⟩
  · rw [hj] at hd
    rcases hx m hm with h | h
    · exact Or.inl ⟨m, h, hd⟩
    · rw [h] at hd; cases hd
  · rw [hn] at hk
    rw [hj] at hu
    rcases hu with ⟨m, hm, hd⟩ | h
    · rcases hi k hk m hm with h | h | ⟨id, ts, pub, rfl, h⟩
      · exact Or.inr ⟨k, hk, Or.inl ⟨m, h, hd⟩⟩
      · rw [h] at hd; cases hd
      · exact Or.inl ⟨_, h, by simpa [xReq, wReq] using hd⟩
    · rcases hw k hk with hw | hw
      · exact Or.inr ⟨k, hk, Or.inr (by simpa [waitReq, hw] using h)⟩
      · simp [waitReq, hw] at h

theorem terminate_quiet (s : Host) : Quiet s (terminate s).1 := by
  apply quiet_of <;> simp only [terminate, toAll]
  · intro m hm; exact Or.inl hm
  · intro k hk m hm
    simp only [hk, ↓reduceIte, List.mem_append, List.mem_cons, List.not_mem_nil, or_false] at hm
    rcases hm with h | rfl
    · exact Or.inl h
    · exact Or.inr (Or.inl rfl)
  · intro k hk; left; simp [hk]

theorem upC_quiet (s : Host) (m : CMsg) : Quiet s (upC s m) := by
  apply quiet_of <;> simp only [upC]
  · intro m hm; exact Or.inl hm
  · intro k hk m hm; exact Or.inl hm
  · intro k hk; exact Or.inl trivial

theorem terminate_shm (s : Host) : (terminate s).1.shmR = s.shmR := rfl

theorem xFail_quiet (s : Host) (why : String) (pre : List Op) : Quiet s (xFail s why pre).1 :=
  quiet_trans s _ _ (upC_quiet s _) (terminate_quiet _) ⟨rfl, rfl⟩

theorem health_quiet (s : Host) (pre : List Op) : Quiet s (health s pre).1 := by
  unfold health
  split
  · exact xFail_quiet s _ _
  · exact quiet_refl s

theorem health_shm (s : Host) (pre : List Op) : (health s pre).1.shmR = s.shmR := by
  unfold health xFail terminate toAll upC
  split <;> rfl

theorem xPick_quiet (s : Host) (i : Nat) : Quiet s (xPick s i).1 := by
  unfold xPick
  split
  · exact quiet_refl s
  · split
    · exact quiet_refl s
    · rename_i m hm
      have hmem : m ∈ s.xq := List.mem_of_getElem? hm
      have her : ∀ x, x ∈ s.xq.eraseIdx i → x ∈ s.xq := fun x hx => List.mem_of_mem_eraseIdx hx
      have q0 : Quiet s { s with xq := s.xq.eraseIdx i } := by
        apply quiet_of <;> simp only
        · intro m hm; exact Or.inl (her m hm)
        · intro k hk m hm; exact Or.inl hm
        · intro k hk; exact Or.inl trivial
      cases m with
      | task k id ts pub =>
        simp only
        split
        · rename_i hk
          split
          · exact quiet_trans s _ _ q0 (xFail_quiet _ _ _) ⟨rfl, rfl⟩
          · refine quiet_trans s _ _ ?_ (health_quiet _ _) ⟨rfl, rfl⟩
            apply quiet_of <;> simp only [setW]
            · intro m hm; exact Or.inl (her m hm)
            · intro k' hk' m hm
              by_cases hkk : k' = k
              · subst hkk
                simp only [↓reduceIte, List.mem_append, List.mem_cons, List.not_mem_nil, or_false] at hm
                rcases hm with h | rfl
                · exact Or.inl h
                · exact Or.inr (Or.inr ⟨id, ts, pub, rfl, hmem⟩)
              · simp only [hkk, ↓reduceIte] at hm
                exact Or.inl hm
            · intro k' hk'
              left
              by_cases hkk : k' = k
              · subst hkk; simp
              · simp [hkk]
        · exact quiet_trans s _ _ q0 (xFail_quiet _ _ _) ⟨rfl, rfl⟩
      | purge d =>
        simp only
        split
        · refine quiet_trans s _ _ ?_ (health_quiet _ _) ⟨rfl, rfl⟩
          apply quiet_of <;> simp only [toAll]
          · intro m hm; exact Or.inl (her m hm)
          · intro k hk m hm
            simp only [hk, ↓reduceIte, List.mem_append, List.mem_cons, List.not_mem_nil, or_false] at hm
            rcases hm with h | rfl
            · exact Or.inl h
            · exact Or.inr (Or.inl rfl)
          · intro k hk; left; simp [hk]
        · exact quiet_trans s _ _ q0 (health_quiet _ _) ⟨rfl, rfl⟩
      | shutdown =>
        simp only
        exact quiet_trans s _ _ (quiet_trans s _ _ q0 (upC_quiet _ _) ⟨rfl, rfl⟩) (terminate_quiet _) ⟨rfl, rfl⟩
      | published d f =>
        simp only
        refine quiet_trans s _ _ ?_ (health_quiet _ _) ⟨rfl, rfl⟩
        apply quiet_of <;> simp only [toAll, upC]
        · intro m hm; exact Or.inl (her m hm)
        · intro k hk m hm
          simp only [hk, ↓reduceIte, List.mem_append, List.mem_cons, List.not_mem_nil, or_false] at hm
          rcases hm with h | rfl
          · exact Or.inl h
          · exact Or.inr (Or.inl rfl)
        · intro k hk; left; simp [hk]
      | taskFail k t =>
        simp only
        exact quiet_trans s _ _ (quiet_trans s _ _ q0 (upC_quiet _ _) ⟨rfl, rfl⟩) (health_quiet _ _) ⟨rfl, rfl⟩
      | transmitFail =>
        simp only
        exact quiet_trans s _ _ (quiet_trans s _ _ q0 (upC_quiet _ _) ⟨rfl, rfl⟩) (health_quiet _ _) ⟨rfl, rfl⟩

theorem dPick_quiet (s : Host) (i : Nat) : Quiet s (dPick s i).1 := by
  unfold dPick
  split
  · exact quiet_refl s
  · split
    · exact quiet_refl s
    · rename_i m hm _
      cases m with
      | payload d =>
        simp only
        split <;> (apply quiet_of <;> simp only) <;> grind
      | purge d =>
        simp only
        (apply quiet_of <;> simp only [shmPurge]) <;> grind

theorem jPick_quiet (s : Host) (i : Nat) : Quiet s (jPick s i).1 := by
  unfold jPick
  split
  · exact quiet_refl s
  · split
    · split <;> (apply quiet_of <;> simp only [shmAlloc]) <;> grind
    · split
      · (apply quiet_of <;> simp only [shmClose]) <;> grind
      · apply quiet_of <;> simp only
        · intro m hm
          rcases List.mem_append.mp hm with h | h
          · exact Or.inl h
          · simp only [List.mem_cons, List.not_mem_nil, or_false] at h; subst h; exact Or.inr rfl
        · intro k hk m hm; exact Or.inl hm
        · intro k hk; exact Or.inl trivial
    · apply quiet_of <;> simp only
      · intro m hm
        rcases List.mem_append.mp hm with h | h
        · exact Or.inl h
        · simp only [List.mem_cons, List.not_mem_nil, or_false] at h; subst h; exact Or.inr rfl
      · intro k hk m hm; exact Or.inl hm
      · intro k hk; exact Or.inl trivial

theorem net_quiet (s : Host) (d : Ds) : Quiet s (pick s (.net d)).1 := by
  (apply quiet_of <;> simp only [pick]) <;> grind

/-- as `Quiet`, for the pick in which worker k reads a TaskSequence: `U` = what that sequence requires -/
structure QuietU (U : Ds → Prop) (s s' : Host) : Prop where
  job : s'.job = s.job
  nW : s'.nW = s.nW
  purgedC : s'.purgedC = s.purgedC
  unst : ∀ d, Unstarted s' d → Unstarted s d ∨ U d
  log : ∀ e, e ∈ s'.execLog → e ∈ s.execLog ∨ (e.shmR = s.shmR ∧ e.ever = s.ever ∧ ∀ d, d ∈ e.req → Unstarted s d ∨ U d)

theorem quietU_of_quiet (U : Ds → Prop) (s s' : Host) (q : Quiet s s') : QuietU U s s' :=
  ⟨q.job, q.nW, q.purgedC, fun d hd => Or.inl (q.unst d hd), fun e he => (q.log e he).imp (fun x => x) (fun ⟨a, a', b⟩ => ⟨a, a', fun d hd => Or.inl (b d hd)⟩)⟩

theorem quietU_then (U : Ds → Prop) (s s1 s2 : Host) (h1 : QuietU U s s1) (h2 : Quiet s1 s2) (hshm : s1.shmR = s.shmR ∧ s1.ever = s.ever) : QuietU U s s2 := by
  refine ⟨by rw [h2.job, h1.job], by rw [h2.nW, h1.nW], by rw [h2.purgedC, h1.purgedC], fun d hd => h1.unst d (h2.unst d hd), ?_⟩
  intro e he
  rcases h2.log e he with h | ⟨h, hev, h'⟩
  · exact h1.log e h
  · exact Or.inr ⟨by rw [h, hshm.1], by rw [hev, hshm.2], fun d hd => h1.unst d (h' d hd)⟩

theorem failSeq_quiet (s : Host) (k : Nat) : Quiet s (failSeq s k).1 := frame_quiet k s _ (failSeq_frame s k)
theorem cont_quiet (s : Host) (k : Nat) (is : List Instr) : Quiet s (cont s k is).1 := frame_quiet k s _ (cont_frame s k is)

theorem wRun_quiet (s : Host) (k : Nat) (d : Ds) (st : Nat) (rest : List Instr) : Quiet s (wRun s k d st rest).1 := by
  unfold wRun
  simp only
  split
  · split
    · apply quiet_of <;> simp only [setW, shmAlloc]
      · intro m hm; exact Or.inl hm
      · intro k' hk' m hm
        by_cases hkk : k' = k
        · subst hkk; simp only [↓reduceIte] at hm; exact Or.inl hm
        · simp only [hkk, ↓reduceIte] at hm; exact Or.inl hm
      · intro k' hk'; left
        by_cases hkk : k' = k
        · subst hkk; simp
        · simp [hkk]
    · exact failSeq_quiet s k
  · split
    · apply quiet_of <;> simp only [setW, shmClose]
      · intro m hm; exact Or.inl hm
      · intro k' hk' m hm
        by_cases hkk : k' = k
        · subst hkk; simp only [↓reduceIte] at hm; exact Or.inl hm
        · simp only [hkk, ↓reduceIte] at hm; exact Or.inl hm
      · intro k' hk'; left
        by_cases hkk : k' = k
        · subst hkk; simp
        · simp [hkk]
    · exact failSeq_quiet s k
  · show Quiet s (cont { s with xq := s.xq ++ [XMsg.published d false] } k rest).1
    refine quiet_trans s { s with xq := s.xq ++ [XMsg.published d false] } _ ?_ (cont_quiet _ k rest) ⟨rfl, rfl⟩
    apply quiet_of <;> simp only
    · intro m hm
      rcases List.mem_append.mp hm with h | h
      · exact Or.inl h
      · simp only [List.mem_cons, List.not_mem_nil, or_false] at h; subst h; exact Or.inr rfl
    · intro k hk m hm; exact Or.inl hm
    · intro k hk; exact Or.inl trivial

theorem startSeq_facts (s : Host) (k : Nat) (ts : List Nat) (pub req : List Ds) :
    (startSeq s k ts pub req).1.job = s.job ∧ (startSeq s k ts pub req).1.nW = s.nW ∧
    (startSeq s k ts pub req).1.purgedC = s.purgedC ∧ (startSeq s k ts pub req).1.shmR = s.shmR ∧
    (∀ d, Unstarted (startSeq s k ts pub req).1 d → Unstarted s d) ∧
    (∀ e, e ∈ (startSeq s k ts pub req).1.execLog → e ∈ s.execLog ∨ (e.shmR = s.shmR ∧ e.ever = s.ever ∧ e.req = req)) := by
  unfold startSeq
  simp only
  have f := cont_frame { s with execLog := s.execLog ++ [{ k := k, ts := ts, req := req, shmR := s.shmR, ever := s.ever }] } k (instrsOf s.job ts pub)
  have q := frame_quiet k _ _ f
  refine ⟨q.job, q.nW, q.purgedC, f.shmR, fun d hd => q.unst d hd, ?_⟩
  intro e he
  rw [f.execLog] at he
  simp only [List.mem_append, List.mem_cons, List.not_mem_nil, or_false] at he
  rcases he with h | rfl
  · exact Or.inl h
  · exact Or.inr ⟨rfl, rfl, rfl⟩

theorem die_quiet (s : Host) (k : Nat) (why : String) (pre : List Op) : Quiet s (die s k why pre).1 :=
  frame_quiet k s _ (wframe_set s k _ rfl rfl (Or.inl rfl))

/-- replacing the loop state of worker k: the waiting sequence stays, goes, or is the one described by `U` -/
theorem setWw_quietU (U : Ds → Prop) (s : Host) (k : Nat) (w' : W) (pend' : Option (List Nat × List Ds)) (loc' bufs' : List Ds)
    (hw : w'.waiting = (s.wk k).w.waiting ∨ w'.waiting = none ∨ (∃ id req, w'.waiting = some (id, req) ∧ ∀ d, d ∈ req → U d)) :
    QuietU U s (setW s k { s.wk k with w := w', pend := pend', loc := loc', bufs := bufs' }) := by
  refine ⟨rfl, rfl, rfl, ?_, fun e he => Or.inl he⟩
  intro d hu
  rcases hu with ⟨m, hm, hd⟩ | ⟨i, hi, hu⟩
  · exact Or.inl (Or.inl ⟨m, hm, hd⟩)
  · by_cases hik : i = k
    · subst hik
      simp only [setW, ↓reduceIte] at hu
      rcases hu with h | h
      · exact Or.inl (Or.inr ⟨i, hi, Or.inl h⟩)
      · rcases hw with hw | hw | ⟨id, req, hw, hU⟩
        · exact Or.inl (Or.inr ⟨i, hi, Or.inr (by simpa [waitReq, hw] using h)⟩)
        · simp [waitReq, hw] at h
        · simp only [waitReq, hw] at h
          exact Or.inr (hU d h)
    · simp only [setW, hik, ↓reduceIte] at hu
      exact Or.inl (Or.inr ⟨i, hi, hu⟩)

theorem quietU_false (s s' : Host) (q : QuietU (fun _ => False) s s') : Quiet s s' :=
  ⟨q.job, q.nW, q.purgedC, fun d hd => (q.unst d hd).elim (fun x => x) False.elim,
    fun e he => (q.log e he).imp (fun x => x) (fun ⟨a, a', b⟩ => ⟨a, a', fun d hd => (b d hd).elim (fun x => x) False.elim⟩)⟩

theorem wPublished_quiet (s : Host) (k : Nat) (d : Ds) (hk : k < s.nW) : Quiet s (wPublished s k d).1 := by
  unfold wPublished
  simp only
  cases hs : step (s.wk k).w (.published d) with
  | mk w' o =>
    have hcases := step_published_cases _ _ _ _ hs
    have q1 : Quiet s (setW s k { s.wk k with w := w', pend := (s.wk k).pend }) := by
      apply quietU_false
      apply setWw_quietU
      rcases hcases with ⟨_, hc⟩ | ⟨_, _, hc⟩ | ⟨_, _, hc, _⟩
      · exact Or.inl hc
      · exact Or.inl hc
      · exact Or.inr (Or.inl hc)
    cases o with
    | nothing => exact q1
    | raised msg => exact q1
    | stop => exact q1
    | provided l =>
      simp only
      split
      · exact quiet_trans s _ _ q1 (die_quiet _ _ _ _) ⟨rfl, rfl⟩
      · rename_i p hp
        exact quiet_trans s _ _ q1 (frame_quiet k _ _ (provideLoop_frame _ _ _ _ hp).1) ⟨rfl, rfl⟩
    | executed id =>
      simp only
      split
      · exact quiet_trans s _ _ q1 (die_quiet _ _ _ _) ⟨rfl, rfl⟩
      · rename_i p hp
        have fp := (provideLoop_frame _ _ _ _ hp).1
        have q2 : Quiet s p.1 := quiet_trans s _ _ q1 (frame_quiet k _ _ fp) ⟨rfl, rfl⟩
        split
        · rename_i ts pub id' req hpend hwait
          obtain ⟨sj, sn, sp, sshm, su, sl⟩ := startSeq_facts p.1 k ts pub req
          refine ⟨by rw [sj, q2.job], by rw [sn, q2.nW], by rw [sp, q2.purgedC], fun x hx => q2.unst x (su x hx), ?_⟩
          intro e he
          rcases sl e he with h | ⟨h1, hev, h2⟩
          · exact q2.log e h
          · refine Or.inr ⟨by rw [h1, fp.shmR]; rfl, by rw [hev, fp.ever]; rfl, ?_⟩
            intro x hx
            rw [h2] at hx
            exact Or.inr ⟨k, hk, Or.inr (by simpa [waitReq, hwait] using hx)⟩
        · exact q2

theorem wTask_quietU (s : Host) (k : Nat) (id : Nat) (ts : List Nat) (pub : List Ds) :
    QuietU (fun d => d ∈ required s.job ts) s (wTask s k id ts pub).1 := by
  unfold wTask
  simp only
  cases hs : step (s.wk k).w (.taskSeq id (required s.job ts)) with
  | mk w' o =>
    have hcases := step_task_cases _ _ _ _ _ hs
    cases o with
    | nothing => exact quietU_of_quiet _ _ _ (quiet_refl s)
    | stop => exact quietU_of_quiet _ _ _ (quiet_refl s)
    | raised msg => exact quietU_of_quiet _ _ _ (die_quiet _ _ _ _)
    | executed id' =>
      simp only
      rcases hcases with ⟨_, hc, _⟩ | ⟨_, hnone, _⟩ | ⟨_, hc, _⟩
      · cases hc
      · have q1 : QuietU (fun d => d ∈ required s.job ts) s (setW s k { s.wk k with w := w', pend := (s.wk k).pend }) :=
          setWw_quietU _ s k w' _ _ _ (Or.inr (Or.inl hnone))
        obtain ⟨sj, sn, sp, sshm, su, sl⟩ := startSeq_facts (setW s k { s.wk k with w := w', pend := (s.wk k).pend }) k ts pub (required s.job ts)
        refine ⟨by rw [sj, q1.job], by rw [sn, q1.nW], by rw [sp, q1.purgedC], fun x hx => q1.unst x (su x hx), ?_⟩
        intro e he
        rcases sl e he with h | ⟨h1, hev, h2⟩
        · exact q1.log e h
        · refine Or.inr ⟨by rw [h1]; rfl, by rw [hev]; rfl, ?_⟩
          intro x hx
          rw [h2] at hx
          exact Or.inr hx
      · cases hc
    | provided l =>
      simp only
      rcases hcases with ⟨_, hc, _⟩ | ⟨hc, _⟩ | ⟨_, _, hwait, _⟩
      · cases hc
      · cases hc
      · have q1 : QuietU (fun d => d ∈ required s.job ts) s (setW s k { s.wk k with w := w', pend := some (ts, pub) }) :=
          setWw_quietU _ s k w' _ _ _ (Or.inr (Or.inr ⟨id, _, hwait, fun d hd => hd⟩))
        split
        · exact quietU_then _ s _ _ q1 (die_quiet _ _ _ _) ⟨rfl, rfl⟩
        · rename_i p hp
          exact quietU_then _ s _ _ q1 (frame_quiet k _ _ (provideLoop_frame _ _ _ _ hp).1) ⟨rfl, rfl⟩

theorem wHandle_quietU (s : Host) (k : Nat) (m : WMsg) (hk : k < s.nW) :
    QuietU (fun d => d ∈ wReq s.job m) s (wHandle s k m).1 := by
  cases m with
  | shutdown =>
    simp only [wHandle]
    exact quietU_of_quiet _ _ _ (frame_quiet k s _ (wframe_set s k _ rfl rfl (Or.inl rfl)))
  | purge d =>
    simp only [wHandle]
    apply setWw_quietU
    left
    simp [step]
  | published d => exact quietU_of_quiet _ _ _ (wPublished_quiet s k d hk)
  | task id ts pub => exact wTask_quietU s k id ts pub

theorem wRecv_quiet (s : Host) (k i : Nat) (hk : k < s.nW) : Quiet s (wRecv s k i).1 := by
  unfold wRecv
  split
  · exact quiet_refl s
  · rename_i m hm
    have hmem : m ∈ (s.wk k).inbox := List.mem_of_getElem? hm
    have q := wHandle_quietU (setW s k { s.wk k with inbox := (s.wk k).inbox.eraseIdx i }) k m hk
    have hU : ∀ d, d ∈ wReq s.job m → Unstarted s d := fun d hd => Or.inr ⟨k, hk, Or.inl ⟨m, hmem, hd⟩⟩
    have h0 : ∀ d, Unstarted (setW s k { s.wk k with inbox := (s.wk k).inbox.eraseIdx i }) d → Unstarted s d := by
      intro d hu
      rcases hu with ⟨m', hm', hd⟩ | ⟨j, hj, hu⟩
      · exact Or.inl ⟨m', hm', hd⟩
      · refine Or.inr ⟨j, hj, ?_⟩
        by_cases hjk : j = k
        · subst hjk
          simp only [setW, ↓reduceIte] at hu
          rcases hu with ⟨m', hm', hd⟩ | h
          · exact Or.inl ⟨m', List.mem_of_mem_eraseIdx hm', hd⟩
          · exact Or.inr h
        · simpa [setW, hjk] using hu
    refine ⟨q.job, q.nW, q.purgedC, ?_, ?_⟩
    · intro d hd
      rcases q.unst d hd with h | h
      · exact h0 d h
      · exact hU d h
    · intro e he
      rcases q.log e he with h | ⟨h1, hev, h2⟩
      · exact Or.inl h
      · refine Or.inr ⟨h1, hev, ?_⟩
        intro d hd
        rcases h2 d hd with h | h
        · exact h0 d h
        · exact hU d h

theorem wPick_quiet (s : Host) (k i : Nat) : Quiet s (wPick s k i).1 := by
  unfold wPick
  split
  · rename_i hc
    have hk : k < s.nW := by
      simp only [Bool.and_eq_true, decide_eq_true_eq] at hc
      exact hc.1
    split
    · exact wRun_quiet s k _ _ _
    · exact wRecv_quiet s k i hk
    · exact quiet_refl s
  · exact quiet_refl s

theorem pick_quiet (s : Host) (p : Pick) (hp : ∀ m, p ≠ .ctrl m) : Quiet s (pick s p).1 := by
  cases p with
  | ctrl m => exact absurd rfl (hp m)
  | net d => exact net_quiet s d
  | x i => exact xPick_quiet s i
  | w k i => exact wPick_quiet s k i
  | d i => exact dPick_quiet s i
  | j i => exact jPick_quiet s i

end Aux

/-- what holds when the controller keeps the discipline `ctrlOK` -/
structure InvB (s : Host) : Prop where
  nopurged : ∀ d, Unstarted s d → d ∉ s.purgedC
  log_read : ∀ e, e ∈ s.execLog → ∀ d, d ∈ e.req → d ∈ e.shmR

namespace Aux

theorem mem_unstartedReq (s : Host) (d : Ds) : d ∈ unstartedReq s ↔ Unstarted s d := by
  unfold unstartedReq Unstarted
  simp only [List.mem_append, List.mem_flatMap, List.mem_range]

theorem invB_init (job : Job) (nW : Nat) : InvB (Host.init job nW) := by
  refine ⟨?_, by simp [Host.init]⟩
  intro d hu
  rcases hu with ⟨m, hm, _⟩ | ⟨k, _, ⟨m, hm, _⟩ | h⟩
  · simp [Host.init] at hm
  · simp [Host.init, WS.init] at hm
  · simp [Host.init, WS.init, W.init, waitReq] at h

theorem quiet_invB (s s' : Host) (q : Quiet s s') (h' : Inv s') (h : Inv s) (hb : InvB s) : InvB s' := by
  refine ⟨?_, ?_⟩
  · intro d hu
    rw [q.purgedC]
    exact hb.nopurged d (q.unst d hu)
  · intro e he d hd
    rcases q.log e he with h0 | ⟨hshm, hev, hun⟩
    · exact hb.log_read e h0 d hd
    · rw [hshm]
      have h1 : d ∈ s.ever := hev ▸ h'.log_ever e he d hd
      exact h.ever_shm d h1 (hb.nopurged d (hun d hd))

theorem ctrl_invB (s : Host) (m : CtrlMsg) (hb : InvB s) (hc : ctrlOK s m = true) : InvB (pick s (.ctrl m)).1 := by
  have hun : ∀ d, Unstarted (pick s (.ctrl m)).1 d → Unstarted s d ∨ d ∈ xReq s.job m.toX := by
    intro d hu
    rcases hu with ⟨m', hm', hd⟩ | ⟨k, hk, hu⟩
    · simp only [pick, List.mem_append, List.mem_cons, List.not_mem_nil, or_false] at hm' hd
      rcases hm' with h | rfl
      · exact Or.inl (Or.inl ⟨m', h, hd⟩)
      · exact Or.inr hd
    · exact Or.inl (Or.inr ⟨k, hk, hu⟩)
  refine ⟨?_, hb.log_read⟩
  intro d hu
  cases m with
  | task w id ts pub =>
    simp only [pick]
    simp only [ctrlOK, List.all_eq_true, Bool.not_eq_eq_eq_not, Bool.not_true, List.contains_eq_mem, decide_eq_false_iff_not] at hc
    rcases hun d hu with h | h
    · exact hb.nopurged d h
    · exact hc d (by simpa [xReq, CtrlMsg.toX] using h)
  | purge d' =>
    simp only [pick]
    simp only [ctrlOK, Bool.not_eq_eq_eq_not, Bool.not_true, List.contains_eq_mem, decide_eq_false_iff_not, mem_unstartedReq] at hc
    rcases hun d hu with h | h
    · intro hm
      rcases (Worker.Aux.mem_addSet _ _ _).mp hm with h1 | h1
      · exact hb.nopurged d h h1
      · subst h1; exact hc h
    · simp [xReq, CtrlMsg.toX] at h
  | shutdown =>
    simp only [pick]
    rcases hun d hu with h | h
    · exact hb.nopurged d h
    · simp [xReq, CtrlMsg.toX] at h

theorem disciplined_inv (s : Host) (ps : List Pick) (h : Inv s) (hb : InvB s) (hd : Disciplined s ps = true) :
    InvB (runPicks s ps) := by
  induction ps generalizing s with
  | nil => exact hb
  | cons p ps ih =>
    simp only [Disciplined, Bool.and_eq_true] at hd
    have h' := pick_inv s p h
    refine ih _ h' ?_ hd.2
    cases p with
    | ctrl m => exact ctrl_invB s m hb hd.1
    | net d => exact quiet_invB _ _ (pick_quiet s _ (by intro m hm; cases hm)) h' h hb
    | x i => exact quiet_invB _ _ (pick_quiet s _ (by intro m hm; cases hm)) h' h hb
    | w k i => exact quiet_invB _ _ (pick_quiet s _ (by intro m hm; cases hm)) h' h hb
    | d i => exact quiet_invB _ _ (pick_quiet s _ (by intro m hm; cases hm)) h' h hb
    | j i => exact quiet_invB _ _ (pick_quiet s _ (by intro m hm; cases hm)) h' h hb

end Aux

namespace Aux

theorem pick_job (s : Host) (p : Pick) : (pick s p).1.job = s.job := by
  cases p with
  | ctrl m => rfl
  | net d => rfl
  | x i => exact (pick_quiet s _ (by intro m hm; cases hm)).job
  | w k i => exact (pick_quiet s _ (by intro m hm; cases hm)).job
  | d i => exact (pick_quiet s _ (by intro m hm; cases hm)).job
  | j i => exact (pick_quiet s _ (by intro m hm; cases hm)).job

theorem runPicks_job (s : Host) (ps : List Pick) : (runPicks s ps).job = s.job := by
  induction ps generalizing s with
  | nil => rfl
  | cons p ps ih => simp only [runPicks]; rw [ih, pick_job]

theorem ofDigits_append (l : List Nat) (d : Nat) : ofDigits (l ++ [d]) = 10 * ofDigits l + d := by
  simp [ofDigits, List.foldl_append]

theorem ofDigits_digits (n : Nat) : ofDigits (digits n) = n := by
  induction n using Nat.strongRecOn with
  | _ n ih =>
    rw [digits]
    split
    · simp [ofDigits]
    · rw [ofDigits_append, ih (n / 10) (by omega)]
      omega

end Aux

/-- **Inputs have arrived.** For every job, every number of workers and every sequence of picks (any interleaving of
executor, workers, data server and store jobs; any order of delivery; any controller and network traffic): whenever a
worker enters `execute_sequence`, the set the code waits for is `required` of the sequence, and every dataset in it had been
completely written into the shm of this host before that moment. -/
theorem c02_exec_inputs_arrived (job : Job) (nW : Nat) (picks : List Pick) (e : ExecEntry)
    (he : e ∈ (runPicks (Host.init job nW) picks).execLog) :
    e.req = required job e.ts ∧ ∀ d, d ∈ required job e.ts → d ∈ e.ever := by
  have h := Aux.runPicks_inv _ picks (Aux.inv_init job nW)
  have hr := h.log_req e he
  rw [Aux.runPicks_job] at hr
  exact ⟨hr, fun d hd => h.log_ever e he d (hr ▸ hd)⟩

/-- **Inputs are readable at entry, when the controller keeps its discipline.** If every controller message of the run
satisfies `ctrlOK` at the moment it is sent, then at every entry into `execute_sequence` every required dataset is readable
in the shm of the host (for every interleaving and delivery order, as above). -/
theorem c02_exec_inputs_readable (job : Job) (nW : Nat) (picks : List Pick) (hd : Disciplined (Host.init job nW) picks = true)
    (e : ExecEntry) (he : e ∈ (runPicks (Host.init job nW) picks).execLog) : ∀ d, d ∈ required job e.ts → d ∈ e.shmR := by
  have hb := Aux.disciplined_inv _ picks (Aux.inv_init job nW) (Aux.invB_init job nW) hd
  have hr := (c02_exec_inputs_arrived job nW picks e he).1
  exact fun d hx => hb.log_read e he d (hr ▸ hx)

/-- the witness: t1 consumes (0,0); the purge of (0,0) is commanded while the sequence [t1] is still in the worker's inbox -/
def witnessJob : Job := [{ inputs := [], nOut := 1, failAt := none }, { inputs := [(0, 0)], nOut := 1, failAt := none }]
def witnessPicks : List Pick :=
  [.ctrl (.task 0 0 [0] [(0, 0)]), .x 0, .w 0 0, .w 0 0, .w 0 0, .w 0 0, .x 0,
   .ctrl (.task 0 1 [1] [(1, 0)]), .x 0, .ctrl (.purge (0, 0)), .x 0, .d 0, .w 0 0, .w 0 0]

/-- Without the hypothesis on the controller the statement is false of the code as it is: a purge commanded while the
consumer's TaskSequence is still queued reaches the shm before the worker reads the sequence. -/
theorem c02_exec_inputs_readable_full_fails :
    ¬ (∀ (job : Job) (nW : Nat) (picks : List Pick) (e : ExecEntry), e ∈ (runPicks (Host.init job nW) picks).execLog →
        ∀ d, d ∈ required job e.ts → d ∈ e.shmR) := by
  intro h
  have hw : ((runPicks (Host.init witnessJob 1) witnessPicks).execLog.map (fun e => (e.ts, e.shmR))) = [([0], []), ([1], [])] := by
    decide
  have hlen : ∃ e, e ∈ (runPicks (Host.init witnessJob 1) witnessPicks).execLog ∧ e.ts = [1] ∧ e.shmR = [] := by
    generalize (runPicks (Host.init witnessJob 1) witnessPicks).execLog = l at hw
    match l, hw with
    | [], hw => simp at hw
    | [_], hw => simp at hw
    | [_, e2], hw =>
      simp only [List.map_cons, List.map_nil, List.cons.injEq, Prod.mk.injEq, and_true] at hw
      exact ⟨e2, by simp, hw.2.1, hw.2.2⟩
    | _ :: _ :: _ :: _, hw => simp at hw
  obtain ⟨e, he, hts, hshm⟩ := hlen
  have := h witnessJob 1 witnessPicks e he (0, 0) (by rw [hts]; decide)
  rw [hshm] at this
  cases this

/-- the witness breaks the discipline (so `c02_exec_inputs_readable` does not apply to it) ... -/
example : Disciplined (Host.init witnessJob 1) witnessPicks = false := by decide

/-- ... and non-vacuity of `c02_exec_inputs_readable`: the same traffic with the purge commanded AFTER the consumer started is
disciplined, and both sequences are executed (the second one with its input readable). -/
example :
    let picks : List Pick := [.ctrl (.task 0 0 [0] [(0, 0)]), .x 0, .w 0 0, .w 0 0, .w 0 0, .w 0 0, .x 0,
      .ctrl (.task 0 1 [1] [(1, 0)]), .x 0, .w 0 0, .w 0 0, .ctrl (.purge (0, 0)), .x 0, .d 0]
    Disciplined (Host.init witnessJob 1) picks = true ∧
    (runPicks (Host.init witnessJob 1) picks).execLog.map (fun e => (e.ts, e.req, e.shmR)) = [([0], [], []), ([1], [(0, 0)], [(0, 0)])] := by
  decide

/-- **Announce after write.** In every reachable state: a DatasetPublished in the executor's queue, in a worker's inbox or
among the messages that went up to the controller, a dataset in a worker's `availab_ds`, and a dataset in `Executor.datasets`
all name a dataset that was completely written into the host's shm before. -/
theorem c02_exec_announced_after_write (job : Job) (nW : Nat) (picks : List Pick) :
    let s := runPicks (Host.init job nW) picks
    (∀ d f, XMsg.published d f ∈ s.xq → d ∈ s.ever) ∧ (∀ k d, WMsg.published d ∈ (s.wk k).inbox → d ∈ s.ever) ∧
    (∀ k d, d ∈ (s.wk k).w.avail → d ∈ s.ever) ∧ (∀ d, d ∈ s.datasets → d ∈ s.ever) ∧
    (∀ d f, CMsg.published d f ∈ s.toCtrl → d ∈ s.ever) := by
  have h := Aux.runPicks_inv _ picks (Aux.inv_init job nW)
  exact ⟨h.xq_pub, h.inbox_pub, fun k d hd => (h.winv k).avail_p d hd, h.datasets_ever, h.ctrl_pub⟩

/-- **Written data stays until the controller purges it.** In every reachable state a dataset that was completely written
and whose purge the controller has not commanded is readable; and a DatasetPurge reaches the data server's queue only if
the controller commanded it. -/
theorem c02_exec_written_stays_readable (job : Job) (nW : Nat) (picks : List Pick) :
    let s := runPicks (Host.init job nW) picks
    (∀ d, d ∈ s.ever → d ∉ s.purgedC → d ∈ s.shmR) ∧ (∀ d, DMsg.purge d ∈ s.dq → d ∈ s.purgedC) := by
  have h := Aux.runPicks_inv _ picks (Aux.inv_init job nW)
  exact ⟨h.ever_shm, h.dq_purge⟩

/-- **Only the named worker.** Every TaskSequence in the inbox of worker k, and every entry of worker k into
`execute_sequence`, is for a sequence that the controller addressed to worker k. -/
theorem c02_exec_named_worker (job : Job) (nW : Nat) (picks : List Pick) :
    let s := runPicks (Host.init job nW) picks
    (∀ k id ts pub, WMsg.task id ts pub ∈ (s.wk k).inbox → CtrlMsg.task k id ts pub ∈ s.sentC) ∧
    (∀ e, e ∈ s.execLog → ∃ id pub, CtrlMsg.task e.k id e.ts pub ∈ s.sentC) := by
  have h := Aux.runPicks_inv _ picks (Aux.inv_init job nW)
  exact ⟨h.inbox_task, h.log_sent⟩

-- ---------------------------------------------------------------------------------------------- GPU
/-- **A worker sees exactly its own device.** CUDA_VISIBLE_DEVICES of the worker with number n names device n and nothing else. -/
theorem c02_gpu_own_device (n : Nat) : visible (cudaFields n) = [n] := by
  simp [visible, cudaFields, Aux.ofDigits_digits]

/-- **No two workers of a host share a device.** -/
theorem c02_gpu_exclusive (i j : Nat) (hij : i ≠ j) : ∀ d, d ∈ visible (cudaFields i) → d ∉ visible (cudaFields j) := by
  intro d hi hj
  rw [c02_gpu_own_device] at hi hj
  simp only [List.mem_cons, List.not_mem_nil, or_false] at hi hj
  exact hij (hi ▸ hj)

/-- **A worker registered with a GPU sees an existing device, its own.** With `gpus` = CASCADE_GPU_COUNT devices 0..gpus-1:
the worker with index i is registered with gpu = 1 exactly when i < gpus, and then the one device it sees exists; a worker
registered without GPU sees no existing device. -/
theorem c02_gpu_registered (gpus nW i : Nat) (g : Bool) (h : (i, g) ∈ regGpu gpus nW) :
    i < nW ∧ (g = true ↔ i < gpus) ∧ (∀ d, d ∈ visible (cudaFields i) → (d < gpus ↔ g = true)) := by
  simp only [regGpu, List.mem_map, List.mem_range, Prod.mk.injEq] at h
  obtain ⟨a, ha, rfl, rfl⟩ := h
  refine ⟨ha, by simp, ?_⟩
  intro d hd
  rw [c02_gpu_own_device] at hd
  simp only [List.mem_cons, List.not_mem_nil, or_false] at hd
  subst hd
  simp

/-- the code before the repair: worker 12 of a host saw devices 1 and 2 -/
example : visible (cudaFieldsPinned 12) = [1, 2] := by
  simp [visible, cudaFieldsPinned, digits, ofDigits]

example : regGpu 2 4 = [(0, true), (1, true), (2, false), (3, false)] := by decide

end EkwVerif.ExecLayer
