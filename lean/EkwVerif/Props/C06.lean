/-
C06 — acknowledged messaging delivers each message exactly once despite loss or duplication;
else the sender raises after bounded retries; malformed frame sequences are rejected.

Property theorems (`c06_*`) over Model/Ack.lean and Model/Frames.lean. They hold for EVERY history
(`run (init …) ops`, any list of `Op`: the network adversary, the timers and the interleaving of
the endpoints are unrestricted). Helper lemmas: Lemmas/C06Inv.lean (the 16-conjunct invariant
`Inv`, its preservation by every step, the monotone facts `Later`, the retry-budget potential
`Prog`) and `namespace Aux` below.
-/
import EkwVerif.Lemmas.C06Inv
import EkwVerif.Gen.RetryLoops

namespace EkwVerif.Ack
open EkwVerif.Frames

/-- States reachable from freshly constructed endpoints (`cfg a` = resend grace and `add_host`
table of endpoint `a`) by any history of steps. `1 ≤ maxRetries` is a fact of the source
(`c06_budget_positive`). -/
def Reachable (s : Sys) : Prop :=
  ∃ (maxRetries : Nat) (cfg : Nat → Nat × (Nat → Option Nat)) (ops : List Op),
    1 ≤ maxRetries ∧ s = run (init maxRetries cfg) ops

/-- deliveries at `b` that arrived under `Syn(i, a)` -/
def deliveredUnder (s : Sys) (b i a : Nat) : Nat :=
  ((s.ep b).delivered.filterMap (·.syn)).count (i, a)

namespace Aux

theorem reachable_inv {s : Sys} (h : Reachable s) : Inv s := by
  obtain ⟨m, cfg, ops, hm, rfl⟩ := h
  exact run_inv (init_inv m cfg hm) ops

theorem reachable_run {s : Sys} (h : Reachable s) (ops : List Op) : Reachable (run s ops) := by
  obtain ⟨m, cfg, ops0, hm, rfl⟩ := h
  exact ⟨m, cfg, ops0 ++ ops, hm, (run_append _ _ _).symm⟩

theorem reachable_step {s : Sys} (h : Reachable s) (op : Op) : Reachable (step s op) :=
  reachable_run h [op]

theorem count_one {s : Sys} (hi : Inv s) {b i a : Nat} (hack : (s.ep b).acked i a = true) :
    deliveredUnder s b i a = 1 := by
  obtain ⟨d, hd, hs⟩ := hi.acked_del b i a hack
  have hmem : (i, a) ∈ (s.ep b).delivered.filterMap (·.syn) :=
    List.mem_filterMap.mpr ⟨d, hd, hs⟩
  unfold deliveredUnder
  rw [(hi.del_nodup b).count]; simp [hmem]

/-- `recv_messages` + dispatch (`drain`, used by the driver for one loop iteration) is a sequence
of `recv` steps: every theorem about histories covers it. -/
theorem drain_eq_run (a : Nat) (feeds : Bool) :
    ∀ (fuel upto : Nat) (s : Sys), ∃ ops : List Op,
      (∀ op ∈ ops, ∃ f, op = Op.recv a f) ∧ drain s a feeds upto fuel = run s ops := by
  intro fuel
  induction fuel with
  | zero => intro upto s; exact ⟨[], by simp, rfl⟩
  | succ n ih =>
    intro upto s
    cases hin : (s.ep a).inbox with
    | nil => exact ⟨[], by simp, by simp [drain, hin, run]⟩
    | cons fs rest =>
      by_cases hd : headIsDup s a = true
      · exact ⟨[Op.recv a (feeds && decide (0 < upto))],
          fun op hop => ⟨_, List.mem_singleton.mp hop⟩, by simp [drain, hin, hd, run, step]⟩
      · obtain ⟨ops, hops, heq⟩ := ih (upto - 1) (recv s a (feeds && decide (0 < upto)))
        refine ⟨Op.recv a (feeds && decide (0 < upto)) :: ops, ?_, ?_⟩
        · intro op hop
          rcases List.mem_cons.mp hop with h | h
          · exact ⟨_, h⟩
          · exact hops op h
        · simp [drain, hin, hd, run, step, heq]

theorem iteration_retry (a q : Nat) (l : LoopInfo) (sends : List (Nat × Nat)) (h : l.callsRetry = true) :
    iteration a q l sends =
      (List.replicate q (Op.recv a l.feedsAck) ++ sends.map (fun hm => Op.send a hm.1 hm.2)) ++ [Op.retry a] := by
  simp [iteration, h]

theorem iteration_mid_no_retry (a q : Nat) (f : Bool) (sends : List (Nat × Nat)) :
    Op.retry a ∉ List.replicate q (Op.recv a f) ++ sends.map (fun hm => Op.send a hm.1 hm.2) := by
  intro h
  rcases List.mem_append.mp h with h | h
  · have := List.eq_of_mem_replicate h; cases this
  · simp at h

end Aux

/-! ### at most once, and the right message -/

/-- **At most once.** In every reachable state, at every endpoint `b`: no two deliveries arrived
under the same `Syn(idx, addr)`, and a message delivered under `Syn(i, a)` is exactly the message
`m` that `a`'s `send` accepted under idx `i`, addressed to `b`. -/
theorem c06_at_most_once {s : Sys} (h : Reachable s) (b : Nat) :
    ((s.ep b).delivered.filterMap (·.syn)).Nodup ∧
    ∀ d ∈ (s.ep b).delivered, ∀ i a, d.syn = some (i, a) →
      ∃ host m, (s.ep a).log i = some (host, m) ∧ (s.ep a).hosts0 host = some b ∧
        d.body = Parsed.msg (Msg.app m) := by
  have hi := Aux.reachable_inv h
  exact ⟨hi.del_nodup b, fun d hd i a hs => (hi.del_ok b d i a hd hs).1⟩

/-- non-vacuity: a retransmitted message whose first copy AND retransmission both arrive is
delivered once (two frames received, one delivery, two Acks) -/
example :
    let s := run (init 20 (fun a => (800, lookup (if a = 0 then [(1, 1)] else [(0, 0)]))))
      [.send 0 1 7, .tick 0 801, .retry 0, .deliver 0, .deliver 0, .recv 1 true, .recv 1 true]
    ((s.ep 1).delivered.map (·.body)) = [Parsed.msg (Msg.app 7)] ∧ s.net.length = 2 := by
  decide

/-! ### no silent loss -/

/-- **No silent loss.** Every message accepted by `send` (idx below the sender's counter) is, in
every reachable state, still in `inflight` (with its host and payload), or has been handed to the
application of the endpoint it was addressed to — exactly that message, under its Syn. -/
theorem c06_no_silent_loss {s : Sys} (h : Reachable s) (a i : Nat) (hlt : i < (s.ep a).idx) :
    ∃ host m, (s.ep a).log i = some (host, m) ∧
      ((∃ r, (s.ep a).inflight i = some r ∧ r.host = host ∧ r.msg = m) ∨
       (∃ b d, (s.ep a).hosts0 host = some b ∧ d ∈ (s.ep b).delivered ∧ d.syn = some (i, a) ∧
          d.body = Parsed.msg (Msg.app m))) := by
  have hi := Aux.reachable_inv h
  rcases hi.infl a i hlt with hsome | ⟨host, m, b, hl, h0, hack⟩
  · cases hr : (s.ep a).inflight i with
    | none => simp [hr] at hsome
    | some r => exact ⟨r.host, r.msg, hi.infl_rec a i r hr hlt, Or.inl ⟨r, rfl, rfl, rfl⟩⟩
  · obtain ⟨d, hd, hs⟩ := hi.acked_del b i a hack
    obtain ⟨⟨host', m', hl', _, hb⟩, _⟩ := hi.del_ok b d i a hd hs
    rw [hl] at hl'; cases hl'
    exact ⟨host, m, hl, Or.inr ⟨b, d, h0, hd, hs, hb⟩⟩

/-- An `inflight` entry of an accepted message is removed only by the sender's own loop feeding
it the matching `Ack`; no other step (loss, duplication, retries, other endpoints) removes it. -/
theorem c06_inflight_removed_only_by_ack {s : Sys} (h : Reachable s) (op : Op) (a i : Nat) (r : Rec)
    (hlt : i < (s.ep a).idx) (hr : (s.ep a).inflight i = some r)
    (hgone : ((step s op).ep a).inflight i = none) :
    ∃ rest, op = Op.recv a true ∧ (s.ep a).inbox = ackFrames i :: rest := by
  rcases step_infl (Aux.reachable_inv h) op a i r hlt hr with ⟨r', hr', _⟩ | ⟨_, hx⟩
  · rw [hr'] at hgone; cases hgone
  · exact hx

/-- An `Ack(i)` addressed to `a` exists (on the wire or in a receive queue) only after some
endpoint's application was handed the message sent under `Syn(i, a)`. -/
theorem c06_ack_only_after_delivery {s : Sys} (h : Reachable s) (a i : Nat)
    (hack : (⟨a, ackFrames i⟩ : Packet) ∈ s.net ∨ ackFrames i ∈ (s.ep a).inbox) :
    ∃ b d, d ∈ (s.ep b).delivered ∧ d.syn = some (i, a) := by
  have hi := Aux.reachable_inv h
  have hok : PktOk s a (ackFrames i) := by
    rcases hack with h | h
    · exact hi.wire_net _ h
    · exact hi.wire_inbox a _ h
  rcases hok with ⟨a', i', m, hh, heq, _, _⟩ | ⟨i', b, heq, hb⟩ | ⟨m, heq⟩
  · simp [ackFrames, dataFrames] at heq
  · simp [ackFrames] at heq; subst heq
    obtain ⟨d, hd, hs⟩ := hi.acked_del b i a hb
    exact ⟨b, d, hd, hs⟩
  · simp [ackFrames] at heq

/-- In reachable states `_recv_one` never raises (every queued frame list is a legal shape). -/
theorem c06_no_parse_error_reachable {s : Sys} (h : Reachable s) (a : Nat) : (s.ep a).errors = 0 := by
  obtain ⟨m, cfg, ops, hm, rfl⟩ := h
  have : ∀ (ops : List Op) (s : Sys), Inv s → ((run s ops).ep a).errors = (s.ep a).errors := by
    intro ops
    induction ops with
    | nil => intro s _; rfl
    | cons op ops ih => intro s hi; simp only [run]; rw [ih _ (step_inv hi op), step_errors hi]
  rw [this ops _ (init_inv m cfg hm)]; rfl

/-- non-vacuity: all copies lost, the message is still in flight; after the retransmission gets
through it is delivered and, once the Ack arrives, no longer in flight -/
example :
    let s1 := run (init 20 (fun a => (800, lookup (if a = 0 then [(1, 1)] else [(0, 0)]))))
      [.send 0 1 7, .drop 0, .tick 0 801, .retry 0]
    let s2 := run s1 [.deliver 0, .recv 1 true, .deliver 0, .recv 0 true]
    ((s1.ep 0).inflight 0).isSome = true ∧ (s1.ep 1).delivered = [] ∧
    ((s2.ep 0).inflight 0).isSome = false ∧ (s2.ep 1).delivered.length = 1 := by
  decide

/-! ### bounded retries -/

/-- **Bounded retries.** As long as a sender has not raised, every message has been transmitted at
most `maxRetries` times, and the step that makes a transmission count reach `maxRetries + 1` is
the one in which `maybe_retry` raises: ≤ `maxRetries + 1` transmissions, then the raise. For a
message still in flight, transmissions + remaining budget = `maxRetries + 1`. -/
theorem c06_bounded_retries {s : Sys} (h : Reachable s) (a i : Nat) :
    ((s.ep a).raised = false → (s.ep a).sends i ≤ s.maxRetries) ∧
    (∀ op, (s.ep a).raised = false → ((step s op).ep a).sends i ≤ s.maxRetries + 1) ∧
    (s.maxRetries < (s.ep a).sends i → (s.ep a).raised = true) ∧
    (∀ r, i < (s.ep a).idx → (s.ep a).inflight i = some r →
        ((s.ep a).sends i : Int) + r.remaining = (s.maxRetries : Int) + 1 ∧
        (r.remaining ≤ 0 → (s.ep a).raised = true)) := by
  have hi := Aux.reachable_inv h
  have h1 : (s.ep a).raised = false → (s.ep a).sends i ≤ s.maxRetries := by
    intro hr
    rcases Nat.lt_or_ge s.maxRetries ((s.ep a).sends i) with hlt | hge
    · have := hi.over a i hlt; rw [hr] at this; cases this
    · exact hge
  refine ⟨h1, ?_, hi.over a i, ?_⟩
  · intro op hr
    have := step_sends_le hi op a i
    have := h1 hr
    omega
  · intro r hlt hr
    exact ⟨hi.budget a i r hr hlt, hi.exhausted a i r hr hlt⟩

/-- **The sender does raise.** Take any reachable state with message `i` of sender `a` in flight,
and any continuation that contains `n ≥ remaining budget` timer rounds of `a` (each: arbitrary
steps of anybody — `pre`; a's clock advances by more than the resend grace; arbitrary steps other
than a's `maybe_retry` — `mid`; a's `maybe_retry`), followed by anything (`tail`). Then at the
end the message has been acknowledged (hence delivered, `c06_no_silent_loss`), or the sender has
raised, or the destination host was removed from the sender (`hosts.pop`, shutdown of that
executor). The adversary may drop every frame: the conclusion is then "raised". -/
theorem c06_raises_within_budget {s : Sys} (h : Reachable s) (a i : Nat) (r : Rec)
    (hlt : i < (s.ep a).idx) (hr : (s.ep a).inflight i = some r)
    (rounds : List Round) (tail : List Op)
    (hrounds : ∀ x ∈ rounds, (s.ep a).grace < x.dt ∧ Op.retry a ∉ x.mid)
    (hn : r.remaining ≤ rounds.length) :
    let s' := run s (roundsOps a rounds ++ tail)
    (s'.ep a).inflight i = none ∨ (s'.ep a).raised = true ∨ (s'.ep a).hosts r.host = none := by
  intro s'
  have hi := Aux.reachable_inv h
  have hp0 : Prog s a i r.host r.remaining := Or.inr (Or.inr (Or.inr ⟨r, hr, Int.le_refl _, rfl⟩))
  obtain ⟨hp, hi1, hlt1⟩ := Prog.afterRounds (a := a) (i := i) (h := r.host) (g := (s.ep a).grace)
    rounds s r.remaining hi hlt rfl hrounds hp0
  have hl := run_later hi1 tail
  have hp' : Prog s' a i r.host (r.remaining - rounds.length) := by
    show Prog (run s (roundsOps a rounds ++ tail)) _ _ _ _
    rw [run_append]; exact Prog.later hl hlt1 hp
  have hi' : Inv s' := by
    show Inv (run s (roundsOps a rounds ++ tail)); rw [run_append]; exact run_inv hi1 tail
  have hlt' : i < (s'.ep a).idx := by
    show i < ((run s (roundsOps a rounds ++ tail)).ep a).idx
    rw [run_append]; exact Nat.lt_of_lt_of_le hlt1 (hl.idx a)
  rcases hp' with hp' | hp' | hp' | ⟨r', hr', h1, _⟩
  · exact Or.inr (Or.inl hp')
  · exact Or.inr (Or.inr hp')
  · exact Or.inl hp'
  · exact Or.inr (Or.inl (hi'.exhausted a i r' hr' hlt' (by omega)))

/-- The budget of every in-flight message is at most `maxRetries`: `maxRetries` timer rounds
always suffice in `c06_raises_within_budget`. -/
theorem c06_budget_le_max {s : Sys} (h : Reachable s) (a i : Nat) (r : Rec)
    (hlt : i < (s.ep a).idx) (hr : (s.ep a).inflight i = some r) : r.remaining ≤ s.maxRetries := by
  have hi := Aux.reachable_inv h
  have := hi.budget a i r hr hlt
  have := hi.sends_pos a i hlt
  omega

/-- ops of a sequence of iterations of loop `l` at endpoint `a`; each element of `iters` is
(arbitrary steps before, clock advance, number of queued messages received, own sends) -/
def loopOps (a : Nat) (l : LoopInfo) (iters : List (List Op × Nat × Nat × List (Nat × Nat))) : List Op :=
  iters.flatMap (fun x => x.1 ++ [Op.tick a x.2.1] ++ iteration a x.2.2.1 l x.2.2.2)

/-- "a sender driven by loop `l` raises within the budget": from any reachable state with message
`i` in flight at `a`, after `maxRetries` iterations of `l` at `a`, each preceded by a clock advance
beyond the resend grace (and by arbitrary steps of anybody, the network adversary included), the
message was acknowledged, or the sender raised, or the destination host was removed. -/
def LoopRaises (l : LoopInfo) : Prop :=
  ∀ (s : Sys), Reachable s → ∀ (a i : Nat) (r : Rec), i < (s.ep a).idx → (s.ep a).inflight i = some r →
    ∀ iters : List (List Op × Nat × Nat × List (Nat × Nat)),
      (∀ x ∈ iters, (s.ep a).grace < x.2.1) → s.maxRetries ≤ iters.length →
        ((run s (loopOps a l iters)).ep a).inflight i = none ∨
        ((run s (loopOps a l iters)).ep a).raised = true ∨
        ((run s (loopOps a l iters)).ep a).hosts r.host = none

namespace Aux
theorem loopOps_rounds (a : Nat) (l : LoopInfo) (hl : l.callsRetry = true)
    (iters : List (List Op × Nat × Nat × List (Nat × Nat))) :
    loopOps a l iters = roundsOps a (iters.map (fun x =>
      { pre := x.1, dt := x.2.1,
        mid := List.replicate x.2.2.1 (Op.recv a l.feedsAck) ++ x.2.2.2.map (fun hm => Op.send a hm.1 hm.2) })) := by
  induction iters with
  | nil => rfl
  | cons x xs ih =>
    simp only [loopOps, List.flatMap_cons, List.map_cons, roundsOps, Round.ops] at ih ⊢
    rw [Aux.iteration_retry _ _ _ _ hl, ih]
    simp [List.append_assoc]
end Aux

/-- The same in terms of endpoint-loop iterations: a loop whose row in the table says
`callsRetry` makes its sender raise within the budget (iterations are timer rounds). -/
theorem c06_loop_raises_within_budget (l : LoopInfo) (hl : l.callsRetry = true) : LoopRaises l := by
  intro s h a i r hlt hr iters hdt hn
  have hb := c06_budget_le_max h a i r hlt hr
  have := c06_raises_within_budget h a i r hlt hr
    (iters.map (fun x =>
      { pre := x.1, dt := x.2.1,
        mid := List.replicate x.2.2.1 (Op.recv a l.feedsAck) ++ x.2.2.2.map (fun hm => Op.send a hm.1 hm.2) })) []
    (by
      intro x hx
      simp only [List.mem_map] at hx
      obtain ⟨y, hy, rfl⟩ := hx
      exact ⟨hdt y hy, Aux.iteration_mid_no_retry _ _ _ _⟩)
    (by simp only [List.length_map]; omega)
  simp only [List.append_nil] at this
  rw [Aux.loopOps_rounds a l hl]
  exact this

/-- non-vacuity: with `maxRetries = 2` and a network that loses everything, the second retry
raises, after 3 transmissions -/
example :
    let s := run (init 2 (fun a => (800, lookup (if a = 0 then [(1, 1)] else [(0, 0)]))))
      [.send 0 1 7, .drop 0, .tick 0 801, .retry 0, .drop 0, .tick 0 801, .retry 0]
    (s.ep 0).raised = true ∧ (s.ep 0).sends 0 = 3 ∧ ((s.ep 0).inflight 0).isSome = true := by
  decide

/-! ### one surviving copy suffices -/

/-- **Delivery if one copy survives.**
(1) If a receive step at `b` processes a data frame `[Syn(i,a), m]` — some transmission survived
the network — then an `Ack(i)` to `a` is emitted and from then on, whatever happens (further
duplicates, retries, anything), `b`'s application has been handed exactly one message under
`Syn(i, a)`, and it is `m`.
(2) If a receive step of `a`'s loop (a loop that feeds Acks) processes `Ack(i)` — some
acknowledgement survived — then message `i` leaves `inflight` and from then on is never
transmitted again (so it can never make the sender raise). -/
theorem c06_delivers_if_one_survives {s : Sys} (h : Reachable s) :
    (∀ (b i a m : Nat) (rest : List (List Frame)) (feeds : Bool) (tail : List Op),
      (s.ep b).inbox = dataFrames i a m :: rest →
        (⟨a, ackFrames i⟩ : Packet) ∈ (recv s b feeds).net ∧
        deliveredUnder (run (recv s b feeds) tail) b i a = 1 ∧
        ∀ d ∈ ((run (recv s b feeds) tail).ep b).delivered, d.syn = some (i, a) →
          d.body = Parsed.msg (Msg.app m)) ∧
    (∀ (a i : Nat) (rest : List (List Frame)) (tail : List Op),
      (s.ep a).inbox = ackFrames i :: rest → i < (s.ep a).idx →
        ((run (recv s a true) tail).ep a).inflight i = none ∧
        ((run (recv s a true) tail).ep a).sends i = (s.ep a).sends i) := by
  have hi := Aux.reachable_inv h
  constructor
  · intro b i a m rest feeds tail hin
    have hi1 : Inv (recv s b feeds) := recv_inv hi b feeds
    have hok := hi.wire_inbox b _ (by rw [hin]; exact List.mem_cons_self)
    have hlog : ∃ host, (s.ep a).log i = some (host, m) := by
      rcases hok with ⟨a', i', m', hh, heq, hl, _⟩ | ⟨i', c, heq, _⟩ | ⟨m', heq⟩
      · simp [dataFrames] at heq; obtain ⟨⟨rfl, rfl⟩, rfl⟩ := heq; exact ⟨hh, hl⟩
      · simp [dataFrames, ackFrames] at heq
      · simp [dataFrames] at heq
    obtain ⟨host, hlog⟩ := hlog
    have hack1 : ((recv s b feeds).ep b).acked i a = true := by
      cases hack : (s.ep b).acked i a with
      | true => rw [recv_data_dup_ep feeds hin hack]; exact hack
      | false => rw [recv_data_new_ep feeds hin hack]; simp
    have hl := run_later hi1 tail
    have hi2 := run_inv hi1 tail
    refine ⟨by rw [recv_data_net feeds hin]; simp, Aux.count_one hi2 (hl.acked _ _ _ hack1), ?_⟩
    intro d hd hs
    obtain ⟨⟨host', m', hl', _, hb⟩, _⟩ := hi2.del_ok b d i a hd hs
    have := hl.log a i _ ((recv_later hi b feeds).log a i _ hlog)
    rw [this] at hl'; cases hl'; exact hb
  · intro a i rest tail hin hlt
    have hi1 : Inv (recv s a true) := recv_inv hi a true
    have hnone : ((recv s a true).ep a).inflight i = none := by rw [recv_ack_ep true hin]; simp
    have hsends : ((recv s a true).ep a).sends i = (s.ep a).sends i := by rw [recv_ack_ep true hin]
    have hidx : ((recv s a true).ep a).idx = (s.ep a).idx := by rw [recv_ack_ep true hin]
    have := (run_later hi1 tail).inflNone a i (by rw [hidx]; exact hlt) hnone
    exact ⟨this.1, by rw [this.2, hsends]⟩

/-- non-vacuity / end to end: first copy lost, the retransmission and its Ack get through;
afterwards even a duplicate of the data frame and further timer rounds change nothing -/
example :
    let s := run (init 20 (fun a => (800, lookup (if a = 0 then [(1, 1)] else [(0, 0)]))))
      [.send 0 1 7, .drop 0, .tick 0 801, .retry 0, .dup 0, .recv 1 true, .deliver 1, .recv 0 true,
       .deliver 0, .recv 1 true, .tick 0 5000, .retry 0]
    deliveredUnder s 1 0 0 = 1 ∧ ((s.ep 0).inflight 0).isSome = false ∧ (s.ep 0).sends 0 = 2 ∧
      (s.ep 0).raised = false := by
  decide

/-! ### the frame-sequence parser -/

/-- **Parser sound and complete.** `parse` (the content a frame list denotes) succeeds exactly on
the four legal shapes; `recvOne` (= `Listener._recv_one`) returns a message iff the list is a
legal shape carrying exactly that message and its Syn (if any) was not seen before; it returns
"nothing" exactly for a (non-bare) list under an already acknowledged Syn — never a different
message; everything else raises. An `Ack` goes out iff the first frame is a Syn, and only a Syn
that was not seen before is recorded. -/
theorem c06_parse_sound_complete (acked : Nat → Nat → Bool) (fs : List Frame) :
    (∀ syn p, parse fs = .ok (syn, p) ↔ Legal fs syn p) ∧
    (∀ p, (recvOne acked fs).res = .ok (some p) ↔
      ∃ syn, Legal fs syn p ∧ ∀ i a, syn = some (i, a) → acked i a = false) ∧
    ((recvOne acked fs).res = .ok none ↔
      ∃ i a f rest, fs = Frame.syn i a :: f :: rest ∧ acked i a = true) ∧
    (∀ ad i, (recvOne acked fs).ack = some (ad, i) ↔ ∃ rest, fs = Frame.syn i ad :: rest) ∧
    (∀ i a, (recvOne acked fs).mark = some (i, a) ↔
      ∃ f rest, fs = Frame.syn i a :: f :: rest ∧ acked i a = false) := by
  exact ⟨fun syn p => parse_iff fs syn p, fun p => recv_some_iff acked fs p, recv_none_iff acked fs,
    fun ad i => recv_ack_iff acked fs ad i, fun i a => recv_mark_iff acked fs i a⟩

/-- non-vacuity: the four legal shapes, a duplicate, and some malformed sequences -/
example :
    (recvOne (fun _ _ => false) [.syn 3 1, .msg (.app 9)]).res = .ok (some (.msg (.app 9))) ∧
    (recvOne (fun _ _ => false) [.syn 3 1, .hdr 4, .junk 0]).res = .ok (some (.payload 4 (.junk 0))) ∧
    (recvOne (fun _ _ => false) [.msg (.ack 2)]).res = .ok (some (.msg (.ack 2))) ∧
    (recvOne (fun _ _ => false) [.hdr 4, .msg (.app 1)]).res = .ok (some (.payload 4 (.msg (.app 1)))) ∧
    (recvOne (fun i a => i == 3 && a == 1) [.syn 3 1, .msg (.app 9)]).res = .ok none ∧
    (recvOne (fun _ _ => false) [.syn 3 1]).res = .error .synOnly ∧
    (recvOne (fun _ _ => false) [.syn 3 1, .syn 3 1]).res = .error .doubleSyn ∧
    (recvOne (fun _ _ => false) [.msg (.app 9), .msg (.app 9)]).res = .error .len1 ∧
    (recvOne (fun _ _ => false) []).res = .error .empty ∧
    (recvOne (fun _ _ => false) [.syn 3 1, .syn 3 1]).ack = some (1, 3) :=
  ⟨rfl, rfl, rfl, rfl, rfl, rfl, rfl, rfl, rfl, rfl⟩

/-! ### the endpoint loops (generated table `Gen.RetryLoops`) -/

/-- `comms.max_retries_per_message ≥ 1` (needed by `Reachable`: with 0 the first retry would be the
second transmission and raise only after it). -/
theorem c06_budget_positive : 1 ≤ EkwVerif.Gen.RetryLoops.maxRetries := by decide

/-- Every steady-state receive loop of a class that owns a ReliableSender (`Bridge.recv_events`,
`Executor.recv_loop`) feeds `Ack`s to `sender.ack` and calls `sender.maybe_retry()` in every
iteration. PARTIAL: the shutdown-phase loop `Bridge.shutdown` does neither (known finding
C06-bridge-shutdown-unacked; see `c06_retry_loops_ok_full_fails`); start-up loops run before
anything is sent. -/
theorem c06_retry_loops_ok_partial :
    ∀ l ∈ EkwVerif.Gen.RetryLoops.loops, l.phase = Phase.steady → l.feedsAck = true ∧ l.callsRetry = true := by
  decide

/-- the full statement (every loop that runs while messages may be in flight) is false of the
pinned tree: witness `Bridge.shutdown` -/
theorem c06_retry_loops_ok_full_fails :
    ¬ ∀ l ∈ EkwVerif.Gen.RetryLoops.loops, l.phase ≠ Phase.startup → l.feedsAck = true ∧ l.callsRetry = true := by
  decide

/-- Senders driven by the steady-state loops of the table raise within the budget. PARTIAL: only
the steady-state loops; what is missing is the shutdown loop (`c06_loop_raises_full_fails`). -/
theorem c06_loop_raises_partial :
    ∀ l ∈ EkwVerif.Gen.RetryLoops.loops, l.phase = Phase.steady → LoopRaises l := by
  intro l hl hp
  exact c06_loop_raises_within_budget l (c06_retry_loops_ok_partial l hl hp).2

/-- The full statement fails: in the model of the pinned `Bridge.shutdown` loop a lost
`ExecutorShutdown` is neither resent nor reported, however long the loop runs. Witness: one
message, its only transmission dropped, then 20 iterations each after 1001 ms. The harness replays
this history on the real `Bridge.shutdown` on every run. -/
theorem c06_loop_raises_full_fails : ¬ ∀ l ∈ EkwVerif.Gen.RetryLoops.loops, LoopRaises l := by
  intro h
  let l : LoopInfo := { name := "Bridge.shutdown", phase := .shutdown, feedsAck := false, callsRetry := false }
  have hl : l ∈ EkwVerif.Gen.RetryLoops.loops := by decide
  let cfg : Nat → Nat × (Nat → Option Nat) := fun a => (800, lookup (if a = 0 then [(1, 1)] else [(0, 0)]))
  have hreach : Reachable (run (init 20 cfg) [.send 0 1 7, .drop 0]) := ⟨20, cfg, _, by decide, rfl⟩
  have := h l hl _ hreach 0 0 ⟨1, 7, 0, 20⟩ (by decide) (by decide)
    (List.replicate 20 ([], 1001, 1, [])) (by decide) (by decide)
  revert this
  decide

end EkwVerif.Ack
