/-
C06 — acknowledged messaging delivers each message exactly once despite loss or duplication;
else the sender raises after bounded retries; malformed frame sequences are rejected.

Property theorems (`c06_*`) over Model/Ack.lean and Model/Frames.lean. They hold for EVERY history
(`run (init …) ops`, any list of `Op`: the network adversary, the timers and the interleaving of
the endpoints are unrestricted). Two levels: the Listener level (`delivered`: accepted by
`_recv_one`, acknowledged) and the application level (`handled`: taken by the loop body / returned
by `Bridge.recv_events`). An acknowledged message travels in one of TWO wire shapes
(`dataFrames`): `[Syn, pickled message]` (`ReliableSender.send`) or, for a DatasetTransmitPayload
(message ids ≥ `dataBase`), `[Syn, pickled header, raw value]` (`comms.send_data`); what the
destination's `_recv_one` returns for message `m` is `bodyOf m` (`Parsed.msg (.app m)` resp.
`Parsed.payload m (.msg (.app m))`). Every history theorem covers both shapes; the section "both
wire shapes" states that deduplication does not depend on the shape. Helper lemmas: Lemmas/C06Inv.lean (the 17-conjunct invariant `Inv`, its
preservation by every step, the monotone facts `Later`, the retry-budget potential `Prog`),
Lemmas/C06App.lean (`InvA`: where an accepted message is; `InvF`: what survives forged frames),
Lemmas/C06Time.lean (the deadline potential `ProgT`), Lemmas/C06Forged.lean (`InvM`: accepted messages
stay genuine when malformed lists are injected) and `namespace Aux` below.
"The sender raises" = the flag `raised` set by the `maybe_retry` call; the section "the raise ENDS
the loop" (`loopFrom`, `c06_raise_ends_loop`) says what the loops of the generated table do with it.
Obligations about the SOURCE SHAPE (generated, `decide`): `c06_steady_loops_raise_ends`,
`c06_source_monotone`, `c06_recv_only_loops`, besides the older loop-table theorems.
-/
import EkwVerif.Lemmas.C06App
import EkwVerif.Lemmas.C06Time
import EkwVerif.Lemmas.C06Forged
import EkwVerif.Gen.RetryLoops

namespace EkwVerif.Ack
open EkwVerif.Frames

/-- States reachable from freshly constructed endpoints (`cfg a` = resend grace and `add_host`
table of endpoint `a`) by any history of steps. `1 ≤ maxRetries` is a fact of the source
(`c06_budget_positive`). -/
def Reachable (s : Sys) : Prop :=
  ∃ (maxRetries : Nat) (cfg : Nat → Nat × (Nat → Option Nat)) (ops : List Op),
    1 ≤ maxRetries ∧ s = run (init maxRetries cfg) ops

/-- deliveries at `b` that arrived under `Syn(i, a)` -/
def deliveredUnder (s : Sys) (b i a : Nat) : Nat :=
  ((s.ep b).delivered.filterMap (·.syn)).count (i, a)

/-- everything the Listener of `b` accepted and that is owed to `b`'s application, by place:
handed over, discarded by an abandoned iteration, waiting in `events`, waiting in the batch -/
def accountedAt (s : Sys) (b : Nat) : List Delivery :=
  (s.ep b).handled ++ (s.ep b).lost ++ (s.ep b).staged ++ payloads (s.ep b).batch

/-- accepted, not yet handed over, not discarded: the iteration in progress will hand it over -/
def pendingAt (s : Sys) (b : Nat) : List Delivery := (s.ep b).staged ++ payloads (s.ep b).batch

/-- the delivery that message `m`, sent under `Syn(i, a)`, gives rise to (`bodyOf m`: the message
itself, or header + value for a payload id) -/
def dlv (i a m : Nat) : Delivery := ⟨some (i, a), bodyOf m⟩

namespace Aux

theorem reachable_inv {s : Sys} (h : Reachable s) : Inv s := by
  obtain ⟨m, cfg, ops, hm, rfl⟩ := h
  exact run_inv (init_inv m cfg hm) ops

theorem reachable_invA {s : Sys} (h : Reachable s) : InvA s := by
  obtain ⟨m, cfg, ops, hm, rfl⟩ := h
  exact run_invA (init_invA m cfg) ops

theorem accounted_perm {s : Sys} (h : InvA s) (b : Nat) : (accountedAt s b).Perm (s.ep b).delivered :=
  h.split b

theorem reachable_run {s : Sys} (h : Reachable s) (ops : List Op) : Reachable (run s ops) := by
  obtain ⟨m, cfg, ops0, hm, rfl⟩ := h
  exact ⟨m, cfg, ops0 ++ ops, hm, (run_append _ _ _).symm⟩

theorem reachable_step {s : Sys} (h : Reachable s) (op : Op) : Reachable (step s op) :=
  reachable_run h [op]

theorem count_one {s : Sys} (hi : Inv s) {b i a : Nat} (hack : (s.ep b).acked i a = true) :
    deliveredUnder s b i a = 1 := by
  obtain ⟨d, hd, hs⟩ := hi.acked_del b i a hack
  have hmem : (i, a) ∈ (s.ep b).delivered.filterMap (·.syn) :=
    List.mem_filterMap.mpr ⟨d, hd, hs⟩
  unfold deliveredUnder
  rw [(hi.del_nodup b).count]; simp [hmem]

/-- `recv_messages` (`recvMessages`) is a sequence of `collect` steps: every theorem about
histories covers it. -/
theorem recvMessages_eq_run (a : Nat) :
    ∀ (fuel : Nat) (s : Sys), ∃ n : Nat, recvMessages s a fuel = run s (List.replicate n (Op.collect a)) := by
  intro fuel
  induction fuel with
  | zero => intro s; exact ⟨0, rfl⟩
  | succ n ih =>
    intro s
    cases hin : (s.ep a).inbox with
    | nil => exact ⟨0, by simp [recvMessages, hin, run]⟩
    | cons fs rest =>
      by_cases hd : headStops s a = true
      · exact ⟨1, by simp [recvMessages, hin, hd, run, step]⟩
      · obtain ⟨k, hk⟩ := ih (collect s a)
        exact ⟨k + 1, by simp [recvMessages, hin, hd, run, step, hk, List.replicate_succ]⟩

theorem iteration_retry (a : Nat) (l : LoopInfo) (body : List Op) (h : l.callsRetry = true) :
    iteration a l body = body ++ [Op.retry a] := by
  simp [iteration, h]

end Aux

/-! ### at most once, and the right message (Listener level) -/

/-- **At most once.** In every reachable state, at every endpoint `b`: no two deliveries arrived
under the same `Syn(idx, addr)`, and a message delivered under `Syn(i, a)` is exactly the message
`m` that `a`'s `send` accepted under idx `i`, addressed to `b` — in either wire shape (`bodyOf m`:
for `m < dataBase` this is `Parsed.msg (Msg.app m)`, for a payload id `Parsed.payload m …`). -/
theorem c06_at_most_once {s : Sys} (h : Reachable s) (b : Nat) :
    ((s.ep b).delivered.filterMap (·.syn)).Nodup ∧
    ∀ d ∈ (s.ep b).delivered, ∀ i a, d.syn = some (i, a) →
      ∃ host m, (s.ep a).log i = some (host, m) ∧ (s.ep a).hosts0 host = some b ∧
        d.body = bodyOf m := by
  have hi := Aux.reachable_inv h
  exact ⟨hi.del_nodup b, fun d hd i a hs => (hi.del_ok b d i a hd hs).1⟩

/-- non-vacuity: a retransmitted message whose first copy AND retransmission both arrive is
delivered once (two frames received, one accepted, two Acks) -/
example :
    let s := run (init 20 (fun a => (800, lookup (if a = 0 then [(1, 1)] else [(0, 0)]))))
      [.send 0 1 7, .tick 0 801, .retry 0, .deliver 0, .deliver 0, .collect 1, .collect 1]
    ((s.ep 1).delivered.map (·.body)) = [Parsed.msg (Msg.app 7)] ∧ s.net.length = 2 := by
  decide

/-! ### application level: what the loop body takes / `recv_events` returns -/

/-- **At most once, application level.** In every reachable state, at every endpoint `b`: over
everything the application was handed (`handled`) together with what is still waiting for it
(`staged`, `batch`) and what an abandoned iteration discarded (`lost`), no Syn occurs twice — in
particular nothing is handed over twice, and nothing is both handed over and discarded — and an
entry under `Syn(i, a)` is exactly the message `a`'s `send` accepted under idx `i`, addressed to `b`. -/
theorem c06_app_at_most_once {s : Sys} (h : Reachable s) (b : Nat) :
    ((accountedAt s b).filterMap (·.syn)).Nodup ∧
    ∀ d ∈ accountedAt s b, ∀ i a, d.syn = some (i, a) →
      ∃ host m, (s.ep a).log i = some (host, m) ∧ (s.ep a).hosts0 host = some b ∧ d = dlv i a m := by
  have hi := Aux.reachable_inv h
  have hp := Aux.accounted_perm (Aux.reachable_invA h) b
  refine ⟨(hp.filterMap _).nodup_iff.mpr (hi.del_nodup b), ?_⟩
  intro d hd i a hs
  obtain ⟨⟨host, m, hl, h0, hb⟩, _⟩ := hi.del_ok b d i a (hp.mem_iff.mp hd) hs
  refine ⟨host, m, hl, h0, ?_⟩
  cases d; simp only [dlv] at *; subst hs; subst hb; rfl

/-- **Accounted for, application level** (every history, nothing excluded). Every message accepted
by `send` is still in `inflight`, or the destination's Listener accepted it and it is in exactly
one of: handed to the application, waiting in the iteration in progress, discarded by an abandoned
iteration — exactly once over the three. -/
theorem c06_app_accounted {s : Sys} (h : Reachable s) (a i : Nat) (hlt : i < (s.ep a).idx) :
    ∃ host m, (s.ep a).log i = some (host, m) ∧
      ((∃ r, (s.ep a).inflight i = some r ∧ r.host = host ∧ r.msg = m) ∨
       (∃ b, (s.ep a).hosts0 host = some b ∧ (accountedAt s b).count (dlv i a m) = 1)) := by
  have hi := Aux.reachable_inv h
  rcases hi.infl a i hlt with hsome | ⟨host, m, b, hl, h0, hack⟩
  · cases hr : (s.ep a).inflight i with
    | none => simp [hr] at hsome
    | some r => exact ⟨r.host, r.msg, hi.infl_rec a i r hr hlt, Or.inl ⟨r, rfl, rfl, rfl⟩⟩
  · refine ⟨host, m, hl, Or.inr ⟨b, h0, ?_⟩⟩
    rw [(Aux.accounted_perm (Aux.reachable_invA h) b).count_eq]
    have huniq : ∀ d' ∈ (s.ep b).delivered, d'.syn = some (i, a) → d' = dlv i a m := by
      intro d' hd' hs'
      obtain ⟨⟨host', m', hl', _, hb'⟩, _⟩ := hi.del_ok b d' i a hd' hs'
      rw [hl] at hl'; cases hl'
      cases d'; simp only [dlv] at *; subst hs'; subst hb'; rfl
    rw [count_eq_filterMap (dlv i a m) (i, a) rfl _ huniq]
    exact Aux.count_one hi hack

/-- Nothing is discarded except by an abandoned iteration: a step other than `abort b` leaves
`lost` (and the count of abandoned iterations) of `b` as it is — in particular `recv_messages`
itself never raises on what a non-forging network delivers. `abort b` discards exactly what was
waiting. -/
theorem c06_lost_only_by_abort {s : Sys} (h : Reachable s) (b : Nat) :
    (∀ op, op ≠ Op.abort b →
      ((step s op).ep b).lost = (s.ep b).lost ∧ ((step s op).ep b).aborts = (s.ep b).aborts) ∧
    ((step s (Op.abort b)).ep b).lost = (s.ep b).lost ++ pendingAt s b ∧
    ((step s (Op.abort b)).ep b).handled = (s.ep b).handled := by
  refine ⟨fun op hop => step_lost (Aux.reachable_inv h) op b hop, ?_, ?_⟩
  · simp [step, abort_ep, pendingAt, List.append_assoc]
  · simp [step, abort_ep]

/-- **Exactly once, application level — PARTIAL.** In a history in which the destination `b`
never abandons an iteration (no `break` out of the dispatch, no handler exception, no
`shutdown_reason`, hypothesis `Op.abort b ∉ ops`), every message accepted by `send` and addressed
to `b` is still in flight, or it has been handed to `b`'s application or is waiting in `b`'s
iteration in progress — exactly once over the two. Missing: histories with an abandoned iteration
(`c06_app_exactly_once_full_fails`). -/
theorem c06_app_exactly_once_partial (maxRetries : Nat) (cfg : Nat → Nat × (Nat → Option Nat)) (ops : List Op)
    (hm : 1 ≤ maxRetries) (b : Nat) (hno : Op.abort b ∉ ops) :
    let s := run (init maxRetries cfg) ops
    ∀ a i host m, i < (s.ep a).idx → (s.ep a).log i = some (host, m) → (s.ep a).hosts0 host = some b →
      (s.ep a).inflight i ≠ none ∨ ((s.ep b).handled ++ pendingAt s b).count (dlv i a m) = 1 := by
  intro s a i host m hlt hl h0
  have hr : Reachable s := ⟨maxRetries, cfg, ops, hm, rfl⟩
  have hlost : (s.ep b).lost = [] := by
    have h1 := run_lost (init_inv maxRetries cfg hm) ops b hno
    have h2 := (Aux.reachable_invA hr).lost_aborts b
    cases hl' : (s.ep b).lost with
    | nil => rfl
    | cons x xs =>
      have : 0 < (s.ep b).aborts := h2 (by rw [hl']; simp)
      have h3 : (s.ep b).aborts = 0 := by rw [h1.2]; simp [init, mkEndpoint]
      omega
  obtain ⟨host', m', hl', hcase⟩ := c06_app_accounted hr a i hlt
  rw [hl] at hl'; cases hl'
  rcases hcase with ⟨r, hr', _, _⟩ | ⟨b', h0', hc⟩
  · left; rw [hr']; simp
  · right
    rw [h0] at h0'; cases h0'
    simpa [accountedAt, pendingAt, hlost, List.append_assoc] using hc

/-- The full statement (without the hypothesis on `b`) is false: the Listener acknowledges when it
accepts, before the loop body sees the message. Witness: the message is accepted and acknowledged
at `1`, the iteration is abandoned, the Ack reaches the sender — not in flight, never handed over.
The harness replays such histories on the real loops (break at ExecutorShutdown, handler
exception, `shutdown_reason` discarding collected events). -/
theorem c06_app_exactly_once_full_fails :
    ¬ ∀ (maxRetries : Nat) (cfg : Nat → Nat × (Nat → Option Nat)) (ops : List Op), 1 ≤ maxRetries → ∀ b,
      let s := run (init maxRetries cfg) ops
      ∀ a i host m, i < (s.ep a).idx → (s.ep a).log i = some (host, m) → (s.ep a).hosts0 host = some b →
        (s.ep a).inflight i ≠ none ∨ ((s.ep b).handled ++ pendingAt s b).count (dlv i a m) = 1 := by
  intro h
  have := h 20 (fun a => (800, lookup (if a = 0 then [(1, 1)] else [(0, 0)])))
    [.send 0 1 7, .deliver 0, .collect 1, .abort 1, .deliver 0, .collect 0, .process 0 true false]
    (by decide) 1 0 0 1 7 (by decide) (by decide) (by decide)
  revert this
  decide

/-- **An iteration that is not abandoned hands everything over.** From any state: when the loop
body takes every message of the batch (`process`, with whatever flags) and `recv_events` returns
(`commit`), nothing is waiting any more and everything that was waiting has been handed to the
application; nothing is discarded. -/
theorem c06_iteration_hands_over (a : Nat) :
    ∀ (fl : List (Bool × Bool)) (s : Sys), (s.ep a).batch.length ≤ fl.length →
      let s' := run s (fl.map (fun x => Op.process a x.1 x.2) ++ [Op.commit a])
      (s'.ep a).batch = [] ∧ (s'.ep a).staged = [] ∧ (s'.ep a).lost = (s.ep a).lost ∧
      (∀ d, d ∈ (s.ep a).handled ∨ d ∈ pendingAt s a → d ∈ (s'.ep a).handled) := by
  intro fl
  induction fl with
  | nil =>
    intro s hlen
    have hb : (s.ep a).batch = [] := List.eq_nil_of_length_eq_zero (by simpa using hlen)
    simp only [List.map_nil, List.nil_append, run, step, commit_ep, pendingAt, hb, payloads, List.filter_nil,
      List.append_nil, if_true, true_and]
    exact fun d hd => by simpa using hd
  | cons x xs ih =>
    intro s hlen
    simp only [List.map_cons, List.cons_append, run, step]
    have key : ((process s a x.1 x.2).ep a).batch.length ≤ xs.length ∧
        ((process s a x.1 x.2).ep a).lost = (s.ep a).lost ∧
        (∀ d, d ∈ (s.ep a).handled ∨ d ∈ pendingAt s a →
          d ∈ ((process s a x.1 x.2).ep a).handled ∨ d ∈ pendingAt (process s a x.1 x.2) a) := by
      cases hb : (s.ep a).batch with
      | nil =>
        rw [process_empty x.1 x.2 hb]
        exact ⟨by simp [hb], rfl, fun d hd => hd⟩
      | cons d0 rest =>
        have hlen' : rest.length ≤ xs.length := by simpa [hb] using hlen
        cases hd0 : d0.isAck with
        | false =>
          simp only [process_msg_ep x.1 x.2 hb hd0, pendingAt, hb, payloads_cons_msg _ hd0, true_and, if_true]
          refine ⟨hlen', ?_⟩
          intro d hd
          cases x.2 <;> simp at hd ⊢ <;> grind
        | true =>
          obtain ⟨sy, body⟩ := d0
          have : ∃ i', body = Parsed.msg (Msg.ack i') := by
            cases body with
            | msg m => cases m with
              | ack i' => exact ⟨i', rfl⟩
              | app m => simp [Delivery.isAck] at hd0
            | payload h v => simp [Delivery.isAck] at hd0
          obtain ⟨i', rfl⟩ := this
          simp only [process_ack_ep x.1 x.2 hb, pendingAt, hb, payloads_cons_ack _ hd0, if_true]
          exact ⟨hlen', trivial, fun d hd => hd⟩
    obtain ⟨h1, h2, h3, h4⟩ := ih (process s a x.1 x.2) key.1
    exact ⟨h1, h2, h3.trans key.2.1, fun d hd => h4 d (key.2.2 d hd)⟩

/-- non-vacuity: a batch of a data message and an Ack at a Bridge-like endpoint: the message is
staged, then returned; at an Executor-like endpoint the message is handled when taken -/
example :
    let s := run (init 20 (fun a => (800, lookup (if a = 0 then [(1, 1)] else [(0, 0)]))))
      [.send 0 1 7, .send 1 0 9, .deliver 0, .deliver 0, .collect 1, .collect 0, .deliver 1, .collect 1]
    let s1 := run s [.process 1 true false, .process 1 true false]
    let s0 := run s [.process 0 true true]
    let s0' := run s0 [.commit 0]
    (s.ep 1).batch.length = 2 ∧ (s1.ep 1).handled = [dlv 0 0 7] ∧ ((s1.ep 1).inflight 0).isSome = false ∧
    (s0.ep 0).handled = [] ∧ (s0.ep 0).staged = [dlv 0 1 9] ∧ (s0'.ep 0).handled = [dlv 0 1 9] := by
  decide

/-! ### no silent loss (Listener level) -/

/-- **No silent loss.** Every message accepted by `send` (idx below the sender's counter) is, in
every reachable state, still in `inflight` (with its host and payload), or has been handed to the
application of the endpoint it was addressed to — exactly that message, under its Syn. -/
theorem c06_no_silent_loss {s : Sys} (h : Reachable s) (a i : Nat) (hlt : i < (s.ep a).idx) :
    ∃ host m, (s.ep a).log i = some (host, m) ∧
      ((∃ r, (s.ep a).inflight i = some r ∧ r.host = host ∧ r.msg = m) ∨
       (∃ b d, (s.ep a).hosts0 host = some b ∧ d ∈ (s.ep b).delivered ∧ d.syn = some (i, a) ∧
          d.body = bodyOf m)) := by
  have hi := Aux.reachable_inv h
  rcases hi.infl a i hlt with hsome | ⟨host, m, b, hl, h0, hack⟩
  · cases hr : (s.ep a).inflight i with
    | none => simp [hr] at hsome
    | some r => exact ⟨r.host, r.msg, hi.infl_rec a i r hr hlt, Or.inl ⟨r, rfl, rfl, rfl⟩⟩
  · obtain ⟨d, hd, hs⟩ := hi.acked_del b i a hack
    obtain ⟨⟨host', m', hl', _, hb⟩, _⟩ := hi.del_ok b d i a hd hs
    rw [hl] at hl'; cases hl'
    exact ⟨host, m, hl, Or.inr ⟨b, d, h0, hd, hs, hb⟩⟩

/-- An `inflight` entry of an accepted message is removed only by the sender's own loop body
taking the matching `Ack` out of its batch and feeding it to `sender.ack`; no other step (loss,
duplication, retries, other endpoints, an Ack merely received) removes it. -/
theorem c06_inflight_removed_only_by_ack {s : Sys} (h : Reachable s) (op : Op) (a i : Nat) (r : Rec)
    (hlt : i < (s.ep a).idx) (hr : (s.ep a).inflight i = some r)
    (hgone : ((step s op).ep a).inflight i = none) :
    ∃ stage sy rest, op = Op.process a true stage ∧
      (s.ep a).batch = ⟨sy, Parsed.msg (Msg.ack i)⟩ :: rest := by
  rcases step_infl (Aux.reachable_inv h) op a i r hlt hr with ⟨r', hr', _⟩ | ⟨_, hx⟩
  · rw [hr'] at hgone; cases hgone
  · exact hx

/-- An `Ack(i)` addressed to `a` exists (on the wire, in a receive queue, or in `a`'s batch) only
after some endpoint's Listener accepted the message sent under `Syn(i, a)` — which is therefore
accounted for at that endpoint (`c06_app_accounted`). NOTE the Listener acknowledges when it
accepts, i.e. BEFORE the application is handed the message (`c06_app_exactly_once_full_fails`). -/
theorem c06_ack_only_after_delivery {s : Sys} (h : Reachable s) (a i : Nat)
    (hack : (⟨a, ackFrames i⟩ : Packet) ∈ s.net ∨ ackFrames i ∈ (s.ep a).inbox ∨
      (∃ sy, (⟨sy, Parsed.msg (Msg.ack i)⟩ : Delivery) ∈ (s.ep a).batch)) :
    ∃ b d, d ∈ (s.ep b).delivered ∧ d.syn = some (i, a) ∧ d ∈ accountedAt s b := by
  have hi := Aux.reachable_inv h
  have hacc : ∀ b, (s.ep b).acked i a = true → ∃ b d, d ∈ (s.ep b).delivered ∧ d.syn = some (i, a) ∧ d ∈ accountedAt s b := by
    intro b hb
    obtain ⟨d, hd, hs⟩ := hi.acked_del b i a hb
    exact ⟨b, d, hd, hs, (Aux.accounted_perm (Aux.reachable_invA h) b).mem_iff.mpr hd⟩
  rcases hack with hk | hk | ⟨sy, hk⟩
  · rcases hi.wire_net _ hk with ⟨a', i', m, hh, heq, _, _⟩ | ⟨i', b, heq, hb⟩ | ⟨m, heq⟩
    · exact absurd heq.symm (dataFrames_ne_ack _ _ _ _)
    · simp [ackFrames] at heq; subst heq; exact hacc b hb
    · simp [ackFrames] at heq
  · rcases hi.wire_inbox a _ hk with ⟨a', i', m, hh, heq, _, _⟩ | ⟨i', b, heq, hb⟩ | ⟨m, heq⟩
    · exact absurd heq.symm (dataFrames_ne_ack _ _ _ _)
    · simp [ackFrames] at heq; subst heq; exact hacc b hb
    · simp [ackFrames] at heq
  · obtain ⟨c, hc⟩ := hi.batch_ok a _ i hk rfl
    exact hacc c hc

/-- In reachable states `_recv_one` never raises (every queued frame list is a legal shape). -/
theorem c06_no_parse_error_reachable {s : Sys} (h : Reachable s) (a : Nat) : (s.ep a).errors = 0 := by
  obtain ⟨m, cfg, ops, hm, rfl⟩ := h
  have : ∀ (ops : List Op) (s : Sys), Inv s → ((run s ops).ep a).errors = (s.ep a).errors := by
    intro ops
    induction ops with
    | nil => intro s _; rfl
    | cons op ops ih => intro s hi; simp only [run]; rw [ih _ (step_inv hi op), step_errors hi]
  rw [this ops _ (init_inv m cfg hm)]; rfl

/-- non-vacuity: all copies lost, the message is still in flight; after the retransmission gets
through it is accepted and, once the Ack arrives and the loop body feeds it, no longer in flight -/
example :
    let s1 := run (init 20 (fun a => (800, lookup (if a = 0 then [(1, 1)] else [(0, 0)]))))
      [.send 0 1 7, .drop 0, .tick 0 801, .retry 0]
    let s2 := run s1 [.deliver 0, .collect 1, .process 1 true false, .deliver 0, .collect 0]
    let s3 := run s2 [.process 0 true false]
    ((s1.ep 0).inflight 0).isSome = true ∧ (s1.ep 1).delivered = [] ∧
    ((s2.ep 0).inflight 0).isSome = true ∧ (s2.ep 1).handled.length = 1 ∧
    ((s3.ep 0).inflight 0).isSome = false := by
  decide

/-! ### bounded retries -/

/-- **Bounded retries.** As long as a sender has not raised, every message has been transmitted at
most `maxRetries` times, and the step that makes a transmission count reach `maxRetries + 1` is
the one in which `maybe_retry` raises: ≤ `maxRetries + 1` transmissions, then the raise. For a
message still in flight, transmissions + remaining budget = `maxRetries + 1`. -/
theorem c06_bounded_retries {s : Sys} (h : Reachable s) (a i : Nat) :
    ((s.ep a).raised = false → (s.ep a).sends i ≤ s.maxRetries) ∧
    (∀ op, (s.ep a).raised = false → ((step s op).ep a).sends i ≤ s.maxRetries + 1) ∧
    (s.maxRetries < (s.ep a).sends i → (s.ep a).raised = true) ∧
    (∀ r, i < (s.ep a).idx → (s.ep a).inflight i = some r →
        ((s.ep a).sends i : Int) + r.remaining = (s.maxRetries : Int) + 1 ∧
        (r.remaining ≤ 0 → (s.ep a).raised = true)) := by
  have hi := Aux.reachable_inv h
  have h1 : (s.ep a).raised = false → (s.ep a).sends i ≤ s.maxRetries := by
    intro hr
    rcases Nat.lt_or_ge s.maxRetries ((s.ep a).sends i) with hlt | hge
    · have := hi.over a i hlt; rw [hr] at this; cases this
    · exact hge
  refine ⟨h1, ?_, hi.over a i, ?_⟩
  · intro op hr
    have := step_sends_le hi op a i
    have := h1 hr
    omega
  · intro r hlt hr
    exact ⟨hi.budget a i r hr hlt, hi.exhausted a i r hr hlt⟩

/-- **The sender does raise — PARTIAL.** Take any reachable state with message `i` of sender `a`
in flight to a host the sender still knows, and any continuation that contains `n ≥ remaining
budget` timer rounds of `a` (each: arbitrary steps of anybody — `pre`; a's clock advances by more
than the resend grace; arbitrary steps other than a's `maybe_retry` — `mid`; a's `maybe_retry`),
followed by anything (`tail`), in which the destination host is never removed from the sender
(`hosts.pop`, hypothesis `hpop`). Then at the end the message has been acknowledged (hence
accepted, `c06_no_silent_loss`), or the sender has raised. The adversary may drop every frame: the
conclusion is then "raised". Missing: continuations with `hosts.pop`
(`c06_raises_within_budget_full_fails`). "Has raised" here and in the other `raises` theorems is
the model's flag `raised` of the `maybe_retry` CALL (the ValueError was raised by the call); that
this ENDS the loop that made the call is `c06_raise_ends_loop` (model) / the generated column
`raiseEnds` (no swallowing handler in the source) / the `stops` comparison of the tie (the real
loop function). -/
theorem c06_raises_within_budget_partial {s : Sys} (h : Reachable s) (a i : Nat) (r : Rec)
    (hlt : i < (s.ep a).idx) (hr : (s.ep a).inflight i = some r)
    (hhost : (s.ep a).hosts r.host ≠ none)
    (rounds : List Round) (tail : List Op)
    (hrounds : ∀ x ∈ rounds, (s.ep a).grace < x.dt ∧ Op.retry a ∉ x.mid)
    (hpop : Op.popHost a r.host ∉ roundsOps a rounds ++ tail)
    (hn : r.remaining ≤ rounds.length) :
    let s' := run s (roundsOps a rounds ++ tail)
    (s'.ep a).inflight i = none ∨ (s'.ep a).raised = true := by
  intro s'
  have hi := Aux.reachable_inv h
  have hp0 : Prog s a i r.host r.remaining := Or.inr (Or.inr (Or.inr ⟨r, hr, Int.le_refl _, rfl⟩))
  obtain ⟨hp, hi1, hlt1⟩ := Prog.afterRounds (a := a) (i := i) (h := r.host) (g := (s.ep a).grace)
    rounds s r.remaining hi hlt rfl hrounds hp0
  have hl := run_later hi1 tail
  have hp' : Prog s' a i r.host (r.remaining - rounds.length) := by
    show Prog (run s (roundsOps a rounds ++ tail)) _ _ _ _
    rw [run_append]; exact Prog.later hl hlt1 hp
  have hi' : Inv s' := by
    show Inv (run s (roundsOps a rounds ++ tail)); rw [run_append]; exact run_inv hi1 tail
  have hlt' : i < (s'.ep a).idx := by
    show i < ((run s (roundsOps a rounds ++ tail)).ep a).idx
    rw [run_append]; exact Nat.lt_of_lt_of_le hlt1 (hl.idx a)
  have hkeep : (s'.ep a).hosts r.host = (s.ep a).hosts r.host := run_hosts hi _ a r.host hpop
  rcases hp' with hp' | hp' | hp' | ⟨r', hr', h1, _⟩
  · exact Or.inr hp'
  · rw [hkeep] at hp'; exact absurd hp' hhost
  · exact Or.inl hp'
  · exact Or.inr (hi'.exhausted a i r' hr' hlt' (by omega))

/-- The full statement (without `hpop`) is false: `maybe_retry` skips a record whose host was
removed ("cannot retry … presumably we are at shutdown") — it stays in `inflight` for ever, is
never retransmitted and never reported. Witness: one message, its only transmission lost, the host
popped, then 20 timer rounds. The harness replays this history on the real ReliableSender. -/
theorem c06_raises_within_budget_full_fails :
    ¬ ∀ (s : Sys), Reachable s → ∀ (a i : Nat) (r : Rec), i < (s.ep a).idx → (s.ep a).inflight i = some r →
      (s.ep a).hosts r.host ≠ none → ∀ (rounds : List Round) (tail : List Op),
      (∀ x ∈ rounds, (s.ep a).grace < x.dt ∧ Op.retry a ∉ x.mid) → r.remaining ≤ rounds.length →
        ((run s (roundsOps a rounds ++ tail)).ep a).inflight i = none ∨
        ((run s (roundsOps a rounds ++ tail)).ep a).raised = true := by
  intro h
  let cfg : Nat → Nat × (Nat → Option Nat) := fun a => (800, lookup (if a = 0 then [(1, 1)] else [(0, 0)]))
  have hreach : Reachable (run (init 20 cfg) [.send 0 1 7, .drop 0]) := ⟨20, cfg, _, by decide, rfl⟩
  have := h _ hreach 0 0 ⟨1, 7, 0, 20⟩ (by decide) (by decide) (by decide)
    (List.replicate 20 { pre := [Op.popHost 0 1], dt := 801, mid := [] }) [] (by decide) (by decide)
  revert this
  decide

/-- The budget of every in-flight message is at most `maxRetries`: `maxRetries` timer rounds
always suffice in `c06_raises_within_budget`. -/
theorem c06_budget_le_max {s : Sys} (h : Reachable s) (a i : Nat) (r : Rec)
    (hlt : i < (s.ep a).idx) (hr : (s.ep a).inflight i = some r) : r.remaining ≤ s.maxRetries := by
  have hi := Aux.reachable_inv h
  have := hi.budget a i r hr hlt
  have := hi.sends_pos a i hlt
  omega

/-- ops of a sequence of iterations of loop `l` at endpoint `a`; each element of `iters` is
(arbitrary steps before, clock advance, body of the iteration: receive, dispatch, own sends,
commit or abort — anything but `maybe_retry`) -/
def loopOps (a : Nat) (l : LoopInfo) (iters : List (List Op × Nat × List Op)) : List Op :=
  iters.flatMap (fun x => x.1 ++ [Op.tick a x.2.1] ++ iteration a l x.2.2)

/-- "a sender driven by loop `l` raises within the budget": from any reachable state with message
`i` in flight at `a` to a host the sender knows, after `maxRetries` iterations of `l` at `a`, each
preceded by a clock advance beyond the resend grace (and by arbitrary steps of anybody, the network
adversary included), none of which removes the destination host, the message was acknowledged or
the sender raised. -/
def LoopRaises (l : LoopInfo) : Prop :=
  ∀ (s : Sys), Reachable s → ∀ (a i : Nat) (r : Rec), i < (s.ep a).idx → (s.ep a).inflight i = some r →
    (s.ep a).hosts r.host ≠ none →
    ∀ iters : List (List Op × Nat × List Op),
      (∀ x ∈ iters, (s.ep a).grace < x.2.1 ∧ Op.retry a ∉ x.2.2) →
      Op.popHost a r.host ∉ loopOps a l iters → s.maxRetries ≤ iters.length →
        ((run s (loopOps a l iters)).ep a).inflight i = none ∨
        ((run s (loopOps a l iters)).ep a).raised = true

namespace Aux
theorem loopOps_rounds (a : Nat) (l : LoopInfo) (hl : l.callsRetry = true)
    (iters : List (List Op × Nat × List Op)) :
    loopOps a l iters = roundsOps a (iters.map (fun x => { pre := x.1, dt := x.2.1, mid := x.2.2 })) := by
  induction iters with
  | nil => rfl
  | cons x xs ih =>
    simp only [loopOps, List.flatMap_cons, List.map_cons, roundsOps, Round.ops] at ih ⊢
    rw [Aux.iteration_retry _ _ _ hl, ih]
    simp [List.append_assoc]
end Aux

/-- The same in terms of endpoint-loop iterations: a loop whose row in the table says
`callsRetry` makes its sender raise within the budget (iterations are timer rounds). -/
theorem c06_loop_raises_within_budget (l : LoopInfo) (hl : l.callsRetry = true) : LoopRaises l := by
  intro s h a i r hlt hr hhost iters hdt hpop hn
  have hb := c06_budget_le_max h a i r hlt hr
  have := c06_raises_within_budget_partial h a i r hlt hr hhost
    (iters.map (fun x => { pre := x.1, dt := x.2.1, mid := x.2.2 })) []
    (by
      intro x hx
      simp only [List.mem_map] at hx
      obtain ⟨y, hy, rfl⟩ := hx
      exact hdt y hy)
    (by rw [List.append_nil, ← Aux.loopOps_rounds a l hl]; exact hpop)
    (by simp only [List.length_map]; omega)
  simp only [List.append_nil] at this
  rw [Aux.loopOps_rounds a l hl]
  exact this

/-- non-vacuity: with `maxRetries = 2` and a network that loses everything, the second retry
raises, after 3 transmissions -/
example :
    let s := run (init 2 (fun a => (800, lookup (if a = 0 then [(1, 1)] else [(0, 0)]))))
      [.send 0 1 7, .drop 0, .tick 0 801, .retry 0, .drop 0, .tick 0 801, .retry 0]
    (s.ep 0).raised = true ∧ (s.ep 0).sends 0 = 3 ∧ ((s.ep 0).inflight 0).isSome = true := by
  decide

/-! ### raising by a deadline: finite poll timeouts -/

/-- **The sender raises by a deadline — PARTIAL.** No assumption that iterations are far apart:
take any reachable state with message `i` of sender `a` in flight to a host the sender knows, and
any sequence of iterations of `a`'s loop, each lasting at most `B` ms (`TIter.Ok`: the blocking
poll returns within `B`; `a`'s clock advances only there; each iteration ends with
`maybe_retry`), in which the host is not removed. Once more than
`remaining budget × (resend grace + B)` ms have passed on `a`'s clock, the message has been
acknowledged or the sender has raised — whatever the network did in between. Missing: `hosts.pop`
(`c06_raises_within_budget_full_fails`). A loop whose poll has no timeout has no such `B`
(`c06_steady_loops_poll_finite`). -/
theorem c06_raises_by_deadline_partial {s : Sys} (h : Reachable s) (a i : Nat) (r : Rec) (B : Nat)
    (hlt : i < (s.ep a).idx) (hr : (s.ep a).inflight i = some r)
    (hhost : (s.ep a).hosts r.host ≠ none)
    (xs : List TIter) (hxs : ∀ x ∈ xs, x.Ok a B)
    (hpop : Op.popHost a r.host ∉ titersOps a xs)
    (htime : r.remaining.toNat * ((s.ep a).grace + B) < totalDt xs) :
    let s' := run s (titersOps a xs)
    (s'.ep a).inflight i = none ∨ (s'.ep a).raised = true := by
  intro s'
  have hi := Aux.reachable_inv h
  have hp0 : ProgT s a i r.host (s.ep a).grace B (s.ep a).now r.remaining.toNat := by
    right; right; right
    refine ⟨r, r.remaining.toNat, hr, rfl, by omega, Nat.le_refl _, Or.inr (Nat.le_refl _), ?_⟩
    have := hi.sent_le a i r hr
    omega
  obtain ⟨hp, hi', hlt', hnow⟩ := ProgT.afterIters xs s hi hlt rfl hxs hp0
  have hkeep : (s'.ep a).hosts r.host = (s.ep a).hosts r.host := run_hosts hi _ a r.host hpop
  rcases hp with hp | hp | hp | ⟨r', k, hr', _, hrem, _, hnw, hbound⟩
  · exact Or.inr hp
  · rw [hkeep] at hp; exact absurd hp hhost
  · exact Or.inl hp
  · right
    cases k with
    | zero => exact hi'.exhausted a i r' hr' hlt' (by simpa using hrem)
    | succ k' =>
      exfalso
      have hmul : (k' + 1) * ((s.ep a).grace + B) = k' * ((s.ep a).grace + B) + ((s.ep a).grace + B) :=
        Nat.succ_mul _ _
      rcases hnw with hnw | hnw <;> omega

/-- non-vacuity: grace 800, poll timeout 800, budget 2, black-hole network: after 5 silent
iterations (4000 ms > 2 × 1600 ms) the sender has raised; the iterations are only 800 ms long,
which `c06_raises_within_budget_partial` does not cover -/
example :
    let s := run (init 2 (fun a => (800, lookup (if a = 0 then [(1, 1)] else [(0, 0)])))) [.send 0 1 7, .drop 0]
    let xs : List TIter := List.replicate 5 { pre := [Op.drop 0], dt := 800, body := [Op.collect 0] }
    ((run s (titersOps 0 xs)).ep 0).raised = true ∧ totalDt xs = 4000 := by
  decide

/-! ### one surviving copy suffices -/

/-- **Delivery if one copy survives.**
(1) If the Listener of `b` processes a data frame list `dataFrames i a m` (`[Syn(i,a), m]` or, for
a payload, `[Syn(i,a), header, value]`) — some transmission survived the network — then an `Ack(i)` to `a` is emitted and from then on, whatever happens (further
duplicates, retries, anything), `b` has accepted exactly one message under `Syn(i, a)`, it is `m`,
and it is accounted for exactly once at `b` (handed over, waiting, or discarded by an abandoned
iteration).
(2) If the loop body of `a` (a loop that feeds Acks) takes `Ack(i)` out of its batch — some
acknowledgement survived — then message `i` leaves `inflight` and from then on is never
transmitted again (so it can never make the sender raise). -/
theorem c06_delivers_if_one_survives {s : Sys} (h : Reachable s) :
    (∀ (b i a m : Nat) (rest : List (List Frame)) (tail : List Op),
      (s.ep b).inbox = dataFrames i a m :: rest →
        (⟨a, ackFrames i⟩ : Packet) ∈ (collect s b).net ∧
        deliveredUnder (run (collect s b) tail) b i a = 1 ∧
        (accountedAt (run (collect s b) tail) b).count (dlv i a m) = 1 ∧
        ∀ d ∈ ((run (collect s b) tail).ep b).delivered, d.syn = some (i, a) → d = dlv i a m) ∧
    (∀ (a i : Nat) (sy : Option SynId) (rest : List Delivery) (stage : Bool) (tail : List Op),
      (s.ep a).batch = ⟨sy, Parsed.msg (Msg.ack i)⟩ :: rest → i < (s.ep a).idx →
        ((run (process s a true stage) tail).ep a).inflight i = none ∧
        ((run (process s a true stage) tail).ep a).sends i = (s.ep a).sends i) := by
  have hi := Aux.reachable_inv h
  constructor
  · intro b i a m rest tail hin
    have hi1 : Inv (collect s b) := collect_inv hi b
    have hr1 : Reachable (run (collect s b) tail) := Aux.reachable_run h (Op.collect b :: tail)
    have hok := hi.wire_inbox b _ (by rw [hin]; exact List.mem_cons_self)
    have hlog : ∃ host, (s.ep a).log i = some (host, m) := by
      rcases hok with ⟨a', i', m', hh, heq, hl, _⟩ | ⟨i', c, heq, _⟩ | ⟨m', heq⟩
      · obtain ⟨rfl, rfl, rfl⟩ := dataFrames_inj heq; exact ⟨hh, hl⟩
      · exact absurd heq (dataFrames_ne_ack _ _ _ _)
      · exact absurd heq (dataFrames_ne_local _ _ _ _)
    obtain ⟨host, hlog⟩ := hlog
    have hack1 : ((collect s b).ep b).acked i a = true := by
      cases hack : (s.ep b).acked i a with
      | true => rw [collect_data_dup_ep hin hack]; exact hack
      | false => rw [collect_data_new_ep hin hack]; simp
    have hl := run_later hi1 tail
    have hi2 := run_inv hi1 tail
    have hbody : ∀ d ∈ ((run (collect s b) tail).ep b).delivered, d.syn = some (i, a) → d = dlv i a m := by
      intro d hd hs
      obtain ⟨⟨host', m', hl', _, hb⟩, _⟩ := hi2.del_ok b d i a hd hs
      have := hl.log a i _ ((collect_later hi b).log a i _ hlog)
      rw [this] at hl'; cases hl'
      cases d; simp only [dlv] at *; subst hs; subst hb; rfl
    have hcount := Aux.count_one hi2 (hl.acked _ _ _ hack1)
    refine ⟨by rw [collect_data_net hin]; simp, hcount, ?_, hbody⟩
    rw [(Aux.accounted_perm (Aux.reachable_invA hr1) b).count_eq,
      count_eq_filterMap (dlv i a m) (i, a) rfl _ hbody]
    exact hcount
  · intro a i sy rest stage tail hb hlt
    have hi1 : Inv (process s a true stage) := process_inv hi a true stage
    have hnone : ((process s a true stage).ep a).inflight i = none := by rw [process_ack_ep true stage hb]; simp
    have hsends : ((process s a true stage).ep a).sends i = (s.ep a).sends i := by rw [process_ack_ep true stage hb]
    have hidx : ((process s a true stage).ep a).idx = (s.ep a).idx := by rw [process_ack_ep true stage hb]
    have := (run_later hi1 tail).inflNone a i (by rw [hidx]; exact hlt) hnone
    exact ⟨this.1, by rw [this.2, hsends]⟩

/-- non-vacuity / end to end: first copy lost, the retransmission and its Ack get through;
afterwards even a duplicate of the data frame and further timer rounds change nothing -/
example :
    let s := run (init 20 (fun a => (800, lookup (if a = 0 then [(1, 1)] else [(0, 0)]))))
      [.send 0 1 7, .drop 0, .tick 0 801, .retry 0, .dup 0, .collect 1, .process 1 true false, .deliver 1,
       .collect 0, .process 0 true false, .deliver 0, .collect 1, .tick 0 5000, .retry 0]
    deliveredUnder s 1 0 0 = 1 ∧ (s.ep 1).handled = [dlv 0 0 7] ∧ ((s.ep 0).inflight 0).isSome = false ∧
      (s.ep 0).sends 0 = 2 ∧ (s.ep 0).raised = false := by
  decide

/-! ### both wire shapes: deduplication does not depend on the frame shape -/

/-- **Dedup is independent of the wire shape.** `_recv_one` on a Syn followed by either wire shape
(`.plain`: one pickled frame, `ReliableSender.send`; `.data`: header + value, `send_data`): the Ack
always goes out; if the Syn was seen before, nothing is returned and nothing recorded; otherwise
the Syn IS RECORDED and the content returned. Whether the Syn is recorded, whether an Ack goes out
and whether the message is dropped as a duplicate is the same for any two shapes (and any two
contents) under the same Syn. -/
theorem c06_dedup_shape_independent (acked : Nat → Nat → Bool) (i a m m' : Nat) :
    (∀ sh : Shape,
      (recvOne acked (.syn i a :: wireBody sh m)).ack = some (a, i) ∧
      (acked i a = true →
        (recvOne acked (.syn i a :: wireBody sh m)).res = .ok none ∧
        (recvOne acked (.syn i a :: wireBody sh m)).mark = none) ∧
      (acked i a = false →
        (recvOne acked (.syn i a :: wireBody sh m)).mark = some (i, a) ∧
        (recvOne acked (.syn i a :: wireBody sh m)).res = .ok (some (parsedBody sh m)))) ∧
    (∀ sh sh' : Shape,
      (recvOne acked (.syn i a :: wireBody sh m)).mark = (recvOne acked (.syn i a :: wireBody sh' m')).mark ∧
      (recvOne acked (.syn i a :: wireBody sh m)).ack = (recvOne acked (.syn i a :: wireBody sh' m')).ack ∧
      ((recvOne acked (.syn i a :: wireBody sh m)).res = .ok none ↔
        (recvOne acked (.syn i a :: wireBody sh' m')).res = .ok none)) ∧
    (recvOne acked (.syn i a :: wireBody .plain m)).mark = (recvOne acked (.syn i a :: wireBody .data m')).mark ∧
    (recvOne acked (.syn i a :: wireBody .plain m)).ack = (recvOne acked (.syn i a :: wireBody .data m')).ack ∧
    ((recvOne acked (.syn i a :: wireBody .plain m)).res = .ok none ↔
      (recvOne acked (.syn i a :: wireBody .data m')).res = .ok none) := by
  have key : ∀ (sh sh' : Shape),
      (recvOne acked (.syn i a :: wireBody sh m)).mark = (recvOne acked (.syn i a :: wireBody sh' m')).mark ∧
      (recvOne acked (.syn i a :: wireBody sh m)).ack = (recvOne acked (.syn i a :: wireBody sh' m')).ack ∧
      ((recvOne acked (.syn i a :: wireBody sh m)).res = .ok none ↔
        (recvOne acked (.syn i a :: wireBody sh' m')).res = .ok none) := by
    intro sh sh'
    simp only [recvOne_syn_wireBody]
    cases acked i a <;> simp
  refine ⟨?_, key, key .plain .data⟩
  intro sh
  simp only [recvOne_syn_wireBody]
  cases acked i a <;> simp

/-- **`collect` records the Syn, whatever the shape.** In ANY state (no reachability needed): when
`_recv_one` at `b` takes an acknowledged message `dataFrames i a m` off the queue — two frames or,
for a payload id, three — afterwards `Syn(i, a)` is in `b`'s `acked` set, an `Ack(i)` to `a` has
been put on the wire, and the frame list has left the queue. -/
theorem c06_collect_records_syn (s : Sys) (b i a m : Nat) (rest : List (List Frame))
    (hin : (s.ep b).inbox = dataFrames i a m :: rest) :
    ((collect s b).ep b).acked i a = true ∧
    (collect s b).net = s.net ++ [⟨a, ackFrames i⟩] ∧
    ((collect s b).ep b).inbox = rest ∧
    ((collect s b).ep b).errors = (s.ep b).errors := by
  refine ⟨?_, collect_data_net hin, ?_, ?_⟩
  · cases hack : (s.ep b).acked i a with
    | true => rw [collect_data_dup_ep hin hack]; exact hack
    | false => rw [collect_data_new_ep hin hack]; simp
  · cases hack : (s.ep b).acked i a with
    | true => rw [collect_data_dup_ep hin hack]; simp
    | false => rw [collect_data_new_ep hin hack]; simp
  · cases hack : (s.ep b).acked i a with
    | true => rw [collect_data_dup_ep hin hack]
    | false => rw [collect_data_new_ep hin hack]

/-- **The second copy is dropped, whatever the shapes.** In ANY state: if the queue of `b` holds an
acknowledged message under `Syn(i, a)` and behind it another frame list under the same Syn (a
duplicate made by the network or a retransmission: `m' = m`; the statement holds for any content
and any shape `m'`), then the second `_recv_one` adds nothing to the batch, nothing to `delivered`,
does not raise, leaves `acked` as it is, and sends a second `Ack(i)` to `a`. -/
theorem c06_second_copy_dropped (s : Sys) (b i a m m' : Nat) (rest : List (List Frame))
    (hin : (s.ep b).inbox = dataFrames i a m :: dataFrames i a m' :: rest) :
    let s1 := collect s b
    let s2 := collect s1 b
    (s2.ep b).batch = (s1.ep b).batch ∧ (s2.ep b).delivered = (s1.ep b).delivered ∧
    (s2.ep b).acked = (s1.ep b).acked ∧ (s2.ep b).errors = (s1.ep b).errors ∧
    (s2.ep b).inbox = rest ∧
    s2.net = s.net ++ [⟨a, ackFrames i⟩, ⟨a, ackFrames i⟩] := by
  intro s1 s2
  obtain ⟨hack1, hnet1, hin1, _⟩ := c06_collect_records_syn s b i a m _ hin
  have hnet2 : s2.net = s1.net ++ [⟨a, ackFrames i⟩] := collect_data_net hin1
  have hep : s2.ep b = { s1.ep b with inbox := rest } := by
    have := collect_data_dup_ep hin1 hack1 b
    simpa using this
  refine ⟨by rw [hep], by rw [hep], by rw [hep], by rw [hep], by rw [hep], ?_⟩
  rw [hnet2, hnet1, List.append_assoc]; rfl

/-- **A DatasetTransmitPayload is accepted and handed over at most once** (history level). For a
payload message (`dataBase ≤ m`: it travels as `[Syn, header, value]`) accepted by `a`'s sender
under idx `i` for endpoint `b`, in every reachable state: `b`'s Listener accepted at most one
message under `Syn(i, a)`; whatever it accepted under that Syn is exactly the payload
(`Parsed.payload m (.msg (.app m))`); and over everything owed to `b`'s application (handed over,
waiting, discarded) the Syn occurs at most once, with exactly that payload as content — however
many copies the network or the retransmission timer produced. -/
theorem c06_payload_exactly_once_listener {s : Sys} (h : Reachable s) (a i b host m : Nat)
    (hm : dataBase ≤ m) (hl : (s.ep a).log i = some (host, m)) (_h0 : (s.ep a).hosts0 host = some b) :
    deliveredUnder s b i a ≤ 1 ∧
    (∀ d ∈ (s.ep b).delivered, d.syn = some (i, a) → d.body = Parsed.payload m (.msg (.app m))) ∧
    ((accountedAt s b).filterMap (·.syn)).count (i, a) ≤ 1 ∧
    (∀ d ∈ accountedAt s b, d.syn = some (i, a) →
      d = ⟨some (i, a), Parsed.payload m (.msg (.app m))⟩) := by
  obtain ⟨hnd, hbody⟩ := c06_at_most_once h b
  obtain ⟨hnd', hbody'⟩ := c06_app_at_most_once h b
  refine ⟨?_, ?_, ?_, ?_⟩
  · unfold deliveredUnder; rw [hnd.count]; split <;> omega
  · intro d hd hs
    obtain ⟨host', m', hl', _, hb⟩ := hbody d hd i a hs
    rw [hl] at hl'; cases hl'
    rw [hb, bodyOf_data hm]
  · rw [hnd'.count]; split <;> omega
  · intro d hd hs
    obtain ⟨host', m', hl', _, hb⟩ := hbody' d hd i a hs
    rw [hl] at hl'; cases hl'
    rw [hb, dlv, bodyOf_data hm]

/-- non-vacuity: the wire of a payload send is three frames; of an ordinary send, two -/
example :
    (run (init 20 (fun a => (800, lookup (if a = 0 then [(1, 1)] else [(0, 0)])))) [.send 0 1 1000007]).net
      = [⟨1, [.syn 0 0, .hdr 1000007, .msg (.app 1000007)]⟩] ∧
    (run (init 20 (fun a => (800, lookup (if a = 0 then [(1, 1)] else [(0, 0)])))) [.send 0 1 7]).net
      = [⟨1, [.syn 0 0, .msg (.app 7)]⟩] := by
  decide

/-- non-vacuity: a payload whose first copy, a network duplicate of the retransmission and the
retransmission itself all arrive: three copies received, ONE accepted (as header + value), three
Acks; the loop body is handed it once -/
example :
    let s := run (init 20 (fun a => (800, lookup (if a = 0 then [(1, 1)] else [(0, 0)]))))
      [.send 0 1 1000007, .tick 0 801, .retry 0, .deliver 0, .dup 0, .deliver 0,
       .collect 1, .collect 1, .collect 1]
    let s' := run s [.process 1 true false, .process 1 true false]
    (s.ep 1).delivered.map (·.body) = [Parsed.payload 1000007 (.msg (.app 1000007))] ∧
    s.net.length = 3 ∧ (s.ep 1).inbox = [] ∧ (s.ep 1).errors = 0 ∧ deliveredUnder s 1 0 0 = 1 ∧
    (s.ep 1).batch = [dlv 0 0 1000007] ∧
    (s'.ep 1).handled.length = 1 ∧ (s'.ep 1).handled = [dlv 0 0 1000007] ∧ (s'.ep 1).batch = [] := by
  decide

/-- non-vacuity of `c06_second_copy_dropped` with two DIFFERENT shapes under one Syn: a payload,
then a one-frame message under the same (forged) Syn — the second is swallowed -/
example :
    let s := runF (init 20 (fun a => (800, lookup (if a = 0 then [(1, 1)] else [(0, 0)]))))
      [.inject 1 (dataFrames 0 0 1000007), .inject 1 (dataFrames 0 0 7), .op (.collect 1), .op (.collect 1)]
    (s.ep 1).delivered.map (·.body) = [Parsed.payload 1000007 (.msg (.app 1000007))] ∧ s.net.length = 2 := by
  decide

/-! ### the frame-sequence parser -/

/-- **Parser sound and complete.** `parse` (the content a frame list denotes) succeeds exactly on
the four legal shapes; `recvOne` (= `Listener._recv_one`) returns a message iff the list is a
legal shape carrying exactly that message and its Syn (if any) was not seen before; it returns
"nothing" exactly for a (non-bare) list under an already acknowledged Syn — never a different
message; everything else raises. An `Ack` goes out iff the first frame is a Syn, and only a Syn
that was not seen before is recorded. -/
theorem c06_parse_sound_complete (acked : Nat → Nat → Bool) (fs : List Frame) :
    (∀ syn p, parse fs = .ok (syn, p) ↔ Legal fs syn p) ∧
    (∀ p, (recvOne acked fs).res = .ok (some p) ↔
      ∃ syn, Legal fs syn p ∧ ∀ i a, syn = some (i, a) → acked i a = false) ∧
    ((recvOne acked fs).res = .ok none ↔
      ∃ i a f rest, fs = Frame.syn i a :: f :: rest ∧ acked i a = true) ∧
    (∀ ad i, (recvOne acked fs).ack = some (ad, i) ↔ ∃ rest, fs = Frame.syn i ad :: rest) ∧
    (∀ i a, (recvOne acked fs).mark = some (i, a) ↔
      ∃ f rest, fs = Frame.syn i a :: f :: rest ∧ acked i a = false) := by
  exact ⟨fun syn p => parse_iff fs syn p, fun p => recv_some_iff acked fs p, recv_none_iff acked fs,
    fun ad i => recv_ack_iff acked fs ad i, fun i a => recv_mark_iff acked fs i a⟩

/-- non-vacuity: the four legal shapes, a duplicate, and some malformed sequences -/
example :
    (recvOne (fun _ _ => false) [.syn 3 1, .msg (.app 9)]).res = .ok (some (.msg (.app 9))) ∧
    (recvOne (fun _ _ => false) [.syn 3 1, .hdr 4, .junk 0]).res = .ok (some (.payload 4 (.junk 0))) ∧
    (recvOne (fun _ _ => false) [.msg (.ack 2)]).res = .ok (some (.msg (.ack 2))) ∧
    (recvOne (fun _ _ => false) [.hdr 4, .msg (.app 1)]).res = .ok (some (.payload 4 (.msg (.app 1)))) ∧
    (recvOne (fun i a => i == 3 && a == 1) [.syn 3 1, .msg (.app 9)]).res = .ok none ∧
    (recvOne (fun _ _ => false) [.syn 3 1]).res = .error .synOnly ∧
    (recvOne (fun _ _ => false) [.syn 3 1, .syn 3 1]).res = .error .doubleSyn ∧
    (recvOne (fun _ _ => false) [.msg (.app 9), .msg (.app 9)]).res = .error .len1 ∧
    (recvOne (fun _ _ => false) []).res = .error .empty ∧
    (recvOne (fun _ _ => false) [.syn 3 1, .syn 3 1]).ack = some (1, 3) :=
  ⟨rfl, rfl, rfl, rfl, rfl, rfl, rfl, rfl, rfl, rfl⟩

/-! ### malformed and forged frame sequences inside histories -/

/-- **A malformed frame sequence is rejected, whatever the state.** When `_recv_one` (inside
`recv_messages`) meets a frame list that no legal shape matches, nothing is accepted, nothing is
handed to the application, and either (a) the call raises, `recv_messages` propagates the exception
and what it had collected so far — accepted and ACKNOWLEDGED messages — is discarded together with
the iteration (`lost`), or (b) the list starts with an already acknowledged Syn followed by at
least one more frame and is swallowed as a retransmission (returns None). Holds in ANY state, so
also after arbitrary forged traffic. -/
theorem c06_malformed_rejected (s : Sys) (a : Nat) (fs : List Frame) (rest : List (List Frame))
    (hin : (s.ep a).inbox = fs :: rest) (hbad : Malformed fs) :
    ((collect s a).ep a).delivered = (s.ep a).delivered ∧ ((collect s a).ep a).handled = (s.ep a).handled ∧
    ((((collect s a).ep a).errors = (s.ep a).errors + 1 ∧ ((collect s a).ep a).batch = [] ∧
        ((collect s a).ep a).staged = [] ∧ ((collect s a).ep a).lost = (s.ep a).lost ++ pendingAt s a) ∨
     ((∃ i ad f tl, fs = Frame.syn i ad :: f :: tl ∧ (s.ep a).acked i ad = true) ∧
        ((collect s a).ep a).errors = (s.ep a).errors ∧ ((collect s a).ep a).batch = (s.ep a).batch ∧
        ((collect s a).ep a).staged = (s.ep a).staged ∧ ((collect s a).ep a).lost = (s.ep a).lost)) := by
  obtain ⟨e, he⟩ := hbad
  have hnot : ∀ p, (recvOne (s.ep a).acked fs).res ≠ .ok (some p) := by
    intro p hp
    obtain ⟨syn, hleg, _⟩ := (recv_some_iff (s.ep a).acked fs p).mp hp
    have := (parse_iff fs syn p).mpr hleg
    rw [he] at this; cases this
  simp only [collect, hin, setEp_ep, ↓reduceIte]
  cases hres : (recvOne (s.ep a).acked fs).res with
  | error e' =>
    refine ⟨rfl, rfl, Or.inl ⟨rfl, rfl, rfl, ?_⟩⟩
    simp [abortEp, pendingAt, List.append_assoc]
  | ok o =>
    cases o with
    | some p => exact absurd hres (hnot p)
    | none =>
      exact ⟨rfl, rfl, Or.inr ⟨(recv_none_iff (s.ep a).acked fs).mp hres, rfl, rfl, rfl, rfl⟩⟩

/-- **Never twice, even with forged frames.** In every history of a frame-forging adversary
(`runF`: arbitrary frame lists injected into any receive queue, well-formed ones included), at every
endpoint no Syn is accepted twice, and over handed-over / waiting / discarded no Syn occurs twice. -/
theorem c06_forged_never_twice (maxRetries : Nat) (cfg : Nat → Nat × (Nat → Option Nat)) (ops : List OpF) (b : Nat) :
    let s := runF (init maxRetries cfg) ops
    ((s.ep b).delivered.filterMap (·.syn)).Nodup ∧ ((accountedAt s b).filterMap (·.syn)).Nodup := by
  intro s
  have hF : InvF s := runF_invF (init_invF maxRetries cfg) ops
  have hA : InvA s := runF_invA (init_invA maxRetries cfg) ops
  exact ⟨hF.del_nodup b, ((hA.split b).filterMap _).nodup_iff.mpr (hF.del_nodup b)⟩

/-- **Never delivered as a different message — in histories.** Whatever malformed frame lists are
injected into whichever receive queues, at whatever moments (`runF`, hypothesis: every injected list
is malformed), everything any Listener accepts — hence everything any application is handed, has
waiting, or lost to an abandoned iteration — is genuine: under `Syn(i, a)` exactly the message
`a`'s `send` accepted under idx `i` for this endpoint, without a Syn exactly a message a local
`callback` put there. A malformed list is never turned into a message, and it never changes which
message a Syn stands for. -/
theorem c06_malformed_never_delivered (maxRetries : Nat) (cfg : Nat → Nat × (Nat → Option Nat)) (ops : List OpF)
    (hops : ∀ a fs, OpF.inject a fs ∈ ops → Malformed fs) (b : Nat) :
    let s := runF (init maxRetries cfg) ops
    ∀ d ∈ accountedAt s b,
      (∃ i a h m, d = dlv i a m ∧ (s.ep a).log i = some (h, m) ∧ (s.ep a).hosts0 h = some b) ∨
      (∃ m, d = ⟨none, Parsed.msg (Msg.app m)⟩ ∧ m ∈ (s.ep b).locals) := by
  intro s d hd
  have hM : InvM s := runF_invM (init_invM maxRetries cfg) ops hops
  have hA : InvA s := runF_invA (init_invA maxRetries cfg) ops
  exact hM.del_ok b d ((hA.split b).mem_iff.mp hd)

/-- non-vacuity: a genuine message, a local one, and three malformed lists (one of them naming the
genuine message's Syn, swallowed as a retransmission) — two messages accepted, both genuine -/
example :
    let s := runF (init 20 (fun a => (800, lookup (if a = 0 then [(1, 1)] else [(0, 0)]))))
      [.op (.send 0 1 7), .op (.localMsg 1 5), .inject 1 [Frame.syn 3 0], .op (.collect 1), .op (.collect 1),
       .inject 1 [Frame.msg (Msg.app 9), Frame.msg (Msg.app 9)], .op (.collect 1), .op (.deliver 0),
       .inject 1 [Frame.syn 0 0, Frame.junk 1], .op (.collect 1), .op (.collect 1)]
    (s.ep 1).delivered = [⟨none, Parsed.msg (Msg.app 5)⟩, dlv 0 0 7] ∧ (s.ep 1).errors = 2 := by
  decide

/-- **With malformed frames, exactly-once at application level fails even if no loop abandons an
iteration of its own accord.** Witness (replayed by the harness on the real Listener and loops):
message 7 from `0` arrives at `1`; behind it in the queue sits a lone `Syn` frame (malformed). The
first `_recv_one` accepts and ACKNOWLEDGES message 7, the second one raises, `recv_messages`
propagates, the collected message is gone; the Ack reaches the sender: not in flight, never handed
over, the sender never raises (the receiver's loop fails loudly instead). -/
theorem c06_app_exactly_once_forged_fails :
    ¬ ∀ (maxRetries : Nat) (cfg : Nat → Nat × (Nat → Option Nat)) (ops : List OpF), 1 ≤ maxRetries →
      (∀ a fs, OpF.inject a fs ∈ ops → Malformed fs) → (∀ b, OpF.op (Op.abort b) ∉ ops) → ∀ b,
      let s := runF (init maxRetries cfg) ops
      ∀ a i host m, i < (s.ep a).idx → (s.ep a).log i = some (host, m) → (s.ep a).hosts0 host = some b →
        (s.ep a).inflight i ≠ none ∨ ((s.ep b).handled ++ pendingAt s b).count (dlv i a m) = 1 := by
  intro h
  have := h 20 (fun a => (800, lookup (if a = 0 then [(1, 1)] else [(0, 0)])))
    [.op (.send 0 1 7), .op (.deliver 0), .inject 1 [Frame.syn 9 0], .op (.collect 1), .op (.collect 1),
     .op (.deliver 0), .op (.collect 0), .op (.process 0 true false)]
    (by decide)
    (by
      intro a fs hmem
      simp at hmem
      obtain ⟨rfl, rfl⟩ := hmem
      exact ⟨_, rfl⟩)
    (by intro b hmem; simp at hmem)
    1 0 0 1 7 (by decide) (by decide) (by decide)
  revert this
  decide

/-! ### the endpoint loops (generated table `Gen.RetryLoops`) -/

/-- `comms.max_retries_per_message ≥ 1` (needed by `Reachable`: with 0 the first retry would be the
second transmission and raise only after it). -/
theorem c06_budget_positive : 1 ≤ EkwVerif.Gen.RetryLoops.maxRetries := by decide

/-- Every steady-state receive loop of a class that owns a ReliableSender (`Bridge.recv_events`,
`Executor.recv_loop`) feeds `Ack`s to `sender.ack` and calls `sender.maybe_retry()` in every
iteration. PARTIAL: the shutdown-phase loop `Bridge.shutdown` does neither (known finding
C06-bridge-shutdown-unacked; see `c06_retry_loops_ok_full_fails`); start-up loops run before
anything is sent. -/
theorem c06_retry_loops_ok_partial :
    ∀ l ∈ EkwVerif.Gen.RetryLoops.loops, l.phase = Phase.steady → l.feedsAck = true ∧ l.callsRetry = true := by
  decide

/-- the full statement (every loop that runs while messages may be in flight) is false of the
pinned tree: witness `Bridge.shutdown` -/
theorem c06_retry_loops_ok_full_fails :
    ¬ ∀ l ∈ EkwVerif.Gen.RetryLoops.loops, l.phase ≠ Phase.startup → l.feedsAck = true ∧ l.callsRetry = true := by
  decide

/-- Every receive loop of the table that runs while messages may be in flight polls with a FINITE
timeout (`recv_messages(timeout_ms=…)` with an integer, or the default `default_timeout_ms`): an
iteration — and with it `maybe_retry` — happens at least every `timeout` ms however silent the
network is. (`timeout_ms=None` would be `none` here and block for ever.) -/
theorem c06_steady_loops_poll_finite :
    ∀ l ∈ EkwVerif.Gen.RetryLoops.loops, l.phase ≠ Phase.startup → l.timeoutMs.isSome = true := by
  decide

/-- **The raise is not swallowed (generated column `raiseEnds`).** In every steady-state loop of the table no
`except` handler between the `self.sender.maybe_retry()` call and the end of the loop swallows the ValueError:
every handler that catches it re-raises, leaves the loop (`break` / `return` / sets the flag the `while` tests,
`Executor.recv_loop`: ExecutorFailure + `terminate()`), or — outside the loop — runs into the method's final
`raise` (`Bridge.recv_events`: `shutdown()` then `raise ValueError(shutdown_reason)`). This is a statement about
the SOURCE SHAPE (AST translator `_raise_ends`); that the real loop function then really ends / raises is
observed by the tie (`stops` of every `poll` line), not proved. -/
theorem c06_steady_loops_raise_ends :
    ∀ l ∈ EkwVerif.Gen.RetryLoops.loops, l.phase = Phase.steady → l.raiseEnds = true := by
  decide

/-- **The model's monotone sets are the source's (generated scan).** `Listener.acked` is only ever constructed
empty, tested for membership and `.add`ed to; `ReliableSender.idx` is only set to 0 at construction and
incremented by 1. `Inv.del_nodup` (at-most-once) rests on exactly this: a bounded / expiring `acked` or a wrapping
`idx` would make it false (the source's own TODO at comms.py:111 is such a change). Source shape only; the
long-history family of the tie (≥ 1500 messages through one Listener, delayed duplicates of the first ones)
samples the behaviour. -/
theorem c06_source_monotone :
    EkwVerif.Gen.RetryLoops.listenerAckedOnlyGrows = true ∧ EkwVerif.Gen.RetryLoops.senderIdxOnlyIncrements = true := by
  decide

/-- The receive-only loops (a Listener without a ReliableSender: `DataServer.recv_loop`) poll with a finite
timeout and, having no sender, neither feed Acks to one nor retry: what they accept is acknowledged by the
Listener like everywhere else (all Listener-level theorems apply to them), what they send is C07's. -/
theorem c06_recv_only_loops :
    ∀ l ∈ EkwVerif.Gen.RetryLoops.recvOnlyLoops,
      l.timeoutMs.isSome = true ∧ l.callsRetry = false ∧ l.feedsAck = false := by
  decide

/-- Senders driven by the steady-state loops of the table raise within the budget. PARTIAL: only
the steady-state loops; what is missing is the shutdown loop (`c06_loop_raises_full_fails`). -/
theorem c06_loop_raises_partial :
    ∀ l ∈ EkwVerif.Gen.RetryLoops.loops, l.phase = Phase.steady → LoopRaises l := by
  intro l hl hp
  exact c06_loop_raises_within_budget l (c06_retry_loops_ok_partial l hl hp).2

/-- **Deadline for the steady-state loops, in the constants of the source.** For every steady
loop of the table, with its own poll timeout `T`, `comms.default_message_resend_ms` as resend
grace and `comms.max_retries_per_message` as budget: whatever the network does, once more than
`max_retries × (resend_ms + T + slack)` ms have passed at a sender whose loop iterates (each
iteration: poll ≤ `T`, work ≤ `slack`), every message in flight to a host it still knows has been
acknowledged or the sender has raised. PARTIAL as `c06_loop_raises_partial` (steady loops only,
host not removed). -/
theorem c06_steady_loops_deadline_partial :
    ∀ l ∈ EkwVerif.Gen.RetryLoops.loops, l.phase = Phase.steady → ∃ T, l.timeoutMs = some T ∧
      ∀ (slack : Nat) (s : Sys), Reachable s → ∀ (a i : Nat) (r : Rec),
        (s.ep a).grace = EkwVerif.Gen.RetryLoops.resendGraceMs → s.maxRetries = EkwVerif.Gen.RetryLoops.maxRetries →
        i < (s.ep a).idx → (s.ep a).inflight i = some r → (s.ep a).hosts r.host ≠ none →
        ∀ xs : List TIter, (∀ x ∈ xs, x.Ok a (T + slack)) → Op.popHost a r.host ∉ titersOps a xs →
          EkwVerif.Gen.RetryLoops.maxRetries * (EkwVerif.Gen.RetryLoops.resendGraceMs + (T + slack)) < totalDt xs →
            ((run s (titersOps a xs)).ep a).inflight i = none ∨ ((run s (titersOps a xs)).ep a).raised = true := by
  intro l hl hp
  have hfin := c06_steady_loops_poll_finite l hl (by rw [hp]; decide)
  cases hT : l.timeoutMs with
  | none => rw [hT] at hfin; cases hfin
  | some T =>
    refine ⟨T, rfl, ?_⟩
    intro slack s h a i r hg hmax hlt hr hhost xs hxs hpop htime
    have hb := c06_budget_le_max h a i r hlt hr
    refine c06_raises_by_deadline_partial h a i r (T + slack) hlt hr hhost xs hxs hpop ?_
    rw [hg]
    have h1 : r.remaining.toNat ≤ EkwVerif.Gen.RetryLoops.maxRetries := by rw [← hmax]; omega
    exact Nat.lt_of_le_of_lt (Nat.mul_le_mul_right _ h1) htime

/-! ### the raise ENDS the loop (clause (b) at the level of the loop function) -/

/-- The endpoint loop as the code runs it. Iterations of loop `l` at endpoint `a` (each: arbitrary
steps of anybody before, a clock advance, the body, `maybe_retry` iff the row says so) are executed
UNTIL one of them ends with the sender having raised: by the row's column `raiseEnds` (no handler
swallows the ValueError) the loop function has then ended — `Bridge.recv_events` is on its way to
`raise ValueError(shutdown_reason)`, `Executor.recv_loop` has reported ExecutorFailure and returned —
and executes NOTHING more: of the remaining rounds only the steps of the others (`pre`) happen.
The Bool is "the loop has ended". A row with `raiseEnds = false` (a swallowing handler) never stops. -/
def loopFrom (a : Nat) (l : LoopInfo) : Bool → Sys → List (List Op × Nat × List Op) → Sys × Bool
  | stopped, s, [] => (s, stopped)
  | true, s, x :: xs => loopFrom a l true (run s x.1) xs
  | false, s, x :: xs =>
    let s' := run s (x.1 ++ [Op.tick a x.2.1] ++ iteration a l x.2.2)
    loopFrom a l (l.raiseEnds && (s'.ep a).raised) s' xs

namespace Aux
theorem loopFrom_stopped (a : Nat) (l : LoopInfo) (xs : List (List Op × Nat × List Op)) :
    ∀ (s : Sys), Inv s → (s.ep a).raised = true →
      (loopFrom a l true s xs).2 = true ∧ ((loopFrom a l true s xs).1.ep a).raised = true := by
  induction xs with
  | nil => intro s _ hr; exact ⟨rfl, hr⟩
  | cons x xs ih =>
    intro s hi hr
    simp only [loopFrom]
    exact ih _ (run_inv hi _) ((run_later hi _).raised a hr)

theorem loopOps_cons (a : Nat) (l : LoopInfo) (x : List Op × Nat × List Op) (xs : List (List Op × Nat × List Op)) :
    loopOps a l (x :: xs) = (x.1 ++ [Op.tick a x.2.1] ++ iteration a l x.2.2) ++ loopOps a l xs := by
  simp [loopOps]

theorem loopFrom_cases (a : Nat) (l : LoopInfo) (hl : l.raiseEnds = true) (xs : List (List Op × Nat × List Op)) :
    ∀ (s : Sys), Inv s →
      ((loopFrom a l false s xs).2 = true ∧ ((loopFrom a l false s xs).1.ep a).raised = true) ∨
      ((loopFrom a l false s xs).2 = false ∧ (loopFrom a l false s xs).1 = run s (loopOps a l xs) ∧
        (xs ≠ [] → ((loopFrom a l false s xs).1.ep a).raised = false)) := by
  induction xs with
  | nil => intro s _; right; exact ⟨rfl, rfl, fun h => absurd rfl h⟩
  | cons x xs ih =>
    intro s hi
    have hi1 : Inv (run s (x.1 ++ [Op.tick a x.2.1] ++ iteration a l x.2.2)) := run_inv hi _
    simp only [loopFrom, hl, Bool.true_and]
    cases hr : ((run s (x.1 ++ [Op.tick a x.2.1] ++ iteration a l x.2.2)).ep a).raised with
    | true => left; exact loopFrom_stopped a l xs _ hi1 hr
    | false =>
      rcases ih _ hi1 with h | ⟨h1, h2, h3⟩
      · left; exact h
      · right
        refine ⟨h1, ?_, ?_⟩
        · rw [h2, loopOps_cons]; simp only [run_append]
        · intro _
          cases xs with
          | nil => simpa [loopFrom] using hr
          | cons y ys => exact h3 (by simp)
end Aux

/-- **A sender that gives up ENDS its loop.** For every loop whose row says `callsRetry` and
`raiseEnds` (by `c06_retry_loops_ok_partial` and `c06_steady_loops_raise_ends`: every steady-state loop
of the generated table): from any reachable state with message `i` of sender `a` in flight to a
host the sender knows, run the loop as the code does (`loopFrom`: it stops at the first iteration
that ends with the sender having raised) for at least `maxRetries` rounds, each after more than the
resend grace, the host never removed. Then the message has been acknowledged, or the loop HAS ENDED
with the raise (and never ran again) — there is no third outcome in which the loop goes on with the
message undelivered. What is proved is the model's loop; that the real loop functions end / raise in
that iteration is the `stops` comparison of the tie, that no handler swallows the ValueError is the
generated column. -/
theorem c06_raise_ends_loop (l : LoopInfo) (hc : l.callsRetry = true) (he : l.raiseEnds = true)
    {s : Sys} (h : Reachable s) (a i : Nat) (r : Rec)
    (hlt : i < (s.ep a).idx) (hr : (s.ep a).inflight i = some r) (hhost : (s.ep a).hosts r.host ≠ none)
    (iters : List (List Op × Nat × List Op))
    (hdt : ∀ x ∈ iters, (s.ep a).grace < x.2.1 ∧ Op.retry a ∉ x.2.2)
    (hpop : Op.popHost a r.host ∉ loopOps a l iters) (hn : s.maxRetries ≤ iters.length) :
    ((loopFrom a l false s iters).1.ep a).inflight i = none ∨
      ((loopFrom a l false s iters).2 = true ∧ ((loopFrom a l false s iters).1.ep a).raised = true) := by
  have hi := Aux.reachable_inv h
  rcases Aux.loopFrom_cases a l he iters s hi with hstop | ⟨_, heq, hnr⟩
  · right; exact hstop
  · left
    have hne : iters ≠ [] := by
      intro h0
      have := hi.max_pos
      rw [h0] at hn
      simp at hn
      omega
    have hfin := c06_loop_raises_within_budget l hc s h a i r hlt hr hhost iters hdt hpop hn
    rw [← heq] at hfin
    rcases hfin with h1 | h1
    · exact h1
    · rw [hnr hne] at h1; cases h1

/-- over the generated table: every steady-state loop -/
theorem c06_steady_loops_end_at_raise :
    ∀ l ∈ EkwVerif.Gen.RetryLoops.loops, l.phase = Phase.steady →
      ∀ (s : Sys), Reachable s → ∀ (a i : Nat) (r : Rec), i < (s.ep a).idx → (s.ep a).inflight i = some r →
        (s.ep a).hosts r.host ≠ none → ∀ iters : List (List Op × Nat × List Op),
          (∀ x ∈ iters, (s.ep a).grace < x.2.1 ∧ Op.retry a ∉ x.2.2) →
          Op.popHost a r.host ∉ loopOps a l iters → s.maxRetries ≤ iters.length →
            ((loopFrom a l false s iters).1.ep a).inflight i = none ∨
              ((loopFrom a l false s iters).2 = true ∧ ((loopFrom a l false s iters).1.ep a).raised = true) := by
  intro l hl hp s h a i r hlt hr hhost iters hdt hpop hn
  exact c06_raise_ends_loop l (c06_retry_loops_ok_partial l hl hp).2 (c06_steady_loops_raise_ends l hl hp) h a i r hlt hr hhost
    iters hdt hpop hn

/-- non-vacuity, and what a swallowing handler would do: with `maxRetries = 2` and a black-holing
network the loop with `raiseEnds` stops in its 2nd iteration after 3 transmissions and the 3rd and
4th rounds transmit nothing more; the same loop with `raiseEnds := false` goes on: 5 transmissions,
never stopped. -/
example :
    let cfg : Nat → Nat × (Nat → Option Nat) := fun a => (800, lookup (if a = 0 then [(1, 1)] else [(0, 0)]))
    let s := run (init 2 cfg) [.send 0 1 7, .drop 0]
    let it : List (List Op × Nat × List Op) := List.replicate 4 ([], 801, [])
    let good : LoopInfo := { name := "L", phase := .steady, feedsAck := true, callsRetry := true }
    let bad : LoopInfo := { good with raiseEnds := false }
    (loopFrom 0 good false s it).2 = true ∧ ((loopFrom 0 good false s it).1.ep 0).sends 0 = 3 ∧
    (loopFrom 0 bad false s it).2 = false ∧ ((loopFrom 0 bad false s it).1.ep 0).sends 0 = 5 := by
  decide

/-- The full statement fails: in the model of the pinned `Bridge.shutdown` loop a lost
`ExecutorShutdown` is neither resent nor reported, however long the loop runs. Witness: one
message, its only transmission dropped, then 20 iterations each after 1001 ms. The harness replays
this history on the real `Bridge.shutdown` on every run. -/
theorem c06_loop_raises_full_fails : ¬ ∀ l ∈ EkwVerif.Gen.RetryLoops.loops, LoopRaises l := by
  intro h
  have hl : EkwVerif.Gen.RetryLoops.loops[2]? =
      some { name := "Bridge.shutdown", phase := .shutdown, feedsAck := false, callsRetry := false,
             timeoutMs := some EkwVerif.Gen.RetryLoops.defaultTimeoutMs } := by decide
  have hmem := List.mem_of_getElem? hl
  let cfg : Nat → Nat × (Nat → Option Nat) := fun a => (800, lookup (if a = 0 then [(1, 1)] else [(0, 0)]))
  have hreach : Reachable (run (init 20 cfg) [.send 0 1 7, .drop 0]) := ⟨20, cfg, _, by decide, rfl⟩
  have := h _ hmem _ hreach 0 0 ⟨1, 7, 0, 20⟩ (by decide) (by decide) (by decide)
    (List.replicate 20 ([], 1001, [Op.collect 0])) (by decide) (by decide) (by decide)
  revert this
  decide

end EkwVerif.Ack
