/-
C14, second part (second audit): statics that are sets, and unions that compare statics with Python's `==`.

* `fluent._render` (fix commit) lists the elements of a set in sorted order of their renderings. The theorem is about the one
  thing the interpreter is free to choose — the order in which a set is iterated: whatever that order is, the rendering, the
  hashed string and the node name are the same (`c14_set_order_free`, `c14_set_static_name_order_free`); without the sort they
  are not (`c14_set_sort_needed`, the behaviour before the fix).
* Binary operations between action objects (`join`, hence `add` / `subtract` / …) on the heap: the model names the one
  assignment of `join` and where it stores (`MatchStore`); with the code's local variable every existing object keeps its
  node array over every history of binary operations and the result is a new object (`c14_join_intact`, `c14_arith_intact`,
  `c14_binary_history_intact`), the heap model is the value model of C13 (`c14_join_refines`, `c14_arith_refines`) and is what
  `hstepR` runs (`c14_join_is_hstep`); storing into the operand — the pinned tree — is refuted (`c14_join_local_needed`).
* `deduplicate_nodes` compares payloads with `==`, for which `2 == 2.0`: the union is `dedupBy` an equivalence that is coarser
  than "same computation". Where the two coincide on the nodes at hand the union is the model's `dedupNodes`
  (`c14_union_dedup_partial`); in general a computation with a name of its own vanishes from the union
  (`c14_union_dedup_full_fails`, known finding C14-dedup-merges-equal-valued-statics).
-/
import EkwVerif.Model.Names
import EkwVerif.Props.C14

namespace EkwVerif.Names

namespace Aux

theorem strLe_total : ∀ (a b : Str), strLe a b = true ∨ strLe b a = true
  | [], _ => by simp [strLe]
  | _ :: _, [] => by simp [strLe]
  | a :: as, b :: bs => by
    simp only [strLe]
    by_cases h1 : a.toNat < b.toNat
    · simp [h1]
    · by_cases h2 : b.toNat < a.toNat
      · simp [h2]
      · simp only [h1, h2, if_false]
        exact strLe_total as bs

theorem strLe_trans : ∀ (a b c : Str), strLe a b = true → strLe b c = true → strLe a c = true
  | [], _, _, _, _ => by simp [strLe]
  | _ :: _, [], _, h, _ => by simp [strLe] at h
  | _ :: _, _ :: _, [], _, h => by simp [strLe] at h
  | a :: as, b :: bs, c :: cs, h1, h2 => by
    simp only [strLe] at h1 h2 ⊢
    by_cases ab : a.toNat < b.toNat
    · by_cases bc : b.toNat < c.toNat
      · have : a.toNat < c.toNat := by omega
        simp [this]
      · by_cases cb : c.toNat < b.toNat
        · simp [bc, cb] at h2
        · have : a.toNat < c.toNat := by omega
          simp [this]
    · by_cases ba : b.toNat < a.toNat
      · simp [ab, ba] at h1
      · simp only [ab, ba, if_false] at h1
        by_cases bc : b.toNat < c.toNat
        · have : a.toNat < c.toNat := by omega
          simp [this]
        · by_cases cb : c.toNat < b.toNat
          · simp [bc, cb] at h2
          · simp only [bc, cb, if_false] at h2
            have e1 : ¬ a.toNat < c.toNat := by omega
            have e2 : ¬ c.toNat < a.toNat := by omega
            simp only [e1, e2, if_false]
            exact strLe_trans as bs cs h1 h2

theorem strLe_antisymm : ∀ (a b : Str), strLe a b = true → strLe b a = true → a = b
  | [], [], _, _ => rfl
  | [], _ :: _, _, h => by simp [strLe] at h
  | _ :: _, [], h, _ => by simp [strLe] at h
  | a :: as, b :: bs, h1, h2 => by
    simp only [strLe] at h1 h2
    by_cases ab : a.toNat < b.toNat
    · have ba : ¬ b.toNat < a.toNat := by omega
      simp [ab, ba] at h2
    · by_cases ba : b.toNat < a.toNat
      · simp [ab, ba] at h1
      · simp only [ab, ba, if_false] at h1 h2
        have e : a = b := Char.ext (UInt32.toNat_inj.mp (by
          have : a.toNat = b.toNat := by omega
          exact this))
        rw [e, strLe_antisymm as bs h1 h2]

theorem insertSorted_perm (x : Str) : ∀ l : List Str, (insertSorted x l).Perm (x :: l)
  | [] => by simp [insertSorted]
  | y :: ys => by
    simp only [insertSorted]
    split
    · exact List.Perm.refl _
    · exact ((insertSorted_perm x ys).cons y).trans (List.Perm.swap x y ys)

theorem sortStrs_perm : ∀ l : List Str, (sortStrs l).Perm l
  | [] => by simp [sortStrs]
  | x :: xs => by
    have ih := sortStrs_perm xs
    simp only [sortStrs, List.foldr_cons] at ih ⊢
    exact (insertSorted_perm x _).trans (ih.cons x)

abbrev Sorted (l : List Str) : Prop := l.Pairwise (fun a b => strLe a b = true)

theorem insertSorted_sorted (x : Str) : ∀ l : List Str, Sorted l → Sorted (insertSorted x l)
  | [], _ => by simp [insertSorted, Sorted]
  | y :: ys, h => by
    simp only [insertSorted]
    split
    · rename_i hxy
      refine List.Pairwise.cons ?_ h
      intro z hz
      rcases List.mem_cons.mp hz with rfl | hz
      · exact hxy
      · exact strLe_trans x y z hxy (List.rel_of_pairwise_cons h hz)
    · rename_i hxy
      have hyx : strLe y x = true := by
        rcases strLe_total x y with h' | h'
        · exact absurd h' hxy
        · exact h'
      refine List.Pairwise.cons ?_ (insertSorted_sorted x ys h.tail)
      intro z hz
      have := (insertSorted_perm x ys).subset hz
      rcases List.mem_cons.mp this with rfl | hz'
      · exact hyx
      · exact List.rel_of_pairwise_cons h hz'

theorem sortStrs_sorted : ∀ l : List Str, Sorted (sortStrs l)
  | [] => by simp [sortStrs, Sorted]
  | x :: xs => by
    have ih := sortStrs_sorted xs
    simp only [sortStrs, List.foldr_cons] at ih ⊢
    exact insertSorted_sorted x _ ih

/-- `sorted(…)` does not depend on the order in which its argument is listed -/
theorem sortStrs_eq_of_perm {l1 l2 : List Str} (h : l1.Perm l2) : sortStrs l1 = sortStrs l2 :=
  List.Perm.eq_of_pairwise (le := fun a b => strLe a b = true)
    (fun a b _ _ hab hba => strLe_antisymm a b hab hba)
    (sortStrs_sorted l1) (sortStrs_sorted l2)
    ((sortStrs_perm l1).trans (h.trans (sortStrs_perm l2).symm))

theorem reprAll_eq_map : ∀ l : List PyVal, reprAll l = l.map PyVal.repr
  | [] => by simp [reprAll]
  | v :: vs => by simp [reprAll, reprAll_eq_map vs]

theorem reprAll_append (l1 l2 : List PyVal) : reprAll (l1 ++ l2) = reprAll l1 ++ reprAll l2 := by
  simp [reprAll_eq_map]

end Aux

/-! ### set statics -/

/-- **The name does not depend on the iteration order of a set static.** The elements of a set reach `_render` in whatever
order the interpreter iterates them (for strings: a function of the process's hash seed); the rendering of the set — hence
the hashed string, hence the node name — is the same for every such order. Nested: `l1`, `l2` are arbitrary values, e.g.
frozensets inside a set. -/
theorem c14_set_order_free (frozen : Bool) (l1 l2 : List PyVal) (h : l1.Perm l2) :
    (PyVal.set frozen l1).repr = (PyVal.set frozen l2).repr := by
  have e : sortStrs (reprAll l1) = sortStrs (reprAll l2) := by
    rw [Aux.reprAll_eq_map, Aux.reprAll_eq_map]
    exact Aux.sortStrs_eq_of_perm (h.map _)
  simp only [PyVal.repr, renderSet, e]

/-- the statement at the level of names: a positional or a keyword static that is a set, iterated in two orders -/
theorem c14_set_static_name_order_free (H : Str → Str) (c : Comp Statics) (frozen : Bool) (l1 l2 : List PyVal) (h : l1.Perm l2)
    (pre post : List PyVal) (kpre kpost : List (Str × PyVal)) (key : Str) :
    nodeName H renderStatics { c with statics := (pre ++ [.set frozen l1] ++ post, kpre ++ [(key, .set frozen l1)] ++ kpost) }
      = nodeName H renderStatics { c with statics := (pre ++ [.set frozen l2] ++ post, kpre ++ [(key, .set frozen l2)] ++ kpost) } := by
  have e := c14_set_order_free frozen l1 l2 h
  simp only [nodeName, render, renderStatics, reprDict, PyVal.repr, Aux.reprAll_append, reprAll, List.map_append, List.map_cons, List.map_nil]
  simp only [PyVal.repr] at e
  rw [e]

/-- non-vacuity: two orders of {'2t', 'msl', 'tp'}: one rendering, the sorted one -/
example : (PyVal.set false [.str "tp".toList, .str "2t".toList, .str "msl".toList]).repr = "{'2t', 'msl', 'tp'}".toList
    ∧ (PyVal.set false [.str "msl".toList, .str "tp".toList, .str "2t".toList]).repr = "{'2t', 'msl', 'tp'}".toList
    ∧ (PyVal.set true []).repr = "frozenset()".toList
    ∧ (PyVal.set true [.int 2, .int 10]).repr = "frozenset({10, 2})".toList := by decide

/-- `str(set)` as the code rendered it before the fix: the elements in iteration order -/
def renderSetUnsorted (items : List Str) : Str := '{' :: intercalate [',', ' '] items ++ ['}']

/-- **The sort is needed**: rendering the elements in iteration order (the behaviour before the fix) gives two strings for one
set — the witness replayed on the real code is `Payload(f, kwargs={'params': {'2t', 'msl', …}})` under two hash seeds -/
theorem c14_set_sort_needed :
    ∃ l1 l2 : List PyVal, l1.Perm l2 ∧ renderSetUnsorted (reprAll l1) ≠ renderSetUnsorted (reprAll l2) :=
  ⟨[.str "tp".toList, .str "2t".toList], [.str "2t".toList, .str "tp".toList], List.Perm.swap _ _ _, by decide⟩

/-! ### unions that compare statics with `==` -/

section Union
variable {σ : Type}

/-- `_DedupTransformer.node`: the node is dropped when an already kept node is "the same" for the predicate -/
def insertNewBy (eqv : Comp σ → Comp σ → Bool) (acc : List (Comp σ)) (c : Comp σ) : List (Comp σ) :=
  if acc.any (fun d => eqv c d) then acc else acc ++ [c]

/-- `deduplicate_nodes` with the predicate the code uses (`same_payload`: payloads compared with `==`) -/
def dedupBy (eqv : Comp σ → Comp σ → Bool) (g : List (Comp σ)) : List (Comp σ) := g.foldl (insertNewBy eqv) []

namespace Aux

theorem foldl_insertNewBy_eq [DecidableEq σ] (eqv : Comp σ → Comp σ → Bool) (g : List (Comp σ))
    (hexact : ∀ a ∈ g, ∀ b ∈ g, (eqv a b = true ↔ a = b)) :
    ∀ (l acc : List (Comp σ)), (∀ c ∈ l, c ∈ g) → (∀ c ∈ acc, c ∈ g) →
      l.foldl (insertNewBy eqv) acc = l.foldl insertNew acc
  | [], _, _, _ => rfl
  | c :: l, acc, hl, hacc => by
    have hc : c ∈ g := hl c List.mem_cons_self
    have e : insertNewBy eqv acc c = insertNew acc c := by
      unfold insertNewBy insertNew
      have : (acc.any (fun d => eqv c d) = true) ↔ c ∈ acc := by
        rw [List.any_eq_true]
        constructor
        · rintro ⟨d, hd, hcd⟩
          have := (hexact c hc d (hacc d hd)).mp hcd
          exact this ▸ hd
        · intro hmem
          exact ⟨c, hmem, (hexact c hc c hc).mpr rfl⟩
      by_cases hm : c ∈ acc
      · simp [hm, this.mpr hm]
      · have : ¬ (acc.any (fun d => eqv c d) = true) := fun h => hm (this.mp h)
        simp [hm, this]
    simp only [List.foldl_cons, e]
    apply foldl_insertNewBy_eq eqv g hexact l
    · exact fun x hx => hl x (List.mem_cons_of_mem _ hx)
    · intro x hx
      unfold insertNew at hx
      split at hx
      · exact hacc x hx
      · rcases List.mem_append.mp hx with h | h
        · exact hacc x h
        · simp at h; exact h ▸ hc

end Aux

/-- **Unions de-duplicate — where `==` on the statics is equality.** If among the nodes at hand the code's predicate holds
exactly between equal computations (the excluded class: two statics that are equal for `==` but are different values, `2` and
`2.0`, `1` and `True`), the real union is the model's `dedupNodes`, for which `c14_union_dedup` holds. -/
theorem c14_union_dedup_partial [DecidableEq σ] (eqv : Comp σ → Comp σ → Bool) (g : List (Comp σ))
    (hexact : ∀ a ∈ g, ∀ b ∈ g, (eqv a b = true ↔ a = b)) :
    dedupBy eqv g = dedupNodes g :=
  Aux.foldl_insertNewBy_eq eqv g hexact g [] (fun _ h => h) (by simp)

end Union

/-- Python's `==` between two static values as far as the witness needs it: an int equals the float with the same value -/
def pyEqVal : PyVal → PyVal → Bool
  | .int i, .int j => i == j
  | .flt r, .flt s => r == s
  | .int i, .flt r => r == (toString i).toList ++ ".0".toList
  | .flt r, .int i => r == (toString i).toList ++ ".0".toList
  | .str a, .str b => a == b
  | _, _ => false

def pyEqList : List PyVal → List PyVal → Bool
  | [], [] => true
  | a :: as, b :: bs => pyEqVal a b && pyEqList as bs
  | _, _ => false

/-- `same_payload` + `_cmp_nodes`: same callable object, statics equal for `==`, same inputs and outputs -/
def samePayload (a b : Comp Statics) : Bool :=
  a.func == b.func && pyEqList a.statics.1 b.statics.1 && a.statics.2.isEmpty && b.statics.2.isEmpty
    && a.inputs == b.inputs && a.outputs == b.outputs

def powInt : Comp Statics :=
  { func := { name := "pow".toList, ident := 1 }, statics := ([.str "input0".toList, .int 2], []), inputs := ["a".toList] }
def powFlt : Comp Statics :=
  { func := { name := "pow".toList, ident := 1 }, statics := ([.str "input0".toList, .flt "2.0".toList], []), inputs := ["a".toList] }

/-- **… and in general they over-merge** (known finding): `a.power(2)` and `a.power(2.0)` are two computations with two
different names (the name renders `2` and `2.0`), but the union of the two keeps one node: the computation named for
`a.power(2.0)` is not in the union, and no node of the union carries its name. Replayed on the real code by the witness
program of the check. -/
theorem c14_union_dedup_full_fails :
    ∃ (g : List (Comp Statics)) (c : Comp Statics), c ∈ g ∧ c ∉ dedupBy samePayload g ∧
      (∀ d ∈ dedupBy samePayload g, nodeName id renderStatics d ≠ nodeName id renderStatics c) := by
  have hd : dedupBy samePayload [powInt, powFlt] = [powInt] := by rfl
  have hne : powFlt ≠ powInt := by
    intro h
    have := congrArg (fun c => c.statics.1) h
    simp [powInt, powFlt] at this
  have hn : nodeName id renderStatics powInt ≠ nodeName id renderStatics powFlt := by decide
  refine ⟨[powInt, powFlt], powFlt, by simp, ?_, ?_⟩
  · rw [hd]; simpa using hne
  · rw [hd]; intro d hd'; simp at hd'; subst hd'; exact hn

/-! ### binary operations between action objects -/

open EkwVerif.Fluent

/-- **`join` is the value model of C13 on the heap**: with the code's local variable, `joinH` reads the two cells, computes
exactly `Fluent.join` of their node arrays (errors included) and puts the result into a new cell. -/
theorem c14_join_refines (h : Heap) (a b : Nat) (dim : DimArg) (m : Bool) :
    joinH .localVar h a b dim m = (join (h.cell a) (h.cell b) dim m).map (fun r => (h ++ [r], h.length)) := by
  unfold joinH join
  cases m with
  | true =>
    simp only [if_true]
    cases matchCoords (h.cell a) (h.cell b) with
    | error e => rfl
    | ok b' =>
      simp only []
      cases joinCore (h.cell a) b' dim <;> rfl
  | false =>
    simp only [Bool.false_eq_true, if_false]
    cases joinCore (h.cell a) (h.cell b) dim <;> rfl

/-- … and it is what a `join` statement of a program runs (`hstepR`, `c14_history_intact`, `c14_result_fresh`) -/
theorem c14_join_is_hstep {P : Type} (w : Rewrap) (h : Heap) (a b : Nat) (dim : DimArg) (m : Bool) :
    hstepR (P := P) w h (.op (.join a b dim m)) =
      (match joinH .localVar h a b dim m with
       | .ok (h', r) => (h', some r)
       | .error _ => (h, none)) := by
  rw [c14_join_refines]
  simp only [hstepR, FOp.run, Heap.cell]
  cases join (h.getD a default) (h.getD b default) dim m <;> rfl

/-- **`join` leaves receiver and operand intact**: whatever the two objects are (the same object twice included), with or
without `match_coord_values`, whatever their coordinate values: every object that existed keeps its node array, and the
result is an object that did not exist. -/
theorem c14_join_intact (h : Heap) (a b : Nat) (dim : DimArg) (m : Bool) (h' : Heap) (r : Nat)
    (e : joinH .localVar h a b dim m = .ok (h', r)) :
    Keeps h h' ∧ r = h.length ∧ h'.length = h.length + 1 := by
  rw [c14_join_refines] at e
  cases hj : join (h.cell a) (h.cell b) dim m with
  | error x => rw [hj] at e; cases e
  | ok x =>
    rw [hj] at e
    simp only [Except.map] at e
    injection e with e
    injection e with e1 e2
    subst e1; subst e2
    exact ⟨Aux.keeps_append _ (Aux.keeps_refl h), rfl, by simp⟩

/-- **Arithmetic between actions** (`a.add(b)`, `a.subtract(b)`, …: join with `match_coord_values=True` on `**datatype**`,
then reduce): every existing object keeps its node array, the result is a new object and its node array is the value
model's `arithAction`. -/
theorem c14_arith_intact (h : Heap) (fn : String) (a b : Nat) (h' : Heap) (r : Nat)
    (e : arithH .localVar h fn a b = .ok (h', r)) :
    Keeps h h' ∧ h.length < r ∧ r < h'.length := by
  unfold arithH at e
  cases hj : joinH .localVar h a b (.name datatypeDim) true with
  | error x => rw [hj] at e; cases e
  | ok p =>
    obtain ⟨h1, j⟩ := p
    rw [hj] at e
    simp only [] at e
    have k1 := c14_join_intact h a b _ true h1 j hj
    cases hr : reduce { fn := fn } none "" 0 false (h1.cell j) with
    | error x => rw [hr] at e; cases e
    | ok x =>
      rw [hr] at e
      injection e with e
      injection e with e1 e2
      subst e1; subst e2
      refine ⟨Aux.keeps_append _ k1.1, by omega, by simp⟩

theorem c14_arith_refines (h : Heap) (fn : String) (a b : Nat) :
    (arithH .localVar h fn a b).map (fun p => p.1.cell p.2) = arithAction fn (h.cell a) (h.cell b) := by
  unfold arithH arithAction
  rw [c14_join_refines]
  cases join (h.cell a) (h.cell b) (.name datatypeDim) true with
  | error e => rfl
  | ok x =>
    simp only [Except.map, bind, Except.bind]
    have hc : Heap.cell (h ++ [x]) h.length = x := Aux.cell_append_length h x []
    rw [hc]
    cases reduce { fn := fn } none "" 0 false x with
    | error e => rfl
    | ok y =>
      have : Heap.cell (h ++ [x] ++ [y]) (h ++ [x]).length = y := Aux.cell_append_length (h ++ [x]) y []
      simp only [this]

/-- **…over every history of binary operations**: any sequence of joins (with or without `match_coord_values`, on new or
existing dimensions) and of arithmetic between any two action objects, from any heap — coordinate values of the operands
equal or different: every object that existed at some point still holds the same node array at the end. The statement has
content because the model writes where the code writes: the same history with the operand store is refuted below. -/
theorem c14_binary_history_intact (ops : List BOp) (h : Heap) : Keeps h (brun .localVar h ops) := by
  induction ops generalizing h with
  | nil => exact Aux.keeps_refl h
  | cons o os ih =>
    have k1 : Keeps h (bstep .localVar h o) := by
      unfold bstep
      cases o with
      | join a b dim m =>
        simp only [BOp.runH]
        split
        · rename_i h' r e; exact (c14_join_intact h a b dim m h' r e).1
        · exact Aux.keeps_refl h
      | arith fn a b =>
        simp only [BOp.runH]
        split
        · rename_i h' r e; exact (c14_arith_intact h fn a b h' r e).1
        · exact Aux.keeps_refl h
    exact Aux.keeps_trans k1 (ih _)

/-- non-vacuity: `a.add(b)` with a.d0 = [0, 10], b.d0 = [100, 101] succeeds (two new objects) and `b` keeps its labels -/
example : ((brun .localVar [fromSource [("d0", [.int 0, .int 10])] 0, fromSource [("d0", [.int 100, .int 101])] 2]
    [.arith "add" 0 1, .join 0 1 (.name "j") true]).map (fun c => c.dims.map (·.labels)))
    = [[[.int 0, .int 10]], [[.int 100, .int 101]], [[.int 0, .int 1], [.int 0, .int 10]], [[.int 0, .int 10]],
       [[.int 0, .int 1], [.int 0, .int 10]]] := by decide

/-- **The local variable is necessary**: storing the relabelled array into the operand object — what the pinned tree did —
changes an existing action: after `a.add(b)` with a.d0 = [0, 10], b.d0 = [100, 101], `b` itself carries [0, 10]. This is the
property's own class (a binary operation between actions whose coordinate values differ). -/
theorem c14_join_local_needed :
    ∃ (h : Heap) (o : BOp) (k : Nat), k < h.length ∧
      ((bstep .operand h o)[k]?.map (fun c => c.dims.map (·.labels))) ≠ (h[k]?.map (fun c => c.dims.map (·.labels))) :=
  ⟨[fromSource [("d0", [.int 0, .int 10])] 0, fromSource [("d0", [.int 100, .int 101])] 2], .arith "add" 0 1, 1,
    by decide, by decide⟩

end EkwVerif.Names
