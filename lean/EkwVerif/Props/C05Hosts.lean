/-
C05, host bookkeeping of the Bridge (Model/Failure.lean, section "controller side"), for ARBITRARY host names.

Nothing in here assumes that host names are unrelated: one name may be a suffix, a prefix or a substring of another
("node1" / "gpunode1" / "node10" / "1"). The only thing that matters is EQUALITY of names:

  * `c05_pop_exact`                     : ExecutorExit / ExecutorFailure of host `h` removes exactly `h` from the host table;
  * `c05_shutdown_sent_exact`           : who is sent ExecutorShutdown by a run that has ended, exactly, in order, with
                                          repetition, in terms of what was read from the listener;
  * `c05_every_host_shut_down_consumed` : run ended ⇒ every registered host was sent ExecutorShutdown, unless its own
                                          exit / failure report was READ BY `recv_events` (before the first shutdown);
  * `c05_every_host_shut_down`          : the same with "somewhere in the stream" (weaker);
  * `c05_shutdown_sent_only_registered` : nobody else is messaged;
  * `c05_shutdown_at_most_twice`, `c05_unreported_host_count` : at most twice (once when the run ended ok); a registered
                                          host that never reports: exactly once (ended ok) / exactly twice (ended with an error);
  * `c05_unreported_host_shut_down_N`   : the N-executor system (Model/FailureN.lean), any schedule, losses included.
-/
import EkwVerif.Props.C05N

namespace EkwVerif.Failure
open EkwVerif.C05

/-- host `h` announces its own end (ExecutorExit or ExecutorFailure carrying exactly the name `h`) in some batch of `stream` -/
def Reported (h : String) (stream : List (List CMsg)) : Prop :=
  ∃ b ∈ stream, CMsg.executorExit h ∈ b ∨ CMsg.executorFailure h ∈ b

/-- the host table after the batches `pre` have been scanned -/
def popAll (hosts : List String) (pre : List (List CMsg)) : List String := pre.flatten.foldl popHost hosts

/-- the batches that ONE call of `recvEvents hosts stream` scans itself (up to and including the first batch with a
failure or an event), i.e. not counting what the shutdown wait reads afterwards -/
def recvRead (hosts : List String) : List (List CMsg) → List (List CMsg)
  | [] => []
  | b :: bs =>
    let s := scanBatch hosts b
    if s.reason then [b]
    else if !s.events.isEmpty then [b]
    else b :: recvRead s.hosts bs

/-- the batches that the `recv_events` calls of `runLoop fuel c stream` scan: everything that was read BEFORE the first
ExecutorShutdown is sent (a prefix of `stream`: `c05_every_host_shut_down_consumed`) -/
def runRead : Nat → Ctrl → List (List CMsg) → List (List CMsg)
  | 0, _, _ => []
  | fuel + 1, c, stream =>
    if !awaitable c then []
    else
      match recvEvents c.hosts stream with
      | .starved _ => recvRead c.hosts stream
      | .raised _ _ _ => recvRead c.hosts stream
      | .events ev hosts rest => recvRead c.hosts stream ++ runRead fuel (ev.foldl notifyOne { c with hosts := hosts }) rest

/-! ## 1. a message removes exactly the host it names -/

/-- POP IS EXACT. After `popHost hosts m` a host `h` is still registered iff it was registered and `m` is neither
`ExecutorExit h` nor `ExecutorFailure h` — for arbitrary names: no other host is ever forgotten, whatever its name looks like. -/
theorem c05_pop_exact (hosts : List String) (m : CMsg) (h : String) :
    h ∈ popHost hosts m ↔ (h ∈ hosts ∧ m ≠ .executorExit h ∧ m ≠ .executorFailure h) := by
  cases m with
  | executorExit h' =>
    simp only [popHost, List.mem_filter, bne_iff_ne, ne_eq, CMsg.executorExit.injEq, reduceCtorEq, not_false_eq_true, and_true]
    constructor
    · rintro ⟨a, b⟩; exact ⟨a, fun e => b e.symm⟩
    · rintro ⟨a, b⟩; exact ⟨a, fun e => b e.symm⟩
  | executorFailure h' =>
    simp only [popHost, List.mem_filter, bne_iff_ne, ne_eq, CMsg.executorFailure.injEq, reduceCtorEq, not_false_eq_true, true_and]
    constructor
    · rintro ⟨a, b⟩; exact ⟨a, fun e => b e.symm⟩
    · rintro ⟨a, b⟩; exact ⟨a, fun e => b e.symm⟩
  | _ => simp [popHost]

example : popHost ["node1", "gpunode1", "node10", "1", "11"] (.executorFailure "node1") = ["gpunode1", "node10", "1", "11"] := by decide
example : popHost ["node1", "gpunode1", "node10", "1", "11"] (.executorExit "1") = ["node1", "gpunode1", "node10", "11"] := by decide
example : popHost ["node1", "gpunode1", "node10", "1", "11"] (.executorExit "node") = ["node1", "gpunode1", "node10", "1", "11"] := by decide

namespace AuxH

theorem mem_popFold : ∀ (l : List CMsg) (hosts : List String) (h : String),
    h ∈ l.foldl popHost hosts ↔ (h ∈ hosts ∧ CMsg.executorExit h ∉ l ∧ CMsg.executorFailure h ∉ l)
  | [], hosts, h => by simp
  | m :: rest, hosts, h => by
    rw [List.foldl_cons, mem_popFold rest, c05_pop_exact]
    simp only [List.mem_cons, not_or]
    constructor
    · rintro ⟨⟨a, b, c⟩, d, e⟩; exact ⟨a, ⟨fun x => b x.symm, d⟩, ⟨fun x => c x.symm, e⟩⟩
    · rintro ⟨a, ⟨b, d⟩, ⟨c, e⟩⟩; exact ⟨⟨a, fun x => b x.symm, fun x => c x.symm⟩, d, e⟩

theorem pop_or (l : List CMsg) (hosts : List String) (h : String) (hin : h ∈ hosts) :
    h ∈ l.foldl popHost hosts ∨ CMsg.executorExit h ∈ l ∨ CMsg.executorFailure h ∈ l := by
  by_cases h1 : CMsg.executorExit h ∈ l
  · exact Or.inr (Or.inl h1)
  · by_cases h2 : CMsg.executorFailure h ∈ l
    · exact Or.inr (Or.inr h2)
    · exact Or.inl ((mem_popFold l hosts h).2 ⟨hin, h1, h2⟩)

theorem reported_iff (h : String) (pre : List (List CMsg)) :
    Reported h pre ↔ (CMsg.executorExit h ∈ pre.flatten ∨ CMsg.executorFailure h ∈ pre.flatten) := by
  simp only [Reported, List.mem_flatten]
  constructor
  · rintro ⟨b, hb, e | e⟩
    · exact Or.inl ⟨b, hb, e⟩
    · exact Or.inr ⟨b, hb, e⟩
  · rintro (⟨b, hb, e⟩ | ⟨b, hb, e⟩)
    · exact ⟨b, hb, Or.inl e⟩
    · exact ⟨b, hb, Or.inr e⟩

theorem reported_mono {h : String} {pre stream : List (List CMsg)} (hp : pre <+: stream) (hr : Reported h pre) :
    Reported h stream := by
  obtain ⟨b, hb, hx⟩ := hr
  exact ⟨b, hp.mem hb, hx⟩

/-- who is left after scanning `pre`: the hosts that did not report in `pre` -/
theorem mem_popAll (hosts : List String) (pre : List (List CMsg)) (h : String) :
    h ∈ popAll hosts pre ↔ (h ∈ hosts ∧ ¬ Reported h pre) := by
  unfold popAll
  rw [mem_popFold, reported_iff, not_or]

theorem popAll_nil (hosts : List String) : popAll hosts [] = hosts := rfl

theorem popAll_append (hosts : List String) (a b : List (List CMsg)) : popAll hosts (a ++ b) = popAll (popAll hosts a) b := by
  simp [popAll, List.flatten_append, List.foldl_append]

theorem popAll_cons (hosts : List String) (b : List CMsg) (pre : List (List CMsg)) :
    popAll hosts (b :: pre) = popAll (b.foldl popHost hosts) pre := by
  simp [popAll, List.foldl_append]

theorem popAll_single (hosts : List String) (b : List CMsg) : popAll hosts [b] = b.foldl popHost hosts := by
  simp [popAll]

theorem popHost_sublist (hosts : List String) (m : CMsg) : (popHost hosts m).Sublist hosts := by
  cases m <;> simp [popHost, List.filter_sublist]

theorem popFold_sublist : ∀ (l : List CMsg) (hosts : List String), (l.foldl popHost hosts).Sublist hosts
  | [], _ => List.Sublist.refl _
  | m :: rest, hosts => (popFold_sublist rest _).trans (popHost_sublist hosts m)

theorem popAll_sublist (hosts : List String) (pre : List (List CMsg)) : (popAll hosts pre).Sublist hosts :=
  popFold_sublist _ _

theorem popHost_nodup {hosts : List String} (m : CMsg) (hnd : hosts.Nodup) : (popHost hosts m).Nodup :=
  (popHost_sublist hosts m).nodup hnd

theorem popAll_count_le_one {hosts : List String} (hnd : hosts.Nodup) (pre : List (List CMsg)) (h : String) :
    (popAll hosts pre).count h ≤ 1 :=
  List.nodup_iff_count.1 ((popAll_sublist hosts pre).nodup hnd) h

theorem popAll_count_eq_one {hosts : List String} (hnd : hosts.Nodup) (pre : List (List CMsg)) (h : String)
    (hm : h ∈ popAll hosts pre) : (popAll hosts pre).count h = 1 := by
  have h1 := popAll_count_le_one hnd pre h
  have h2 := List.count_pos_iff.2 hm
  omega

/-- `Bridge.shutdown`'s wait loop reads a prefix `pre` of its stream; who is left are the hosts that did not answer in `pre` -/
theorem shutdownLoop_spec : ∀ (stream : List (List CMsg)) (hosts : List String),
    ∃ pre, stream = pre ++ (shutdownLoop hosts stream).2 ∧ (shutdownLoop hosts stream).1 = popAll hosts pre
  | [], hosts => ⟨[], rfl, rfl⟩
  | b :: bs, hosts => by
    unfold shutdownLoop
    by_cases he : hosts.isEmpty = true
    · simp only [he, if_true]
      refine ⟨[], rfl, ?_⟩
      rw [popAll_nil]
      exact (List.isEmpty_iff.1 he).symm
    · simp only [he, Bool.false_eq_true, if_false]
      obtain ⟨pre, h1, h2⟩ := shutdownLoop_spec bs (b.foldl popHost hosts)
      refine ⟨b :: pre, ?_, ?_⟩
      · rw [List.cons_append, ← h1]
      · rw [popAll_cons]; exact h2

/-- `recv_events`: what it scans itself is `recvRead`; when it raises it has sent ExecutorShutdown to the hosts left
after that scan, and then waits -/
theorem recvEvents_spec : ∀ (stream : List (List CMsg)) (hosts : List String),
    (∀ sentTo left rest, recvEvents hosts stream = .raised sentTo left rest →
      ∃ post, stream = recvRead hosts stream ++ post ∧ sentTo = popAll hosts (recvRead hosts stream) ∧
        shutdownLoop sentTo post = (left, rest)) ∧
    (∀ ev hs rest, recvEvents hosts stream = .events ev hs rest →
      stream = recvRead hosts stream ++ rest ∧ hs = popAll hosts (recvRead hosts stream))
  | [], hosts => by simp [recvEvents]
  | b :: bs, hosts => by
    have ih := recvEvents_spec bs (scanBatch hosts b).hosts
    have hsc : (scanBatch hosts b).hosts = b.foldl popHost hosts := rfl
    unfold recvEvents recvRead
    simp only
    by_cases hr : (scanBatch hosts b).reason = true
    · simp only [hr, if_true]
      constructor
      · intro sentTo left rest heq
        simp only [RecvRes.raised.injEq] at heq
        obtain ⟨e1, e2, e3⟩ := heq
        refine ⟨bs, rfl, ?_, ?_⟩
        · rw [popAll_single, ← e1, hsc]
        · rw [← e1, ← e2, ← e3]
      · intro ev hs rest heq; cases heq
    · simp only [hr, Bool.false_eq_true, if_false]
      by_cases hev : (!(scanBatch hosts b).events.isEmpty) = true
      · simp only [hev, if_true]
        constructor
        · intro sentTo left rest heq; cases heq
        · intro ev hs rest heq
          simp only [RecvRes.events.injEq] at heq
          obtain ⟨_, e2, e3⟩ := heq
          refine ⟨by rw [← e3]; rfl, ?_⟩
          rw [popAll_single, ← e2, hsc]
      · simp only [hev, Bool.false_eq_true, if_false]
        constructor
        · intro sentTo left rest heq
          obtain ⟨post, h1, h2, h3⟩ := ih.1 sentTo left rest heq
          refine ⟨post, ?_, ?_, h3⟩
          · rw [List.cons_append, ← h1]
          · rw [popAll_cons, ← hsc]; exact h2
        · intro ev hs rest heq
          obtain ⟨h1, h2⟩ := ih.2 ev hs rest heq
          refine ⟨?_, ?_⟩
          · rw [List.cons_append, ← h1]
          · rw [popAll_cons, ← hsc]; exact h2

theorem notify_sent : ∀ (evs : List CMsg) (c : Ctrl), (evs.foldl notifyOne c).shutdownSent = c.shutdownSent
  | [], _ => rfl
  | e :: es, c => by
    rw [List.foldl_cons, notify_sent es (notifyOne c e)]
    cases e <;> simp [notifyOne] <;> split <;> simp

/-- the three possible shapes of the result of `runLoop` (no hypothesis on `c`) -/
def Shape (c r : Ctrl) (stream read : List (List CMsg)) : Prop :=
  (r.shutdownSent = c.shutdownSent ∧ (r.status = c.status ∨ r.status = .starved)) ∨
  (r.status = .endedOk ∧ ∃ mid post, stream = read ++ mid ++ post ∧
    r.shutdownSent = c.shutdownSent ++ popAll c.hosts read ∧ r.hosts = popAll c.hosts (read ++ mid)) ∨
  (r.status = .endedErr ∧ ∃ mid mid2 post, stream = read ++ mid ++ mid2 ++ post ∧
    r.shutdownSent = c.shutdownSent ++ popAll c.hosts read ++ popAll c.hosts (read ++ mid) ∧
    r.hosts = popAll c.hosts (read ++ mid ++ mid2))

theorem runLoop_shape : ∀ (fuel : Nat) (c : Ctrl) (stream : List (List CMsg)),
    Shape c (runLoop fuel c stream) stream (runRead fuel c stream)
  | 0, c, stream => Or.inl ⟨rfl, Or.inl rfl⟩
  | fuel + 1, c, stream => by
    by_cases ha : awaitable c = true
    · cases hre : recvEvents c.hosts stream with
      | starved hs =>
        have e1 : runLoop (fuel + 1) c stream = { c with hosts := hs, status := .starved } := by
          simp [runLoop, ha, hre]
        rw [e1]
        exact Or.inl ⟨rfl, Or.inr rfl⟩
      | raised sentTo left rest =>
        have e1 : runLoop (fuel + 1) c stream =
            { (doShutdown { c with hosts := left, shutdownCalls := c.shutdownCalls + 1,
                                   shutdownSent := c.shutdownSent ++ sentTo } rest).1 with status := .endedErr } := by
          simp [runLoop, ha, hre]
        have e2 : runRead (fuel + 1) c stream = recvRead c.hosts stream := by
          simp [runRead, ha, hre]
        rw [e1, e2]
        obtain ⟨post, h1, h2, h3⟩ := (recvEvents_spec stream c.hosts).1 sentTo left rest hre
        obtain ⟨pre1, g1, g2⟩ := shutdownLoop_spec post sentTo
        rw [h3] at g1 g2
        simp only at g1 g2
        obtain ⟨pre2, k1, k2⟩ := shutdownLoop_spec rest left
        refine Or.inr (Or.inr ⟨rfl, pre1, pre2, (shutdownLoop left rest).2, ?_, ?_, ?_⟩)
        · rw [List.append_assoc, List.append_assoc, ← k1, ← g1]; exact h1
        · simp only [doShutdown]
          rw [popAll_append, ← h2, ← g2]
        · simp only [doShutdown]
          rw [k2, popAll_append, popAll_append, ← h2, ← g2]
      | events ev hs rest =>
        have e1 : runLoop (fuel + 1) c stream = runLoop fuel (ev.foldl notifyOne { c with hosts := hs }) rest := by
          simp [runLoop, ha, hre]
        have e2 : runRead (fuel + 1) c stream =
            recvRead c.hosts stream ++ runRead fuel (ev.foldl notifyOne { c with hosts := hs }) rest := by
          simp [runRead, ha, hre]
        rw [e1, e2]
        obtain ⟨h1, h2⟩ := (recvEvents_spec stream c.hosts).2 ev hs rest hre
        have ih := runLoop_shape fuel (ev.foldl notifyOne { c with hosts := hs }) rest
        have hst : (ev.foldl notifyOne { c with hosts := hs }).status = c.status := (Aux.notify_requested _ _).2
        have hho : (ev.foldl notifyOne { c with hosts := hs }).hosts = hs := AuxN.notify_hosts _ _
        have hse : (ev.foldl notifyOne { c with hosts := hs }).shutdownSent = c.shutdownSent := notify_sent _ _
        unfold Shape at ih ⊢
        rw [hst, hho, hse] at ih
        rcases ih with ih | ⟨hs1, mid, post, i1, i2, i3⟩ | ⟨hs1, mid, mid2, post, i1, i2, i3⟩
        · exact Or.inl ih
        · refine Or.inr (Or.inl ⟨hs1, mid, post, ?_, ?_, ?_⟩)
          · exact h1.trans ((congrArg (recvRead c.hosts stream ++ ·) i1).trans (by simp only [List.append_assoc]))
          · rw [i2]; simp only [popAll_append, ← h2]
          · rw [i3]; simp only [popAll_append, List.append_assoc, ← h2]
        · refine Or.inr (Or.inr ⟨hs1, mid, mid2, post, ?_, ?_, ?_⟩)
          · exact h1.trans ((congrArg (recvRead c.hosts stream ++ ·) i1).trans (by simp only [List.append_assoc]))
          · rw [i2]; simp only [popAll_append, List.append_assoc, ← h2]
          · rw [i3]; simp only [popAll_append, List.append_assoc, ← h2]
    · simp only [Bool.not_eq_true] at ha
      have e1 : runLoop (fuel + 1) c stream = { (doShutdown c stream).1 with status := .endedOk } := by
        simp [runLoop, ha]
      have e2 : runRead (fuel + 1) c stream = [] := by simp [runRead, ha]
      rw [e1, e2]
      obtain ⟨pre, k1, k2⟩ := shutdownLoop_spec stream c.hosts
      refine Or.inr (Or.inl ⟨rfl, pre, (shutdownLoop c.hosts stream).2, ?_, ?_, ?_⟩)
      · simpa using k1
      · simp [doShutdown, popAll_nil]
      · simp only [doShutdown, List.nil_append]; exact k2

end AuxH

/-! ## 2. every registered host is sent ExecutorShutdown unless it reported its own end -/

/-- WHO IS SENT ExecutorShutdown, EXACTLY. `read := runRead fuel c stream` is what the `recv_events` calls of the run scan.
A run that returns has sent ExecutorShutdown once, to the hosts that had not reported in `read`; a run that raises has
sent it to those (inside `recv_events`), then — from `finally` — once more to those of them that had still not answered
after the first wait (`mid`). The hosts left registered at the very end are those that never answered. -/
theorem c05_shutdown_sent_exact (fuel : Nat) (c : Ctrl) (stream : List (List CMsg)) (hrun : c.status = .running) :
    ((runLoop fuel c stream).status = .endedOk → ∃ mid post, stream = runRead fuel c stream ++ mid ++ post ∧
      (runLoop fuel c stream).shutdownSent = c.shutdownSent ++ popAll c.hosts (runRead fuel c stream) ∧
      (runLoop fuel c stream).hosts = popAll c.hosts (runRead fuel c stream ++ mid)) ∧
    ((runLoop fuel c stream).status = .endedErr → ∃ mid mid2 post, stream = runRead fuel c stream ++ mid ++ mid2 ++ post ∧
      (runLoop fuel c stream).shutdownSent =
        c.shutdownSent ++ popAll c.hosts (runRead fuel c stream) ++ popAll c.hosts (runRead fuel c stream ++ mid) ∧
      (runLoop fuel c stream).hosts = popAll c.hosts (runRead fuel c stream ++ mid ++ mid2)) := by
  rcases AuxH.runLoop_shape fuel c stream with ⟨_, hst | hst⟩ | ⟨hst, hx⟩ | ⟨hst, hx⟩
  · rw [hst, hrun]; exact ⟨fun h => (by cases h), fun h => (by cases h)⟩
  · rw [hst]; exact ⟨fun h => (by cases h), fun h => (by cases h)⟩
  · exact ⟨fun _ => hx, fun h => (by rw [hst] at h; cases h)⟩
  · exact ⟨fun h => (by rw [hst] at h; cases h), fun _ => hx⟩

/-- membership in `popAll`, public form: after scanning `pre`, exactly the registered hosts that did not report in `pre` are left -/
theorem c05_popAll_exact (hosts : List String) (pre : List (List CMsg)) (h : String) :
    h ∈ popAll hosts pre ↔ (h ∈ hosts ∧ ¬ Reported h pre) := AuxH.mem_popAll hosts pre h

/-- EVERY HOST IS SHUT DOWN (consumed form). When the run has ended (returned or raised), every host `h` that was
registered has been sent ExecutorShutdown, unless ExecutorExit `h` / ExecutorFailure `h` — with exactly this name — was in
a batch that `recv_events` had scanned (`runRead`: a prefix of the stream, read before the first ExecutorShutdown was
sent). A report that arrives later, during the shutdown wait, does not excuse anything: that host was sent the shutdown. -/
theorem c05_every_host_shut_down_consumed (fuel : Nat) (c : Ctrl) (stream : List (List CMsg)) (hrun : c.status = .running)
    (hend : (runLoop fuel c stream).status = .endedOk ∨ (runLoop fuel c stream).status = .endedErr)
    (h : String) (hh : h ∈ c.hosts) :
    runRead fuel c stream <+: stream ∧
    (h ∈ (runLoop fuel c stream).shutdownSent ∨ Reported h (runRead fuel c stream)) := by
  have key := c05_shutdown_sent_exact fuel c stream hrun
  have hsent : h ∈ popAll c.hosts (runRead fuel c stream) ∨ Reported h (runRead fuel c stream) := by
    by_cases hr : Reported h (runRead fuel c stream)
    · exact Or.inr hr
    · exact Or.inl ((AuxH.mem_popAll _ _ _).2 ⟨hh, hr⟩)
  rcases hend with he | he
  · obtain ⟨mid, post, h1, h2, _⟩ := key.1 he
    refine ⟨⟨mid ++ post, by rw [← List.append_assoc]; exact h1.symm⟩, ?_⟩
    rcases hsent with hs | hs
    · left; rw [h2]; exact List.mem_append_right _ hs
    · exact Or.inr hs
  · obtain ⟨mid, mid2, post, h1, h2, _⟩ := key.2 he
    refine ⟨⟨mid ++ mid2 ++ post, by rw [← List.append_assoc, ← List.append_assoc]; exact h1.symm⟩, ?_⟩
    rcases hsent with hs | hs
    · left; rw [h2]; exact List.mem_append_left _ (List.mem_append_right _ hs)
    · exact Or.inr hs

/-- EVERY HOST IS SHUT DOWN. When the run has ended (returned or raised), every host that was registered has been sent
ExecutorShutdown unless it reported its own exit / failure (somewhere in the stream). Host names are arbitrary. -/
theorem c05_every_host_shut_down (fuel : Nat) (c : Ctrl) (stream : List (List CMsg)) (hrun : c.status = .running)
    (hend : (runLoop fuel c stream).status = .endedOk ∨ (runLoop fuel c stream).status = .endedErr)
    (h : String) (hh : h ∈ c.hosts) :
    h ∈ (runLoop fuel c stream).shutdownSent ∨ Reported h stream := by
  obtain ⟨hp, hx⟩ := c05_every_host_shut_down_consumed fuel c stream hrun hend h hh
  rcases hx with hx | hx
  · exact Or.inl hx
  · exact Or.inr (AuxH.reported_mono hp hx)

/-! ## 3. nobody else is messaged, nobody more than twice -/

/-- ONLY REGISTERED HOSTS ARE MESSAGED: whatever `runLoop` sends ExecutorShutdown to was registered at the start (or had
been messaged before the start). No hypothesis on `c`, the stream or how the run went. -/
theorem c05_shutdown_sent_only_registered (fuel : Nat) (c : Ctrl) (stream : List (List CMsg)) (h : String)
    (hm : h ∈ (runLoop fuel c stream).shutdownSent) : h ∈ c.shutdownSent ∨ h ∈ c.hosts := by
  have sub : ∀ pre, h ∈ popAll c.hosts pre → h ∈ c.hosts := fun pre hx => (AuxH.popAll_sublist c.hosts pre).subset hx
  rcases AuxH.runLoop_shape fuel c stream with ⟨hs, _⟩ | ⟨_, mid, post, _, hs, _⟩ | ⟨_, mid, mid2, post, _, hs, _⟩
  · rw [hs] at hm; exact Or.inl hm
  · rw [hs] at hm
    rcases List.mem_append.1 hm with hm | hm
    · exact Or.inl hm
    · exact Or.inr (sub _ hm)
  · rw [hs] at hm
    rcases List.mem_append.1 hm with hm | hm
    · rcases List.mem_append.1 hm with hm | hm
      · exact Or.inl hm
      · exact Or.inr (sub _ hm)
    · exact Or.inr (sub _ hm)

/-- AT MOST TWICE, AT MOST ONCE WHEN THE RUN RETURNED. Distinct registered names, nothing sent before: no host is sent
ExecutorShutdown more than twice, and not more than once by a run that ended ok. No hypothesis on how the run went. -/
theorem c05_shutdown_at_most_twice (fuel : Nat) (c : Ctrl) (stream : List (List CMsg)) (hnd : c.hosts.Nodup)
    (hs0 : c.shutdownSent = []) (h : String) :
    (runLoop fuel c stream).shutdownSent.count h ≤ 2 ∧
    ((runLoop fuel c stream).status = .endedOk → (runLoop fuel c stream).shutdownSent.count h ≤ 1) := by
  rcases AuxH.runLoop_shape fuel c stream with ⟨hs, _⟩ | ⟨_, mid, post, _, hs, _⟩ | ⟨hst, mid, mid2, post, _, hs, _⟩
  · rw [hs, hs0]; simp
  · rw [hs, hs0, List.nil_append]
    have := AuxH.popAll_count_le_one hnd (runRead fuel c stream) h
    exact ⟨by omega, fun _ => this⟩
  · rw [hs, hs0, List.nil_append, List.count_append]
    have h1 := AuxH.popAll_count_le_one hnd (runRead fuel c stream) h
    have h2 := AuxH.popAll_count_le_one hnd (runRead fuel c stream ++ mid) h
    refine ⟨by omega, fun he => ?_⟩
    rw [hst] at he; cases he

/-- A REGISTERED HOST THAT NEVER REPORTS is sent ExecutorShutdown at least once and at most twice by a run that has ended:
exactly once when the run returned, exactly twice when it raised (once from `recv_events`, once from `finally`). -/
theorem c05_unreported_host_count (fuel : Nat) (c : Ctrl) (stream : List (List CMsg)) (hrun : c.status = .running)
    (hnd : c.hosts.Nodup) (hs0 : c.shutdownSent = [])
    (hend : (runLoop fuel c stream).status = .endedOk ∨ (runLoop fuel c stream).status = .endedErr)
    (h : String) (hh : h ∈ c.hosts) (hnr : ¬ Reported h stream) :
    1 ≤ (runLoop fuel c stream).shutdownSent.count h ∧ (runLoop fuel c stream).shutdownSent.count h ≤ 2 ∧
    ((runLoop fuel c stream).status = .endedOk → (runLoop fuel c stream).shutdownSent.count h = 1) ∧
    ((runLoop fuel c stream).status = .endedErr → (runLoop fuel c stream).shutdownSent.count h = 2) := by
  have key := c05_shutdown_sent_exact fuel c stream hrun
  have hin : ∀ pre, pre <+: stream → (popAll c.hosts pre).count h = 1 := fun pre hp =>
    AuxH.popAll_count_eq_one hnd pre h ((AuxH.mem_popAll _ _ _).2 ⟨hh, fun hr => hnr (AuxH.reported_mono hp hr)⟩)
  rcases hend with he | he
  · obtain ⟨mid, post, h1, h2, _⟩ := key.1 he
    have hc : (runLoop fuel c stream).shutdownSent.count h = 1 := by
      rw [h2, hs0, List.nil_append]
      exact hin _ ⟨mid ++ post, by rw [← List.append_assoc]; exact h1.symm⟩
    refine ⟨by omega, by omega, fun _ => hc, fun he' => ?_⟩
    rw [he] at he'; cases he'
  · obtain ⟨mid, mid2, post, h1, h2, _⟩ := key.2 he
    have hc : (runLoop fuel c stream).shutdownSent.count h = 2 := by
      rw [h2, hs0, List.nil_append, List.count_append,
        hin _ ⟨mid ++ mid2 ++ post, by rw [← List.append_assoc, ← List.append_assoc]; exact h1.symm⟩,
        hin _ ⟨mid2 ++ post, by rw [← List.append_assoc]; exact h1.symm⟩]
    refine ⟨by omega, by omega, fun he' => ?_, fun _ => hc⟩
    rw [he] at he'; cases he'

/-! ## 4. the N-executor system -/

namespace AuxH

/-- host `h` is accounted for: it was sent ExecutorShutdown, or the controller has read its own exit / failure report, or
the controller is still running and has it registered -/
def Acct (h : String) (s : SysN) : Prop :=
  h ∈ s.ctrl.shutdownSent ∨ CMsg.executorExit h ∈ s.delivered ∨ CMsg.executorFailure h ∈ s.delivered ∨
  (s.ctrl.status = .running ∧ h ∈ s.ctrl.hosts)

theorem acct_endRun (s : SysN) (c : Ctrl) (st : CtrlStatus) (k : Nat) (h : String)
    (hx : h ∈ c.shutdownSent ∨ h ∈ c.hosts ∨ CMsg.executorExit h ∈ s.delivered ++ s.ctrlInbox ∨
          CMsg.executorFailure h ∈ s.delivered ++ s.ctrlInbox) : Acct h (endRunN s c st k) := by
  rcases hx with hx | hx | hx | hx
  · exact Or.inl (List.mem_append_left _ hx)
  · exact Or.inl (List.mem_append_right _ hx)
  · exact Or.inr (Or.inl hx)
  · exact Or.inr (Or.inr (Or.inl hx))

theorem acct_ctrl (s : SysN) (h : String) (ha : Acct h s) : Acct h (ctrlStepN s) := by
  -- what a scan of the listener queue does to a registered host
  have hpop : h ∈ s.ctrl.hosts → h ∈ (scanBatch s.ctrl.hosts s.ctrlInbox).hosts ∨
      CMsg.executorExit h ∈ s.delivered ++ s.ctrlInbox ∨ CMsg.executorFailure h ∈ s.delivered ++ s.ctrlInbox := by
    intro hin
    rcases pop_or s.ctrlInbox s.ctrl.hosts h hin with hp | hp | hp
    · exact Or.inl hp
    · exact Or.inr (Or.inl (List.mem_append_right _ hp))
    · exact Or.inr (Or.inr (List.mem_append_right _ hp))
  rcases AuxN.ctrlStepN_cases s with ⟨_, heq⟩ | ⟨_, _, heq⟩ | ⟨_, _, _, heq⟩ | ⟨hrun, _, _, heq⟩ <;> rw [heq]
  · exact ha
  · apply acct_endRun
    rcases ha with ha | ha | ha | ⟨_, ha⟩
    · exact Or.inl ha
    · exact Or.inr (Or.inr (Or.inl (List.mem_append_left _ ha)))
    · exact Or.inr (Or.inr (Or.inr (List.mem_append_left _ ha)))
    · exact Or.inr (Or.inl ha)
  · apply acct_endRun
    rcases ha with ha | ha | ha | ⟨_, ha⟩
    · exact Or.inl ha
    · exact Or.inr (Or.inr (Or.inl (List.mem_append_left _ ha)))
    · exact Or.inr (Or.inr (Or.inr (List.mem_append_left _ ha)))
    · exact Or.inr (hpop ha)
  · have hst : ((scanBatch s.ctrl.hosts s.ctrlInbox).events.foldl notifyOne
        { s.ctrl with hosts := (scanBatch s.ctrl.hosts s.ctrlInbox).hosts }).status = .running := by
      rw [(Aux.notify_requested _ _).2]; exact hrun
    have hho : ((scanBatch s.ctrl.hosts s.ctrlInbox).events.foldl notifyOne
        { s.ctrl with hosts := (scanBatch s.ctrl.hosts s.ctrlInbox).hosts }).hosts = (scanBatch s.ctrl.hosts s.ctrlInbox).hosts :=
      AuxN.notify_hosts _ _
    have hse : ((scanBatch s.ctrl.hosts s.ctrlInbox).events.foldl notifyOne
        { s.ctrl with hosts := (scanBatch s.ctrl.hosts s.ctrlInbox).hosts }).shutdownSent = s.ctrl.shutdownSent :=
      notify_sent _ _
    unfold Acct
    simp only [hst, hho, hse, true_and]
    rcases ha with ha | ha | ha | ⟨_, ha⟩
    · exact Or.inl ha
    · exact Or.inr (Or.inl (List.mem_append_left _ ha))
    · exact Or.inr (Or.inr (Or.inl (List.mem_append_left _ ha)))
    · rcases hpop ha with hp | hp | hp
      · exact Or.inr (Or.inr (Or.inr hp))
      · exact Or.inr (Or.inl hp)
      · exact Or.inr (Or.inr (Or.inl hp))

theorem acct_step (t : HealthTable) (s : SysN) (x : StepN) (h : String) (ha : Acct h s) : Acct h (stepN t s x) := by
  cases x with
  | tick i =>
    obtain ⟨hc, _, hd, _⟩ := AuxN.execTickN_frame t s i
    unfold Acct stepN
    rw [hc, hd]; exact ha
  | deliver => exact ha
  | lose => exact ha
  | ctrl => exact acct_ctrl s h ha

theorem acct_run (t : HealthTable) (h : String) : ∀ (l : List StepN) (s : SysN), Acct h s → Acct h (runN t s l)
  | [], _, ha => ha
  | x :: xs, s, ha => acct_run t h xs (stepN t s x) (acct_step t s x h ha)

/-- any health table, any start state with a running controller -/
theorem unreported_host_shut_down_N (t : HealthTable) (s0 : SysN) (hrun : s0.ctrl.status = .running) (sched : List StepN)
    (hend : EndedN (runN t s0 sched)) (h : String) (hh : h ∈ s0.ctrl.hosts) :
    h ∈ (runN t s0 sched).ctrl.shutdownSent ∨ CMsg.executorExit h ∈ (runN t s0 sched).delivered ∨
    CMsg.executorFailure h ∈ (runN t s0 sched).delivered := by
  rcases acct_run t h sched s0 (Or.inr (Or.inr (Or.inr ⟨hrun, hh⟩))) with ha | ha | ha | ⟨ha, _⟩
  · exact Or.inl ha
  · exact Or.inr (Or.inl ha)
  · exact Or.inr (Or.inr ha)
  · rcases hend with he | he <;> rw [ha] at he <;> cases he

end AuxH

/-- EVERY HOST IS SHUT DOWN, N EXECUTORS. Any number of executors with arbitrary host names, any schedule (ticks of any
executor, deliveries, LOSSES, controller iterations), any start state whose controller is running (`InitN` is not
needed; `s0.ctrl.shutdownSent` is arbitrary). Once `run` has returned or raised, every host that was registered at the
start has been sent ExecutorShutdown, unless the controller has READ an ExecutorExit / ExecutorFailure carrying exactly
this host's name. -/
theorem c05_unreported_host_shut_down_N (s0 : SysN) (hrun : s0.ctrl.status = .running) (sched : List StepN)
    (hend : EndedN (runN Gen.healthTable s0 sched)) (h : String) (hh : h ∈ s0.ctrl.hosts) :
    h ∈ (runN Gen.healthTable s0 sched).ctrl.shutdownSent ∨
    CMsg.executorExit h ∈ (runN Gen.healthTable s0 sched).delivered ∨
    CMsg.executorFailure h ∈ (runN Gen.healthTable s0 sched).delivered :=
  AuxH.unreported_host_shut_down_N Gen.healthTable s0 hrun sched hend h hh

/-! ## 5. non-vacuity: host names that are suffixes of each other -/

/-- two hosts, one name a suffix of the other; the controller waits for `sink|o` -/
def sufCtrl : Ctrl :=
  { status := .running, requested := ["sink|o"], outputs := [], remaining := 1, hosts := ["node1", "gpunode1"],
    shutdownCalls := 0, shutdownSent := [] }

/-- "node1" fails: ONLY "node1" is forgotten; "gpunode1" is sent ExecutorShutdown (once: it answers), nobody is left -/
example : (runLoop 5 sufCtrl [[.executorFailure "node1"], [.executorExit "gpunode1"]]).status = .endedErr ∧
    (runLoop 5 sufCtrl [[.executorFailure "node1"], [.executorExit "gpunode1"]]).shutdownSent = ["gpunode1"] ∧
    (runLoop 5 sufCtrl [[.executorFailure "node1"], [.executorExit "gpunode1"]]).hosts = [] := by decide
example : runRead 5 sufCtrl [[.executorFailure "node1"], [.executorExit "gpunode1"]] = [[.executorFailure "node1"]] := by decide
/-- the other way round: "gpunode1" fails, "node1" is sent ExecutorShutdown -/
example : (runLoop 5 sufCtrl [[.executorFailure "gpunode1"], [.executorExit "node1"]]).shutdownSent = ["node1"] ∧
    (runLoop 5 sufCtrl [[.executorFailure "gpunode1"], [.executorExit "node1"]]).hosts = [] := by decide
/-- "gpunode1" never answers: it is sent ExecutorShutdown twice (by `recv_events`, then by `finally`) and is still registered -/
example : (runLoop 5 sufCtrl [[.executorFailure "node1"], [.ack]]).status = .endedErr ∧
    (runLoop 5 sufCtrl [[.executorFailure "node1"], [.ack]]).shutdownSent = ["gpunode1", "gpunode1"] ∧
    (runLoop 5 sufCtrl [[.executorFailure "node1"], [.ack]]).hosts = ["gpunode1"] ∧
    (runLoop 5 sufCtrl [[.executorFailure "node1"], [.ack]]).shutdownSent.count "gpunode1" = 2 := by decide
/-- a task failure, nobody answers: both are sent ExecutorShutdown twice -/
example : (runLoop 5 sufCtrl [[.taskFailure]]).shutdownSent = ["node1", "gpunode1", "node1", "gpunode1"] := by decide
/-- normal completion: both are sent ExecutorShutdown once; both answer -/
example : (runLoop 5 sufCtrl [[.published "t" true, .payload "sink|o" 7], [.executorExit "node1", .executorExit "gpunode1"]]).status = .endedOk ∧
    (runLoop 5 sufCtrl [[.published "t" true, .payload "sink|o" 7], [.executorExit "node1", .executorExit "gpunode1"]]).shutdownSent = ["node1", "gpunode1"] ∧
    (runLoop 5 sufCtrl [[.published "t" true, .payload "sink|o" 7], [.executorExit "node1", .executorExit "gpunode1"]]).hosts = [] := by decide
/-- the hypotheses of the theorems hold on these -/
example : sufCtrl.hosts.Nodup ∧ sufCtrl.shutdownSent = [] ∧ sufCtrl.status = .running := by decide
example : ¬ Reported "gpunode1" [[.executorFailure "node1"], [.ack]] := by
  rintro ⟨b, hb, hx⟩
  simp only [List.mem_cons, List.not_mem_nil, or_false] at hb
  rcases hb with rfl | rfl <;> simp at hx

/-- N executors: "node1" has a dead worker, "gpunode1" is healthy; after the run has raised, "gpunode1" has been sent
ExecutorShutdown and "node1"'s own report has been read -/
def sufN : SysN :=
  { nodes := [⟨{ host := "node1", workers := [("node1.w0", .proc (some 1) false)], shm := none, data := none, terminating := false }, []⟩,
              ⟨{ host := "gpunode1", workers := [("gpunode1.w0", .proc none false)], shm := none, data := none, terminating := false }, []⟩],
    net := [], ctrlInbox := [], ctrl := sufCtrl, delivered := [] }

example : (runN Gen.healthTable sufN [.tick 0, .tick 1, .deliver, .ctrl]).ctrl.status = .endedErr ∧
    (runN Gen.healthTable sufN [.tick 0, .tick 1, .deliver, .ctrl]).ctrl.shutdownSent = ["gpunode1"] ∧
    (runN Gen.healthTable sufN [.tick 0, .tick 1, .deliver, .ctrl]).delivered = [.executorFailure "node1"] ∧
    (runN Gen.healthTable sufN [.tick 0, .tick 1, .deliver, .ctrl]).nodes.map (·.inbox) = [[], [.executorShutdown]] := by decide

end EkwVerif.Failure
