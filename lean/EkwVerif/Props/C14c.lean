/-
C14, third part (second audit, STATEMENT-WEAK on `c14_injective_deep_partial`): unique decodability of the REAL statics
rendering, proved for positional and keyword arguments that are plain strings or natural numbers — the payloads of
`map` / `reduce` with bare callables, of the backend reductions with `axis=<n>` / `dim='<name>'`, and of the source nodes
`from_source` builds from `functools.partial(f, i)`. With it
"equal names ⇒ the same computation all the way down" holds for whole graphs (sources included) under the hash and `__name__`
hypotheses only.
-/
import EkwVerif.Props.C14

namespace EkwVerif.Names

/-- an argument whose rendering the proof reads back: a plain string (`'input0'`) or a natural number (`3`) -/
inductive SimpleArg
  | str (s : Str)
  | nat (n : Nat)
deriving DecidableEq

def SimpleArg.toPy : SimpleArg → PyVal
  | .str s => .str s
  | .nat n => .int (Int.ofNat n)

def SimpleArg.Ok : SimpleArg → Prop
  | .str s => Plain s
  | .nat _ => True

/-- what Python's `repr` prints for it -/
def SimpleArg.tok : SimpleArg → Str
  | .str s => '\'' :: s ++ ['\'']
  | .nat n => Nat.toDigits 10 n

/-- positional and keyword arguments that are plain strings or natural numbers (keys: plain strings) -/
def SimpleArgs (s : Statics) : Prop :=
  ∃ (items : List SimpleArg) (kws : List (Str × SimpleArg)),
    s = (items.map SimpleArg.toPy, kws.map (fun p => (p.1, p.2.toPy))) ∧ (∀ x ∈ items, x.Ok) ∧ (∀ p ∈ kws, Plain p.1 ∧ p.2.Ok)

namespace Aux

theorem repr_toPy (x : SimpleArg) (h : x.Ok) : x.toPy.repr = x.tok := by
  cases x with
  | str s => exact reprStr_plain s h
  | nat n =>
    simp only [SimpleArg.toPy, PyVal.repr, SimpleArg.tok]
    exact Nat.toList_repr

def stail : List SimpleArg → Str
  | [] => [']']
  | x :: xs => [',', ' '] ++ x.tok ++ stail xs

def sbody : List SimpleArg → Str
  | [] => [']']
  | x :: xs => x.tok ++ stail xs

theorem intercalate_stail (x : Str) (xs : List SimpleArg) :
    intercalate [',', ' '] (x :: xs.map SimpleArg.tok) ++ [']'] = x ++ stail xs := by
  induction xs generalizing x with
  | nil => simp [intercalate, stail]
  | cons y ys ih =>
    simp only [List.map_cons, intercalate] at ih ⊢
    rw [List.append_assoc, List.append_assoc, ih y.tok]
    simp [stail]

theorem digits_split : ∀ (d1 d2 r1 r2 : Str) (c1 c2 : Char), (∀ c ∈ d1, c.isDigit = true) → (∀ c ∈ d2, c.isDigit = true) →
    c1.isDigit = false → c2.isDigit = false → d1 ++ c1 :: r1 = d2 ++ c2 :: r2 → d1 = d2 ∧ c1 :: r1 = c2 :: r2 := by
  intro d1
  induction d1 with
  | nil =>
    intro d2 r1 r2 c1 c2 _ h2 n1 _ h
    cases d2 with
    | nil => exact ⟨rfl, by simpa using h⟩
    | cons e d2 =>
      simp at h
      have := h2 e (by simp)
      rw [← h.1, n1] at this
      cases this
  | cons a d1 ih =>
    intro d2 r1 r2 c1 c2 h1 h2 n1 n2 h
    cases d2 with
    | nil =>
      simp at h
      have := h1 a (by simp)
      rw [h.1, n2] at this
      cases this
    | cons e d2 =>
      simp at h
      obtain ⟨hae, hrest⟩ := h
      have := ih d2 r1 r2 c1 c2 (fun c hc => h1 c (by simp [hc])) (fun c hc => h2 c (by simp [hc])) n1 n2 hrest
      exact ⟨by rw [hae, this.1], this.2⟩

theorem toDigits_digits (n : Nat) : ∀ c ∈ Nat.toDigits 10 n, c.isDigit = true :=
  fun _ hc => Nat.isDigit_of_mem_toDigits (by decide) (by decide) hc

theorem toDigits_inj {m n : Nat} (h : Nat.toDigits 10 m = Nat.toDigits 10 n) : m = n := by
  have := congrArg (fun l => Nat.ofDigitChars 10 l 0) h
  simpa [Nat.ofDigitChars_ten_toDigits] using this

/-- reading one argument back: what follows it starts with a character that is not a digit (`,` or `]`) -/
theorem tok_inj (x y : SimpleArg) (hx : x.Ok) (hy : y.Ok) (c1 c2 : Char) (r1 r2 : Str)
    (n1 : c1.isDigit = false) (n2 : c2.isDigit = false)
    (h : x.tok ++ c1 :: r1 = y.tok ++ c2 :: r2) : x = y ∧ c1 :: r1 = c2 :: r2 := by
  cases x with
  | str s =>
    cases y with
    | str t =>
      simp only [SimpleArg.tok, List.cons_append, List.cons.injEq, true_and, List.append_assoc, List.nil_append] at h
      have hsq : '\'' ∉ s := fun hm => (hx _ hm).1 rfl
      have htq : '\'' ∉ t := fun hm => (hy _ hm).1 rfl
      obtain ⟨e1, e2⟩ := split_at_char '\'' s t _ _ hsq htq h
      exact ⟨by rw [e1], e2⟩
    | nat n =>
      exfalso
      simp only [SimpleArg.tok, List.cons_append] at h
      cases hd : Nat.toDigits 10 n with
      | nil => exact Nat.toDigits_ne_nil hd
      | cons d ds =>
        rw [hd] at h
        simp at h
        have := toDigits_digits n d (by rw [hd]; simp)
        rw [← h.1] at this
        exact absurd this (by decide)
  | nat m =>
    cases y with
    | str t =>
      exfalso
      simp only [SimpleArg.tok, List.cons_append] at h
      cases hd : Nat.toDigits 10 m with
      | nil => exact Nat.toDigits_ne_nil hd
      | cons d ds =>
        rw [hd] at h
        simp at h
        have := toDigits_digits m d (by rw [hd]; simp)
        rw [h.1] at this
        exact absurd this (by decide)
    | nat n =>
      simp only [SimpleArg.tok] at h
      obtain ⟨e1, e2⟩ := digits_split _ _ r1 r2 c1 c2 (toDigits_digits m) (toDigits_digits n) n1 n2 h
      exact ⟨by rw [toDigits_inj e1], e2⟩

theorem stail_head (xs : List SimpleArg) : ∃ c r, stail xs = c :: r ∧ c.isDigit = false := by
  cases xs with
  | nil => exact ⟨']', [], rfl, by decide⟩
  | cons x xs => exact ⟨',', ' ' :: (x.tok ++ stail xs), by simp [stail], by decide⟩

theorem stail_inj : ∀ (xs ys : List SimpleArg) (u v : Str), (∀ x ∈ xs, x.Ok) → (∀ y ∈ ys, y.Ok) →
    stail xs ++ u = stail ys ++ v → xs = ys ∧ u = v := by
  intro xs
  induction xs with
  | nil =>
    intro ys u v _ _ h
    cases ys with
    | nil => simp [stail] at h; exact ⟨rfl, h⟩
    | cons y ys => simp [stail] at h
  | cons x xs ih =>
    intro ys u v hx hy h
    cases ys with
    | nil => simp [stail] at h
    | cons y ys =>
      simp only [stail, List.cons_append, List.nil_append, List.cons.injEq, true_and, List.append_assoc] at h
      obtain ⟨c1, r1, e1, d1⟩ := stail_head xs
      obtain ⟨c2, r2, e2, d2⟩ := stail_head ys
      rw [e1, e2] at h
      simp only [List.cons_append] at h
      obtain ⟨hxy, ht⟩ := tok_inj x y (hx x (by simp)) (hy y (by simp)) c1 c2 _ _ d1 d2 h
      have ht' : stail xs ++ u = stail ys ++ v := by rw [e1, e2]; simpa using ht
      obtain ⟨h1, h2⟩ := ih ys u v (fun n hn => hx n (by simp [hn])) (fun n hn => hy n (by simp [hn])) ht'
      exact ⟨by rw [hxy, h1], h2⟩

theorem sbody_inj (xs ys : List SimpleArg) (u v : Str) (hx : ∀ x ∈ xs, x.Ok) (hy : ∀ y ∈ ys, y.Ok)
    (h : sbody xs ++ u = sbody ys ++ v) : xs = ys ∧ u = v := by
  cases xs with
  | nil =>
    cases ys with
    | nil => simp [sbody] at h; exact ⟨rfl, h⟩
    | cons y ys =>
      exfalso
      simp only [sbody, List.cons_append, List.nil_append] at h
      cases y with
      | str t => simp [SimpleArg.tok] at h
      | nat n =>
        simp only [SimpleArg.tok] at h
        cases hd : Nat.toDigits 10 n with
        | nil => exact Nat.toDigits_ne_nil hd
        | cons d ds =>
          rw [hd] at h
          simp at h
          have := toDigits_digits n d (by rw [hd]; simp)
          rw [← h.1] at this
          exact absurd this (by decide)
  | cons x xs =>
    cases ys with
    | nil =>
      exfalso
      simp only [sbody, List.cons_append, List.nil_append] at h
      cases x with
      | str t => simp [SimpleArg.tok] at h
      | nat n =>
        simp only [SimpleArg.tok] at h
        cases hd : Nat.toDigits 10 n with
        | nil => exact Nat.toDigits_ne_nil hd
        | cons d ds =>
          rw [hd] at h
          simp at h
          have := toDigits_digits n d (by rw [hd]; simp)
          rw [h.1] at this
          exact absurd this (by decide)
    | cons y ys =>
      simp only [sbody, List.append_assoc] at h
      obtain ⟨c1, r1, e1, d1⟩ := stail_head xs
      obtain ⟨c2, r2, e2, d2⟩ := stail_head ys
      rw [e1, e2] at h
      simp only [List.cons_append] at h
      obtain ⟨hxy, ht⟩ := tok_inj x y (hx x (by simp)) (hy y (by simp)) c1 c2 _ _ d1 d2 h
      have ht' : stail xs ++ u = stail ys ++ v := by rw [e1, e2]; simpa using ht
      obtain ⟨h1, h2⟩ := stail_inj xs ys u v (fun n hn => hx n (by simp [hn])) (fun n hn => hy n (by simp [hn])) ht'
      exact ⟨by rw [hxy, h1], h2⟩

/-- `'key': value` -/
def ktok (p : Str × SimpleArg) : Str := ('\'' :: p.1 ++ ['\'']) ++ [':', ' '] ++ p.2.tok

def ktail : List (Str × SimpleArg) → Str
  | [] => ['}']
  | p :: ps => [',', ' '] ++ ktok p ++ ktail ps

def kbody : List (Str × SimpleArg) → Str
  | [] => ['}']
  | p :: ps => ktok p ++ ktail ps

theorem intercalate_ktail (x : Str) (xs : List (Str × SimpleArg)) :
    intercalate [',', ' '] (x :: xs.map ktok) ++ ['}'] = x ++ ktail xs := by
  induction xs generalizing x with
  | nil => simp [intercalate, ktail]
  | cons y ys ih =>
    simp only [List.map_cons, intercalate] at ih ⊢
    rw [List.append_assoc, List.append_assoc, ih (ktok y)]
    simp [ktail]

theorem ktok_inj (p q : Str × SimpleArg) (hp : Plain p.1 ∧ p.2.Ok) (hq : Plain q.1 ∧ q.2.Ok) (c1 c2 : Char) (r1 r2 : Str)
    (n1 : c1.isDigit = false) (n2 : c2.isDigit = false)
    (h : ktok p ++ c1 :: r1 = ktok q ++ c2 :: r2) : p = q ∧ c1 :: r1 = c2 :: r2 := by
  obtain ⟨k1, x1⟩ := p
  obtain ⟨k2, x2⟩ := q
  simp only [ktok, List.cons_append, List.cons.injEq, true_and, List.append_assoc, List.nil_append] at h
  have hq1 : '\'' ∉ k1 := fun hm => (hp.1 _ hm).1 rfl
  have hq2 : '\'' ∉ k2 := fun hm => (hq.1 _ hm).1 rfl
  obtain ⟨e1, e2⟩ := split_at_char '\'' k1 k2 _ _ hq1 hq2 h
  simp only [List.cons.injEq, true_and] at e2
  obtain ⟨e3, e4⟩ := tok_inj x1 x2 hp.2 hq.2 c1 c2 r1 r2 n1 n2 e2
  exact ⟨by rw [e1, e3], e4⟩

theorem ktail_head (xs : List (Str × SimpleArg)) : ∃ c r, ktail xs = c :: r ∧ c.isDigit = false := by
  cases xs with
  | nil => exact ⟨'}', [], rfl, by decide⟩
  | cons x xs => exact ⟨',', ' ' :: (ktok x ++ ktail xs), by simp [ktail], by decide⟩

theorem ktail_inj : ∀ (xs ys : List (Str × SimpleArg)) (u v : Str), (∀ p ∈ xs, Plain p.1 ∧ p.2.Ok) → (∀ p ∈ ys, Plain p.1 ∧ p.2.Ok) →
    ktail xs ++ u = ktail ys ++ v → xs = ys ∧ u = v := by
  intro xs
  induction xs with
  | nil =>
    intro ys u v _ _ h
    cases ys with
    | nil => simp [ktail] at h; exact ⟨rfl, h⟩
    | cons y ys => simp [ktail] at h
  | cons x xs ih =>
    intro ys u v hx hy h
    cases ys with
    | nil => simp [ktail] at h
    | cons y ys =>
      simp only [ktail, List.cons_append, List.nil_append, List.cons.injEq, true_and, List.append_assoc] at h
      obtain ⟨c1, r1, e1, d1⟩ := ktail_head xs
      obtain ⟨c2, r2, e2, d2⟩ := ktail_head ys
      rw [e1, e2] at h
      simp only [List.cons_append] at h
      obtain ⟨hxy, ht⟩ := ktok_inj x y (hx x (by simp)) (hy y (by simp)) c1 c2 _ _ d1 d2 h
      have ht' : ktail xs ++ u = ktail ys ++ v := by rw [e1, e2]; simpa using ht
      obtain ⟨h1, h2⟩ := ih ys u v (fun n hn => hx n (by simp [hn])) (fun n hn => hy n (by simp [hn])) ht'
      exact ⟨by rw [hxy, h1], h2⟩

theorem kbody_inj (xs ys : List (Str × SimpleArg)) (u v : Str) (hx : ∀ p ∈ xs, Plain p.1 ∧ p.2.Ok) (hy : ∀ p ∈ ys, Plain p.1 ∧ p.2.Ok)
    (h : kbody xs ++ u = kbody ys ++ v) : xs = ys ∧ u = v := by
  cases xs with
  | nil =>
    cases ys with
    | nil => simp [kbody] at h; exact ⟨rfl, h⟩
    | cons y ys => simp [kbody, ktok] at h
  | cons x xs =>
    cases ys with
    | nil => simp [kbody, ktok] at h
    | cons y ys =>
      simp only [kbody, List.append_assoc] at h
      obtain ⟨c1, r1, e1, d1⟩ := ktail_head xs
      obtain ⟨c2, r2, e2, d2⟩ := ktail_head ys
      rw [e1, e2] at h
      simp only [List.cons_append] at h
      obtain ⟨hxy, ht⟩ := ktok_inj x y (hx x (by simp)) (hy y (by simp)) c1 c2 _ _ d1 d2 h
      have ht' : ktail xs ++ u = ktail ys ++ v := by rw [e1, e2]; simpa using ht
      obtain ⟨h1, h2⟩ := ktail_inj xs ys u v (fun n hn => hx n (by simp [hn])) (fun n hn => hy n (by simp [hn])) ht'
      exact ⟨by rw [hxy, h1], h2⟩

theorem reprDict_simple (kws : List (Str × SimpleArg)) (h : ∀ p ∈ kws, Plain p.1 ∧ p.2.Ok) :
    reprDict (kws.map (fun p => (p.1, p.2.toPy))) = '{' :: kbody kws := by
  have hmap : (kws.map (fun p => (p.1, p.2.toPy))).map (fun (k, v) => reprStr k ++ [':', ' '] ++ v.repr) = kws.map ktok := by
    rw [List.map_map]
    apply List.map_congr_left
    intro p hp
    simp only [Function.comp, ktok]
    rw [reprStr_plain p.1 (h p hp).1, repr_toPy p.2 (h p hp).2]
  simp only [reprDict, hmap]
  cases kws with
  | nil => simp [intercalate, kbody]
  | cons x xs =>
    simp only [List.map_cons, kbody]
    rw [List.cons_append, intercalate_ktail]

theorem reprAll_toPy (items : List SimpleArg) (h : ∀ x ∈ items, x.Ok) :
    reprAll (items.map SimpleArg.toPy) = items.map SimpleArg.tok := by
  induction items with
  | nil => rfl
  | cons x xs ih =>
    simp only [List.map_cons, reprAll]
    rw [repr_toPy x (h x (by simp)), ih (fun y hy => h y (by simp [hy]))]

theorem renderStatics_simple (items : List SimpleArg) (kws : List (Str × SimpleArg)) (h : ∀ x ∈ items, x.Ok)
    (hk : ∀ p ∈ kws, Plain p.1 ∧ p.2.Ok) :
    renderStatics (items.map SimpleArg.toPy, kws.map (fun p => (p.1, p.2.toPy))) = '[' :: sbody items ++ '{' :: kbody kws := by
  simp only [renderStatics, reprDict_simple kws hk, PyVal.repr, reprAll_toPy items h]
  cases items with
  | nil => simp [intercalate, sbody]
  | cons x xs =>
    simp only [List.map_cons, sbody]
    rw [List.cons_append, intercalate_stail]

end Aux

open Aux

/-- the statics of `SimpleArgs`, as a type -/
def SimpleStatics : Type := { s : Statics // SimpleArgs s }

/-- **The real rendering of the statics can be read back** on plain strings and natural numbers: `['input0', 3]{'axis': 0}`
followed by anything determines the arguments, the keyword arguments (keys, values, order) and what follows — proved for Python's `repr` as modelled (`renderStatics`), nothing assumed -/
theorem c14_simple_statics_decodable : UniquelyDecodable (fun s : SimpleStatics => renderStatics s.val) := by
  intro x y s t hst
  obtain ⟨n1, k1, e1, p1, q1⟩ := x.property
  obtain ⟨n2, k2, e2, p2, q2⟩ := y.property
  simp only [] at hst
  rw [e1, e2, renderStatics_simple n1 k1 p1 q1, renderStatics_simple n2 k2 p2 q2] at hst
  simp only [List.cons_append, List.cons.injEq, true_and, List.append_assoc] at hst
  obtain ⟨hn, hs⟩ := sbody_inj n1 n2 _ _ p1 p2 hst
  simp only [List.cons.injEq, true_and] at hs
  obtain ⟨hk, hs'⟩ := kbody_inj k1 k2 _ _ q1 q2 hs
  exact ⟨Subtype.ext (by rw [e1, e2, hn, hk]), hs'⟩

/-- **Names identify whole computations — with the real rendering of the statics, sources included.**
`c14_injective_deep_partial` with its hypothesis on the statics DISCHARGED for graphs whose payloads take plain strings and
natural numbers as positional and keyword arguments: the nodes of `map` / `reduce` with bare callables, `a.sum(…, axis=0)`,
`a.add(2)`, and the source nodes built from `functools.partial(f, i)`. Two nodes with the same name denote the same computation all the way down, under the hypotheses
on the hash and on `__name__` only. `_partial`: negative numbers, floats, bools, None and containers as
statics are outside `SimpleStatics`; for them unique decodability of Python's repr stays a hypothesis (and fails for lossy
reprs). -/
theorem c14_injective_deep_simple_partial (H : Str → Str) (ok : Callable → Prop)
    (hH : Function.Injective H) (hHc : ∀ s, Clean (H s))
    (hcall : ∀ f g, ok f → ok g → f.name = g.name → f = g)
    (t1 t2 : Term SimpleStatics) (w1 : t1.WF ok) (w2 : t2.WF ok)
    (h : t1.name H (fun s => renderStatics s.val) = t2.name H (fun s => renderStatics s.val)) :
    t1.comp = t2.comp :=
  c14_injective_deep_partial H _ ok hH hHc c14_simple_statics_decodable
    (fun s => ⟨_, by simp only [renderStatics, PyVal.repr]; rfl⟩) hcall t1 t2 w1 w2 h

/-- non-vacuity: with the injective clean "hash" `unaryH` and the REAL rendering (`[0]{}`, `[1]{}`, `['input0']{}`), the
theorem separates `g(f(source 0))` from `g(f(source 1))`: the difference sits two levels down, in the number a source's
`functools.partial` carries -/
example :
    let okStr : SimpleArgs ([.str "input0".toList], []) := ⟨[.str "input0".toList], [], rfl, by
      intro x hx
      simp at hx
      subst hx
      intro c hc
      simp at hc
      rcases hc with h | h | h | h | h | h <;> subst h <;> decide, by simp⟩
    let st : SimpleStatics := ⟨_, okStr⟩
    let s0 : SimpleStatics := ⟨([.int 0], []), ⟨[.nat 0], [], rfl, by intro x hx; simp at hx; subst hx; trivial, by simp⟩⟩
    let s1 : SimpleStatics := ⟨([.int 1], []), ⟨[.nat 1], [], rfl, by intro x hx; simp at hx; subst hx; trivial, by simp⟩⟩
    let src0 : Term SimpleStatics := .node (some "src".toList) { name := "src".toList, ident := 0 } s0 1 .nil
    let src1 : Term SimpleStatics := .node (some "src".toList) { name := "src".toList, ident := 0 } s1 1 .nil
    let t1 : Term SimpleStatics := .node none { name := "g".toList, ident := 0 } st 1
      (.cons (.node none { name := "f".toList, ident := 0 } st 1 (.cons src0 none .nil)) none .nil)
    let t2 : Term SimpleStatics := .node none { name := "g".toList, ident := 0 } st 1
      (.cons (.node none { name := "f".toList, ident := 0 } st 1 (.cons src1 none .nil)) none .nil)
    t1.name Aux.unaryH (fun s => renderStatics s.val) ≠ t2.name Aux.unaryH (fun s => renderStatics s.val) := by
  intro okStr st s0 s1 src0 src1 t1 t2 h
  have := c14_injective_deep_simple_partial Aux.unaryH (fun f => f.ident = 0)
    Aux.unaryH_injective Aux.unaryH_clean
    (fun f g hf hg hn => by cases f; cases g; simp_all)
    t1 t2 (by simp [t1, src0, Term.WF, Args.WF, Clean]) (by simp [t2, src1, Term.WF, Args.WF, Clean]) h
  simp [t1, t2, src0, src1, s0, s1, Term.comp, Args.comp] at this
  injection this with _ _ hs _ _
  have := congrArg (fun s : SimpleStatics => s.val.1) hs
  simp at this

/-- non-vacuity with a keyword argument: `sum['input0']{'axis': 0}` and `sum['input0']{'axis': 1}` over the same source get
different names — read off the real rendering, not assumed -/
example :
    let plainOf : ∀ w : Str, (w = "input0".toList ∨ w = "axis".toList) → Plain w := by
      intro w hw c hc
      rcases hw with hw | hw <;> subst hw <;> simp at hc
      · rcases hc with h | h | h | h | h | h <;> subst h <;> decide
      · rcases hc with h | h | h | h <;> subst h <;> decide
    let a0 : SimpleStatics := ⟨([.str "input0".toList], [("axis".toList, .int 0)]),
      ⟨[.str "input0".toList], [("axis".toList, .nat 0)], rfl,
        by intro x hx; simp at hx; subst hx; exact plainOf _ (Or.inl rfl),
        by intro p hp; simp at hp; subst hp; exact ⟨plainOf _ (Or.inr rfl), trivial⟩⟩⟩
    let a1 : SimpleStatics := ⟨([.str "input0".toList], [("axis".toList, .int 1)]),
      ⟨[.str "input0".toList], [("axis".toList, .nat 1)], rfl,
        by intro x hx; simp at hx; subst hx; exact plainOf _ (Or.inl rfl),
        by intro p hp; simp at hp; subst hp; exact ⟨plainOf _ (Or.inr rfl), trivial⟩⟩⟩
    let s0 : SimpleStatics := ⟨([.int 0], []), ⟨[.nat 0], [], rfl, by intro x hx; simp at hx; subst hx; trivial, by simp⟩⟩
    let src0 : Term SimpleStatics := .node (some "src".toList) { name := "src".toList, ident := 0 } s0 1 .nil
    let t1 : Term SimpleStatics := .node none { name := "sum".toList, ident := 0 } a0 1 (.cons src0 none .nil)
    let t2 : Term SimpleStatics := .node none { name := "sum".toList, ident := 0 } a1 1 (.cons src0 none .nil)
    t1.name Aux.unaryH (fun s => renderStatics s.val) ≠ t2.name Aux.unaryH (fun s => renderStatics s.val) := by
  intro plainOf a0 a1 s0 src0 t1 t2 h
  have := c14_injective_deep_simple_partial Aux.unaryH (fun f => f.ident = 0)
    Aux.unaryH_injective Aux.unaryH_clean
    (fun f g hf hg hn => by cases f; cases g; simp_all)
    t1 t2 (by simp [t1, src0, Term.WF, Args.WF, Clean]) (by simp [t2, src0, Term.WF, Args.WF, Clean]) h
  simp [t1, t2, a0, a1, Term.comp, Args.comp] at this
  injection this with _ _ hs _ _
  have := congrArg (fun s : SimpleStatics => s.val.2) hs
  simp at this

end EkwVerif.Names
