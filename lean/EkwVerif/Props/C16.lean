/-
C16 — the preschedule is a faithful structural summary of the job DAG.

Property theorems (`c16_*`) about `EkwVerif.Presched.precompute` (Model/Presched.lean). The
vocabulary of the statements (`Job.child`, `UConn`, `Job.Path`, `Job.IsSink`, …) is defined here
from the job's edges only, not from anything the model computes. Helper lemmas live in
`namespace Aux` (here and in Lemmas/C16*.lean).

Hypotheses used:
  * `job.WF`   : task ids distinct, edge endpoints are tasks — part of what a `JobInstance`
                 accepted by the builders satisfies (Props/C19.lean `c19_accepted_presched_wf`).
                 "At most one source per (sink task, sink input)" is NOT assumed any more: since the
                 `fix:` commit of C16 `precompute` records every edge (`Job.UniqueInputs` is only the
                 hypothesis of `c16_executor_view_partial`);
  * `IsDag job`: a topological numbering exists (needed for: every task is reached from a source,
                 the layering loop terminates). `IsDag` is decidable (`Aux.isDagB`, `c16_isDag_iff`).
-/
import EkwVerif.Lemmas.C16Dp
import EkwVerif.Lemmas.C16LayersE

set_option linter.unusedSectionVars false
set_option linter.unusedVariables false

namespace EkwVerif.Presched
open Aux

variable {α β : Type} [DecidableEq α] [DecidableEq β]

/-! ## vocabulary -/

/-- the job has an edge from (some output of) `a` to (some input of) `c` -/
def Job.child (job : Job α β) (a c : α) : Prop := ∃ e ∈ job.edges, e.src = a ∧ e.dst = c

/-- well-formed job instance -/
structure Job.WF (job : Job α β) : Prop where
  ids_nodup : job.ids.Nodup
  src_mem : ∀ e ∈ job.edges, e.src ∈ job.ids
  dst_mem : ∀ e ∈ job.edges, e.dst ∈ job.ids

/-- no two edges feed the same input of the same task from different sources. NOT part of `WF`
since the `fix:` commit of C16 (precompute records every edge): no theorem about the preschedule
needs it. It is what makes the executor's view (`param_source`) agree with the scheduler's
(`c16_executor_view_partial`), and what `JobBuilder.build` guarantees (Props/C19.lean). -/
def Job.UniqueInputs (job : Job α β) : Prop := Aux.UniqueInputs job.edges

/-- acyclic: the tasks can be numbered so that every edge goes upwards -/
def IsDag (job : Job α β) : Prop := ∃ rk : α → Nat, ∀ e ∈ job.edges, rk e.src < rk e.dst

/-- `a` and `b` are joined by an undirected path of edges -/
inductive UConn (job : Job α β) : α → α → Prop
  | refl (a : α) : UConn job a a
  | step {a b c : α} : UConn job a b → (job.child b c ∨ job.child c b) → UConn job a c

/-- a directed path with exactly `n` edges -/
def Job.Path (job : Job α β) : Nat → α → α → Prop
  | 0, a, b => a = b
  | n + 1, a, b => ∃ c, job.child a c ∧ Job.Path job n c b

/-- a task without consumers -/
def Job.IsSink (job : Job α β) (s : α) : Prop := ¬ ∃ c, job.child s c

/-- `k` = distance from `v` to the nearest sink -/
def Job.NearestSinkDist (job : Job α β) (v : α) (k : Nat) : Prop :=
  (∃ s, job.IsSink s ∧ job.Path k v s) ∧ ∀ j s, job.IsSink s → job.Path j v s → k ≤ j

/-- `d` is the least number such that some task is within `d` steps of both `a` and `b` -/
def Job.LeastCommon (job : Job α β) (a b : α) (d : Nat) : Prop :=
  (∃ c i j, i ≤ d ∧ j ≤ d ∧ job.Path i a c ∧ job.Path j b c) ∧
  ∀ d' c i j, i ≤ d' → j ≤ d' → job.Path i a c → job.Path j b c → d ≤ d'

/-- some task is reachable from both -/
def Job.HasCommon (job : Job α β) (a b : α) : Prop := ∃ c i j, job.Path i a c ∧ job.Path j b c

/-! accessors of the result (dict reads) -/

/-- `component.value[v]` -/
def Component.valueOf (c : Component α) (v : α) : Option Nat := dlookup c.value v
/-- `component.distance_matrix[a][b]` -/
def Component.distance (c : Component α) (a b : α) : Option Nat :=
  (dlookup c.dist a).bind (fun row => dlookup row b)
/-- `paths[a][b]` of `enrich` (a `defaultdict(lambda: depth)`) -/
def Component.pathLen (c : Component α) (a b : α) : Nat := pathGet c.depth c.paths a b
/-- `preschedule.edge_o[ds]` -/
def Preschedule.consumers (p : Preschedule α β) (ds : α × β) : List α := dget p.edge_o ds
/-- `preschedule.edge_i[t]` -/
def Preschedule.inputs (p : Preschedule α β) (t : α) : List (α × β) := dget p.edge_i t
/-- `preschedule.task_o[t]` -/
def Preschedule.outputs (p : Preschedule α β) (t : α) : Option (List (α × β)) := dlookup p.task_o t

namespace Aux

/-! ### sort -/

theorem insertDesc_perm (c : Component α) (l : List (Component α)) : (insertDesc c l).Perm (c :: l) := by
  induction l with
  | nil => exact List.Perm.refl _
  | cons d ds ih =>
    simp only [insertDesc]
    split
    · exact List.Perm.refl _
    · exact (List.Perm.cons d ih).trans (List.Perm.swap c d ds)

theorem sortDesc_perm (l : List (Component α)) : (sortDesc l).Perm l := by
  induction l with
  | nil => exact List.Perm.refl _
  | cons c l ih =>
    simp only [sortDesc, List.foldr_cons]
    exact (insertDesc_perm c _).trans (List.Perm.cons c ih)

theorem insertDesc_sorted (c : Component α) (l : List (Component α))
    (h : l.Pairwise (fun a b => b.weight ≤ a.weight)) :
    (insertDesc c l).Pairwise (fun a b => b.weight ≤ a.weight) := by
  induction l with
  | nil => simp [insertDesc]
  | cons d ds ih =>
    simp only [insertDesc]
    rw [List.pairwise_cons] at h
    split
    · rename_i hle
      rw [List.pairwise_cons]
      refine ⟨?_, List.pairwise_cons.mpr h⟩
      intro x hx
      rcases List.mem_cons.mp hx with hx | hx
      · subst hx; exact hle
      · exact Nat.le_trans (h.1 x hx) hle
    · rename_i hlt
      rw [List.pairwise_cons]
      refine ⟨?_, ih h.2⟩
      intro x hx
      have := (insertDesc_perm c ds).mem_iff.mp hx
      rcases List.mem_cons.mp this with hx | hx
      · subst hx; omega
      · exact h.1 x hx

theorem sortDesc_sorted (l : List (Component α)) :
    (sortDesc l).Pairwise (fun a b => b.weight ≤ a.weight) := by
  induction l with
  | nil => simp [sortDesc]
  | cons c l ih =>
    simp only [sortDesc, List.foldr_cons]
    exact insertDesc_sorted c _ ih

/-! ### the graph of a job as the model sees it -/

/-- `chain(edge_i[v], edge_o[v])` -/
def nbOf (job : Job α β) (v : α) : List α := edgeIP job v ++ edgeOP job v

theorem mem_edgeOP' {job : Job α β} {a c : α} : c ∈ edgeOP job a ↔ job.child a c := mem_edgeOP

theorem mem_edgeIP' {job : Job α β} (hw : job.WF) {a c : α} : a ∈ edgeIP job c ↔ job.child a c :=
  mem_edgeIP

theorem mem_nbOf {job : Job α β} (hw : job.WF) {a b : α} :
    b ∈ nbOf job a ↔ (job.child b a ∨ job.child a b) := by
  unfold nbOf
  rw [List.mem_append, mem_edgeIP' hw, mem_edgeOP']

theorem nbOf_sym {job : Job α β} (hw : job.WF) (a b : α) (h : b ∈ nbOf job a) : a ∈ nbOf job b := by
  rw [mem_nbOf hw] at h ⊢
  exact h.symm

theorem child_mem {job : Job α β} (hw : job.WF) {a c : α} (h : job.child a c) :
    a ∈ job.ids ∧ c ∈ job.ids := by
  obtain ⟨e, he, h1, h2⟩ := h
  exact ⟨h1 ▸ hw.src_mem e he, h2 ▸ hw.dst_mem e he⟩

theorem nbOf_mem {job : Job α β} (hw : job.WF) (a b : α) (h : b ∈ nbOf job a) : b ∈ job.ids := by
  rw [mem_nbOf hw] at h
  rcases h with h | h
  · exact (child_mem hw h).1
  · exact (child_mem hw h).2

/-- the set of sources `decompose` computes -/
def sourcesOf (job : Job α β) : List α := job.ids.filter (fun n => (edgeIP job n).isEmpty)

theorem decompose_eq (job : Job α β) (fuel : Nat) :
    decomposeF fuel job.ids (edgeIP job) (edgeOP job) =
      decomposeLoop (nbOf job) fuel (sourcesOf job) (sourcesOf job) [] := rfl

theorem mem_sourcesOf {job : Job α β} (hw : job.WF) {t : α} :
    t ∈ sourcesOf job ↔ t ∈ job.ids ∧ ¬ ∃ a, job.child a t := by
  unfold sourcesOf
  rw [List.mem_filter]
  constructor
  · rintro ⟨h1, h2⟩
    refine ⟨h1, ?_⟩
    rintro ⟨a, ha⟩
    have := (mem_edgeIP' hw).mpr ha
    cases h : edgeIP job t with
    | nil => rw [h] at this; simp at this
    | cons x l => rw [h] at h2; simp at h2
  · rintro ⟨h1, h2⟩
    refine ⟨h1, ?_⟩
    cases h : edgeIP job t with
    | nil => rfl
    | cons x l =>
      exfalso
      apply h2
      exact ⟨x, (mem_edgeIP' hw).mp (by rw [h]; simp)⟩

theorem decomp_post {job : Job α β} (hw : job.WF) :
    DecompPost (nbOf job) (sourcesOf job) (sourcesOf job) [] job.ids
      (decompose job.ids (edgeIP job) (edgeOP job)) := by
  unfold decompose
  rw [decompose_eq]
  apply decomposeLoop_spec (nbOf job) job.ids (nbOf_mem hw) (nbOf_sym hw) _ (Nat.le_refl _)
  · intro s hs
    exact ((mem_sourcesOf hw).mp hs).1
  · intro x hx; simp at hx

/-- in a DAG every task is reached from a task without inputs -/
theorem dag_cover {job : Job α β} (hw : job.WF) (hd : IsDag job) :
    ∀ x ∈ job.ids, ∃ s ∈ sourcesOf job, Conn (nbOf job) s x := by
  obtain ⟨rk, hrk⟩ := hd
  have key : ∀ n x, rk x ≤ n → x ∈ job.ids → ∃ s ∈ sourcesOf job, Conn (nbOf job) s x := by
    intro n
    induction n with
    | zero =>
      intro x hr hx
      refine ⟨x, (mem_sourcesOf hw).mpr ⟨hx, ?_⟩, Conn.refl _⟩
      rintro ⟨a, e, he, h1, h2⟩
      have := hrk e he
      rw [h2] at this
      omega
    | succ n ih =>
      intro x hr hx
      by_cases hs : ∃ a, job.child a x
      · obtain ⟨a, ha⟩ := hs
        obtain ⟨e, he, h1, h2⟩ := ha
        have hlt := hrk e he
        rw [h1, h2] at hlt
        obtain ⟨s, hs1, hs2⟩ := ih a (by omega) (child_mem hw ⟨e, he, h1, h2⟩).1
        exact ⟨s, hs1, Conn.step hs2 ((mem_nbOf hw).mpr (Or.inr ⟨e, he, h1, h2⟩))⟩
      · exact ⟨x, (mem_sourcesOf hw).mpr ⟨hx, hs⟩, Conn.refl _⟩
  intro x hx
  exact key (rk x) x (Nat.le_refl _) hx

theorem conn_uconn {job : Job α β} (hw : job.WF) {a b : α} (h : Conn (nbOf job) a b) : UConn job a b := by
  induction h with
  | refl => exact UConn.refl _
  | step _ hm ih =>
    refine UConn.step ih ?_
    rw [mem_nbOf hw] at hm
    exact hm.symm

theorem uconn_conn {job : Job α β} (hw : job.WF) {a b : α} (h : UConn job a b) : Conn (nbOf job) a b := by
  induction h with
  | refl => exact Conn.refl _
  | step _ hm ih =>
    refine Conn.step ih ?_
    rw [mem_nbOf hw]
    exact hm.symm

/-- the components before sorting -/
def comps0 (job : Job α β) : List (Component α) :=
  (decompose job.ids (edgeIP job) (edgeOP job)).map (fun pc => enrich pc (edgeIP job) (edgeOP job))

theorem mem_components {job : Job α β} {c : Component α} :
    c ∈ (precompute job).components ↔
      ∃ pc ∈ decompose job.ids (edgeIP job) (edgeOP job), c = enrich pc (edgeIP job) (edgeOP job) := by
  unfold precompute
  simp only
  rw [(sortDesc_perm _).mem_iff, List.mem_map]
  constructor
  · rintro ⟨pc, h1, h2⟩; exact ⟨pc, h1, h2.symm⟩
  · rintro ⟨pc, h1, h2⟩; exact ⟨pc, h1, h2.symm⟩

theorem enrich_nodes (pc : List α × List α) (ei eo : α → List α) : (enrich pc ei eo).nodes = pc.1 := rfl
theorem enrich_sources (pc : List α × List α) (ei eo : α → List α) : (enrich pc ei eo).sources = pc.2 := rfl

theorem nodup_of_mem_flatten {L : List (List α)} (h : L.flatten.Nodup) {l : List α} (hl : l ∈ L) : l.Nodup := by
  induction L with
  | nil => simp at hl
  | cons x L ih =>
    simp only [List.flatten_cons, List.nodup_append] at h
    rcases List.mem_cons.mp hl with h1 | h1
    · subst h1; exact h.1
    · exact ih h.2.1 h1

end Aux

/-! ## partition into the weakly connected components -/

/-- Every task is in exactly one component: the concatenation of the components' node lists is a
permutation of the (duplicate free) task list; no component is empty. -/
theorem c16_partition (job : Job α β) (hw : job.WF) (hd : IsDag job) :
    ((precompute job).components.flatMap (·.nodes)).Perm job.ids ∧
    ∀ c ∈ (precompute job).components, c.nodes ≠ [] := by
  have post := decomp_post hw
  constructor
  · have h1 : ((precompute job).components.flatMap (·.nodes)).Perm ((comps0 job).flatMap (·.nodes)) :=
      List.Perm.flatMap_right _ (sortDesc_perm _)
    have h2 : (comps0 job).flatMap (·.nodes) =
        ((decompose job.ids (edgeIP job) (edgeOP job)).map (·.1)).flatten := by
      unfold comps0
      rw [List.flatMap_def, List.map_map]
      rfl
    refine h1.trans ?_
    rw [h2]
    rw [List.perm_ext_iff_of_nodup post.nodup hw.ids_nodup]
    intro a
    constructor
    · intro ha
      simp only [List.mem_flatten, List.mem_map] at ha
      obtain ⟨l, ⟨c, hc, rfl⟩, hal⟩ := ha
      exact post.sub_ns c hc a hal
    · exact decompose_cover _ _ _ _ post (dag_cover hw hd) a
  · intro c hc
    obtain ⟨pc, hpc, rfl⟩ := mem_components.mp hc
    obtain ⟨s, _, hs, _⟩ := post.conn pc hpc
    rw [enrich_nodes]
    intro h
    rw [h] at hs
    simp at hs

/-- No edge between components: an edge has both ends in a component or none. -/
theorem c16_closed (job : Job α β) (hw : job.WF) :
    ∀ c ∈ (precompute job).components, ∀ e ∈ job.edges, (e.src ∈ c.nodes ↔ e.dst ∈ c.nodes) := by
  intro c hc e he
  obtain ⟨pc, hpc, rfl⟩ := mem_components.mp hc
  have post := decomp_post hw
  rw [enrich_nodes]
  constructor
  · intro h
    exact post.closed pc hpc _ h _ ((mem_nbOf hw).mpr (Or.inr ⟨e, he, rfl, rfl⟩))
  · intro h
    exact post.closed pc hpc _ h _ ((mem_nbOf hw).mpr (Or.inl ⟨e, he, rfl, rfl⟩))

/-- Any two tasks of a component are joined by an undirected path. -/
theorem c16_connected (job : Job α β) (hw : job.WF) :
    ∀ c ∈ (precompute job).components, ∀ a ∈ c.nodes, ∀ b ∈ c.nodes, UConn job a b := by
  intro c hc a ha b hb
  obtain ⟨pc, hpc, rfl⟩ := mem_components.mp hc
  have post := decomp_post hw
  rw [enrich_nodes] at ha hb
  obtain ⟨s, _, _, hconn⟩ := post.conn pc hpc
  exact conn_uconn hw (((hconn a ha).symm (nbOf_sym hw)).trans (hconn b hb))

/-- Together: a component is exactly the weakly connected component of each of its tasks. -/
theorem c16_components_are_wcc (job : Job α β) (hw : job.WF) :
    ∀ c ∈ (precompute job).components, ∀ a ∈ c.nodes, ∀ b, (b ∈ c.nodes ↔ UConn job a b) := by
  intro c hc a ha b
  constructor
  · exact c16_connected job hw c hc a ha b
  · intro h
    obtain ⟨pc, hpc, rfl⟩ := mem_components.mp hc
    have post := decomp_post hw
    rw [enrich_nodes] at ha ⊢
    exact Conn.closed (S := fun y => y ∈ pc.1) (fun x y hx hy => post.closed pc hpc x hx y hy)
      (uconn_conn hw h) ha

/-- The sources of a component are exactly its tasks without inputs. -/
theorem c16_sources (job : Job α β) (hw : job.WF) :
    ∀ c ∈ (precompute job).components, ∀ t,
      (t ∈ c.sources ↔ t ∈ c.nodes ∧ ¬ ∃ e ∈ job.edges, e.dst = t) := by
  intro c hc t
  obtain ⟨pc, hpc, rfl⟩ := mem_components.mp hc
  have post := decomp_post hw
  rw [enrich_nodes, enrich_sources, post.srcs_eq pc hpc, List.mem_filter]
  simp only [decide_eq_true_eq]
  rw [mem_sourcesOf hw]
  constructor
  · rintro ⟨h1, _, h3⟩
    refine ⟨h1, ?_⟩
    rintro ⟨e, he, het⟩
    exact h3 ⟨e.src, e, he, rfl, het⟩
  · rintro ⟨h1, h2⟩
    refine ⟨h1, post.sub_ns pc hpc t h1, ?_⟩
    rintro ⟨a, e, he, _, het⟩
    exact h2 ⟨e, he, het⟩

/-- `edge_o`, `edge_i`, `task_o` say exactly what the job's edges / output schemas say (multi-edges
and multi-output tasks included); the recorded sets have no duplicates. -/
theorem c16_edge_maps (job : Job α β) (hw : job.WF) :
    (∀ ds t, t ∈ (precompute job).consumers ds ↔ ∃ e ∈ job.edges, (e.src, e.out) = ds ∧ e.dst = t) ∧
    (∀ t ds, ds ∈ (precompute job).inputs t ↔ ∃ e ∈ job.edges, e.dst = t ∧ (e.src, e.out) = ds) ∧
    (∀ t outs, (t, outs) ∈ job.tasks → ∃ s, (precompute job).outputs t = some s ∧
      ∀ ds, ds ∈ s ↔ ∃ o ∈ outs, ds = (t, o)) ∧
    (∀ ds, ((precompute job).consumers ds).Nodup) ∧ (∀ t, ((precompute job).inputs t).Nodup) := by
  refine ⟨?_, ?_, ?_, ?_, ?_⟩
  · intro ds t
    exact mem_dget_dependants
  · intro t ds
    exact mem_dget_edgeI
  · intro t outs h
    refine ⟨_, dlookup_taskO hw.ids_nodup h, ?_⟩
    intro ds
    rw [mem_toSet, List.mem_map]
    constructor
    · rintro ⟨o, ho, rfl⟩; exact ⟨o, ho, rfl⟩
    · rintro ⟨o, ho, rfl⟩; exact ⟨o, ho, rfl⟩
  · intro ds
    exact valsNodup_dependants _ ds
  · intro t
    exact nodup_dget_edgeI _ t

/-- Heaviest component first. -/
theorem c16_sorted (job : Job α β) :
    (precompute job).components.Pairwise (fun a b => b.nodes.length ≤ a.nodes.length) :=
  sortDesc_sorted _


/-! ## enrich: layers, shortest descendant paths, value, distance -/

namespace Aux

theorem path_iff_reach {job : Job α β} : ∀ n a b, job.Path n a b ↔ Reach (edgeOP job) n a b := by
  intro n
  induction n with
  | zero => intro a b; exact Iff.rfl
  | succ n ih =>
    intro a b
    simp only [Job.Path, Reach]
    constructor
    · rintro ⟨c, hc, hp⟩; exact ⟨c, mem_edgeOP'.mpr hc, (ih c b).mp hp⟩
    · rintro ⟨c, hc, hp⟩; exact ⟨c, mem_edgeOP'.mp hc, (ih c b).mpr hp⟩

theorem isSink_iff {job : Job α β} {s : α} : job.IsSink s ↔ edgeOP job s = [] := by
  unfold Job.IsSink
  constructor
  · intro h
    cases hc : edgeOP job s with
    | nil => rfl
    | cons x l =>
      exfalso
      exact h ⟨x, mem_edgeOP'.mp (by rw [hc]; simp)⟩
  · rintro h ⟨c, hc⟩
    have := mem_edgeOP'.mpr hc
    rw [h] at this
    simp at this

theorem nearestSink_iff {job : Job α β} {v : α} {k : Nat} :
    job.NearestSinkDist v k ↔ NearestSink (edgeOP job) v k := by
  unfold Job.NearestSinkDist NearestSink
  constructor
  · rintro ⟨⟨s, hs, hp⟩, hmin⟩
    refine ⟨⟨s, isSink_iff.mp hs, (path_iff_reach _ _ _).mp hp⟩, ?_⟩
    intro j s' hs' hr
    exact hmin j s' (isSink_iff.mpr hs') ((path_iff_reach _ _ _).mpr hr)
  · rintro ⟨⟨s, hs, hp⟩, hmin⟩
    refine ⟨⟨s, isSink_iff.mpr hs, (path_iff_reach _ _ _).mpr hp⟩, ?_⟩
    intro j s' hs' hr
    exact hmin j s' (isSink_iff.mp hs') ((path_iff_reach _ _ _).mp hr)

theorem graphOK {job : Job α β} (hw : job.WF) (pc : List α × List α)
    (hpc : pc ∈ decompose job.ids (edgeIP job) (edgeOP job)) :
    GraphOK pc.1 (edgeOP job) (edgeIP job) := by
  have post := decomp_post hw
  constructor
  · exact nodup_of_mem_flatten post.nodup (List.mem_map.mpr ⟨pc, hpc, rfl⟩)
  · exact nodup_edgeOP job
  · exact nodup_edgeIP job
  · intro a c
    rw [mem_edgeOP', mem_edgeIP' hw]
  · intro a ha c hc
    exact post.closed pc hpc a ha c (List.mem_append_right _ hc)
  · intro c hc a ha
    exact post.closed pc hpc c hc a (List.mem_append_left _ ha)

theorem exists_bound (l : List α) (f : α → Nat) : ∃ B, ∀ x ∈ l, f x ≤ B := by
  induction l with
  | nil => exact ⟨0, by simp⟩
  | cons a l ih =>
    obtain ⟨B, hB⟩ := ih
    refine ⟨max B (f a), ?_⟩
    intro x hx
    rcases List.mem_cons.mp hx with h | h
    · subst h; exact Nat.le_max_right _ _
    · exact Nat.le_trans (hB x h) (Nat.le_max_left _ _)

/-- a rank that decreases towards the consumers -/
theorem rank_rev {job : Job α β} (hw : job.WF) (hd : IsDag job) :
    ∃ rk : α → Nat, ∀ a ∈ job.ids, ∀ c ∈ edgeOP job a, rk c < rk a := by
  obtain ⟨rk, hrk⟩ := hd
  obtain ⟨B, hB⟩ := exists_bound job.ids rk
  refine ⟨fun x => B - rk x, ?_⟩
  intro a ha c hc
  obtain ⟨e, he, h1, h2⟩ := mem_edgeOP'.mp hc
  have hlt := hrk e he
  rw [h1, h2] at hlt
  have hcb := hB c (h2 ▸ hw.dst_mem e he)
  show B - rk c < B - rk a
  omega

/-- the layers `enrich` computes for a plain component -/
def layersOfPc (job : Job α β) (pc : List α × List α) : List (List α) :=
  layersOf pc.1.length pc.1 (edgeIP job) (edgeOP job)

theorem enrich_depth (job : Job α β) (pc : List α × List α) :
    (enrich pc (edgeIP job) (edgeOP job)).depth = (layersOfPc job pc).length := rfl
theorem enrich_value (job : Job α β) (pc : List α × List α) :
    (enrich pc (edgeIP job) (edgeOP job)).value =
      (dp (layersOfPc job pc).length (edgeOP job) (layersOfPc job pc)).1 := rfl
theorem enrich_paths (job : Job α β) (pc : List α × List α) :
    (enrich pc (edgeIP job) (edgeOP job)).paths =
      (dp (layersOfPc job pc).length (edgeOP job) (layersOfPc job pc)).2 := rfl
theorem enrich_dist (job : Job α β) (pc : List α × List α) :
    (enrich pc (edgeIP job) (edgeOP job)).dist =
      ncd (layersOfPc job pc).length (dp (layersOfPc job pc).length (edgeOP job) (layersOfPc job pc)).2 pc.1 := rfl

/-- everything the property needs to know about the layers of a component -/
structure LayerFacts (job : Job α β) (pc : List α × List α) : Prop where
  graph : GraphOK pc.1 (edgeOP job) (edgeIP job)
  post : LayersPost pc.1 (edgeOP job)
    (layersLoop (edgeIP job) pc.1.length
      ((pc.1.filter (fun v => !(edgeOP job v).isEmpty)).map (fun v => (v, (edgeOP job v).length))) []
      (pc.1.filter (fun v => (edgeOP job v).isEmpty)))
  fuel : ∀ extra, layersOf (pc.1.length + extra) pc.1 (edgeIP job) (edgeOP job) = layersOfPc job pc
  head : ∃ more, layersOfPc job pc = pc.1.filter (fun v => (edgeOP job v).isEmpty) :: more
  bound : ∀ v ∈ pc.1, ∀ n d, Reach (edgeOP job) n v d → n < (layersOfPc job pc).length
  tower : Tower (edgeOP job) (layersOfPc job pc).reverse

theorem layer_facts {job : Job α β} (hw : job.WF) (hd : IsDag job) (pc : List α × List α)
    (hpc : pc ∈ decompose job.ids (edgeIP job) (edgeOP job)) : LayerFacts job pc := by
  have G := graphOK hw pc hpc
  have dpost := decomp_post hw
  obtain ⟨rk, hrk⟩ := rank_rev hw hd
  have hrk' : ∀ a ∈ pc.1, ∀ c ∈ edgeOP job a, rk c < rk a :=
    fun a ha c hc => hrk a (dpost.sub_ns pc hpc a ha) c hc
  have hspec := layersLoop_spec G rk hrk' pc.1.length _ [] _ (loopInv_init G)
    (by simpa using unvisited_le_length pc.1 _)
  obtain ⟨post, hfuel⟩ := hspec
  obtain ⟨more, hmore⟩ := layersLoop_prefix (edgeIP job) pc.1.length
    ((pc.1.filter (fun v => !(edgeOP job v).isEmpty)).map (fun v => (v, (edgeOP job v).length))) []
    (pc.1.filter (fun v => (edgeOP job v).isEmpty))
  refine ⟨G, post, ?_, ⟨more, by simpa [layersOfPc, layersOf] using hmore⟩, ?_, ?_⟩
  · intro extra
    unfold layersOfPc layersOf
    simp only
    rw [hfuel extra]
  · intro v hv n d hr
    have hb := goodFrom_bound (edgeOP job) (fun n a => ∃ d, Reach (edgeOP job) n a d)
      (by
        rintro n a ⟨d, c, hc, hr⟩
        exact ⟨c, hc, d, hr⟩)
      _ [] 0 post.good (by intro x hx; simp at hx) v ((post.mem_iff v).mpr hv) n ⟨d, hr⟩
    simpa [layersOfPc, layersOf] using hb
  · obtain ⟨s0, _, hs0, _⟩ := dpost.conn pc hpc
    obtain ⟨s, hs, hsn⟩ := exists_sink G rk hrk' s0 hs0
    have ht := layersLoop_tower G rk hrk' pc.1.length
      ((pc.1.filter (fun v => !(edgeOP job v).isEmpty)).map (fun v => (v, (edgeOP job v).length))) []
      (pc.1.filter (fun v => (edgeOP job v).isEmpty)) (loopInv_init G)
      (by
        refine ⟨?_, by simp, trivial⟩
        intro hc
        have : s ∈ pc.1.filter (fun v => (edgeOP job v).isEmpty) :=
          List.mem_filter.mpr ⟨hs, by rw [hsn]; rfl⟩
        rw [hc] at this
        simp at this)
    exact ht

/-- `value` and `paths` of a component satisfy their specifications at every node -/
theorem dp_facts {job : Job α β} (hw : job.WF) (hd : IsDag job) (pc : List α × List α)
    (hpc : pc ∈ decompose job.ids (edgeIP job) (edgeOP job)) :
    DpInv (edgeOP job) (layersOfPc job pc).length
      (dp (layersOfPc job pc).length (edgeOP job) (layersOfPc job pc)) pc.1 := by
  have F := layer_facts hw hd pc hpc
  obtain ⟨more, hmore⟩ := F.head
  have post := F.post
  have hlay : (layersLoop (edgeIP job) pc.1.length
      ((pc.1.filter (fun v => !(edgeOP job v).isEmpty)).map (fun v => (v, (edgeOP job v).length))) []
      (pc.1.filter (fun v => (edgeOP job v).isEmpty))).2 = layersOfPc job pc := rfl
  have hnod := post.nodup
  have hmem := post.mem_iff
  have hgood := post.good
  rw [hlay, hmore] at hnod hmem hgood
  simp only [List.flatten_cons] at hnod hmem
  have hinv := dp_spec (edgeOP job) (layersOfPc job pc).length
    (pc.1.filter (fun v => (edgeOP job v).isEmpty)) more hnod
    (by
      intro p v post' he c hc
      have := goodFrom_flat (edgeOP job) _ [] p v post' hgood (by simpa using he) c hc
      simpa using this)
    (by
      intro v hv
      have := (List.mem_filter.mp hv).2
      cases h : edgeOP job v with
      | nil => rfl
      | cons x l => rw [h] at this; simp at this)
    (by
      intro v hv hnil
      have hvns : v ∈ pc.1 := (hmem v).mp (List.mem_append_right _ hv)
      have hs : v ∈ pc.1.filter (fun v => (edgeOP job v).isEmpty) :=
        List.mem_filter.mpr ⟨hvns, by rw [hnil]; rfl⟩
      rw [List.nodup_append] at hnod
      exact hnod.2.2 v hs v hv rfl)
    (by
      intro v hv n d hr
      exact F.bound v ((hmem v).mp (List.mem_append_right _ hv)) n d hr)
  rw [← hmore] at hinv
  intro v hv
  exact hinv v ((hmem v).mpr hv)

end Aux

/-- The fuel of the two `while` loops of the model is never the reason they stop: with any larger
fuel `decompose` and `enrich` return the same result (on a DAG). -/
theorem c16_fuel (job : Job α β) (hw : job.WF) (hd : IsDag job) (extra : Nat) :
    decomposeF (job.ids.length + extra) job.ids (edgeIP job) (edgeOP job) =
      decompose job.ids (edgeIP job) (edgeOP job) ∧
    ∀ pc ∈ decompose job.ids (edgeIP job) (edgeOP job),
      enrichF (pc.1.length + extra) pc (edgeIP job) (edgeOP job) = enrich pc (edgeIP job) (edgeOP job) := by
  constructor
  · unfold decompose
    rw [decompose_eq, decompose_eq]
    have key : ∀ (srcs vis : List α), (∀ s ∈ srcs, s ∈ job.ids) →
        decomposeLoop (nbOf job) (job.ids.length + extra) (sourcesOf job) srcs vis =
          decomposeLoop (nbOf job) job.ids.length (sourcesOf job) srcs vis := by
      intro srcs
      induction srcs with
      | nil => intro vis _; rfl
      | cons s rest ih =>
        intro vis hs
        simp only [decomposeLoop]
        have hrest : ∀ s ∈ rest, s ∈ job.ids := fun x hx => hs x (List.mem_cons_of_mem _ hx)
        by_cases hv : s ∈ vis
        · simp only [hv, ↓reduceIte]
          exact ih vis hrest
        · simp only [hv, ↓reduceIte]
          have hf := flood_fuel_indep (nbOf job) job.ids (nbOf_mem hw) job.ids.length extra [s] (s :: vis) []
            (by intro x hx; simp at hx; subst hx; simp) (by simp)
            (by
              have h1 := unvisited_cons_lt job.ids vis s (hs s (by simp)) hv
              have h2 := unvisited_le_length job.ids vis
              simp only [List.length_cons, List.length_nil]
              omega)
          rw [hf, ih _ hrest]
    exact key _ _ (fun s hs => ((mem_sourcesOf hw).mp hs).1)
  · intro pc hpc
    have F := layer_facts hw hd pc hpc
    unfold enrich enrichF
    simp only
    rw [F.fuel extra]
    rfl

/-- `depth` is the number of layers = 1 + the length of the longest directed path of the component:
some task of the component starts a path with `depth − 1` edges and no path has `depth` edges. -/
theorem c16_depth (job : Job α β) (hw : job.WF) (hd : IsDag job) :
    ∀ c ∈ (precompute job).components,
      1 ≤ c.depth ∧ (∃ a ∈ c.nodes, ∃ b, job.Path (c.depth - 1) a b) ∧
      ∀ a ∈ c.nodes, ∀ n b, job.Path n a b → n < c.depth := by
  intro c hc
  obtain ⟨pc, hpc, rfl⟩ := mem_components.mp hc
  have F := layer_facts hw hd pc hpc
  rw [enrich_depth, enrich_nodes]
  obtain ⟨more, hmore⟩ := F.head
  have hlen : 1 ≤ (layersOfPc job pc).length := by rw [hmore]; simp
  refine ⟨hlen, ?_, ?_⟩
  · have ht := F.tower
    have hmem := F.post.mem_iff
    have hlay : (layersLoop (edgeIP job) pc.1.length
        ((pc.1.filter (fun v => !(edgeOP job v).isEmpty)).map (fun v => (v, (edgeOP job v).length))) []
        (pc.1.filter (fun v => (edgeOP job v).isEmpty))).2 = layersOfPc job pc := rfl
    rw [hlay] at hmem
    cases hrev : (layersOfPc job pc).reverse with
    | nil =>
      have : (layersOfPc job pc).reverse.length = 0 := by rw [hrev]; rfl
      rw [List.length_reverse] at this
      omega
    | cons l below =>
      rw [hrev] at ht
      have hl : l ≠ [] := ht.1
      obtain ⟨a, ha⟩ : ∃ a, a ∈ l := by
        cases l with
        | nil => exact absurd rfl hl
        | cons x _ => exact ⟨x, by simp⟩
      have hpath := tower_path (edgeOP job) (fun n a => ∃ b, Reach (edgeOP job) n a b)
        (fun a => ⟨a, rfl⟩) (fun n a c hc ⟨b, hb⟩ => ⟨b, c, hc, hb⟩) below l ht a ha
      have hbl : below.length = (layersOfPc job pc).length - 1 := by
        have : (layersOfPc job pc).reverse.length = below.length + 1 := by rw [hrev]; rfl
        rw [List.length_reverse] at this
        omega
      have hans : a ∈ pc.1 := by
        apply (hmem a).mp
        have hl_in : l ∈ layersOfPc job pc := by
          rw [← List.mem_reverse, hrev]; simp
        exact List.mem_flatten.mpr ⟨l, hl_in, ha⟩
      obtain ⟨b, hb⟩ := hpath
      rw [hbl] at hb
      exact ⟨a, hans, b, (path_iff_reach _ _ _).mpr hb⟩
  · intro a ha n b hp
    exact F.bound a ha n b ((path_iff_reach _ _ _).mp hp)

/-- The DP table of `enrich` holds shortest directed path lengths: for `a` in a component,
`paths[a][b]` (read with its default) is at most the length of every directed path from `a` to
`b`, is itself the length of such a path whenever it is below `depth`, and every path is shorter
than `depth` — so the entry equals `depth` exactly when there is no path. -/
theorem c16_paths (job : Job α β) (hw : job.WF) (hd : IsDag job) :
    ∀ c ∈ (precompute job).components, ∀ a ∈ c.nodes, ∀ b,
      c.pathLen a b ≤ c.depth ∧
      (∀ n, job.Path n a b → c.pathLen a b ≤ n ∧ n < c.depth) ∧
      (c.pathLen a b < c.depth → job.Path (c.pathLen a b) a b) := by
  intro c hc a ha b
  obtain ⟨pc, hpc, rfl⟩ := mem_components.mp hc
  rw [enrich_nodes] at ha
  have F := layer_facts hw hd pc hpc
  obtain ⟨_, row, hrow, hspec⟩ := dp_facts hw hd pc hpc a ha
  unfold Component.pathLen
  rw [enrich_depth, enrich_paths]
  obtain ⟨p1, p2, p3⟩ := pathGet_spec (edgeOP job) _ _ a row hrow hspec (F.bound a ha) b
  refine ⟨p1, ?_, ?_⟩
  · intro n hn
    have hr := (path_iff_reach n a b).mp hn
    exact ⟨p2 n hr, F.bound a ha n b hr⟩
  · intro hlt
    exact (path_iff_reach _ a b).mpr (p3 hlt)

/-- `value[t] = depth − (distance from t to the nearest sink)`, and that distance is below `depth`
(so the subtraction is a true one and every value is at least 1). -/
theorem c16_value (job : Job α β) (hw : job.WF) (hd : IsDag job) :
    ∀ c ∈ (precompute job).components, ∀ t ∈ c.nodes,
      ∃ k, job.NearestSinkDist t k ∧ k < c.depth ∧ c.valueOf t = some (c.depth - k) := by
  intro c hc t ht
  obtain ⟨pc, hpc, rfl⟩ := mem_components.mp hc
  rw [enrich_nodes] at ht
  have F := layer_facts hw hd pc hpc
  obtain ⟨⟨k, hk, hval⟩, _⟩ := dp_facts hw hd pc hpc t ht
  refine ⟨k, nearestSink_iff.mpr hk, ?_, ?_⟩
  · obtain ⟨s, _, hr⟩ := hk.1
    rw [enrich_depth]
    exact F.bound t ht k s hr
  · unfold Component.valueOf
    rw [enrich_depth, enrich_value]
    exact hval

/-- `distance_matrix[a][b]` is defined for all pairs of a component; it is `0` on the diagonal,
never exceeds `depth`; if some task is reachable from both it is the least `d` such that some
task is within `d` steps of both (and is below `depth`), otherwise it is `depth`. -/
theorem c16_ncd (job : Job α β) (hw : job.WF) (hd : IsDag job) :
    ∀ c ∈ (precompute job).components, ∀ a ∈ c.nodes, ∀ b ∈ c.nodes,
      ∃ d, c.distance a b = some d ∧ d ≤ c.depth ∧ (a = b → d = 0) ∧
        (job.HasCommon a b → job.LeastCommon a b d ∧ d < c.depth) ∧
        (¬ job.HasCommon a b → d = c.depth) := by
  intro c hc a ha b hb
  obtain ⟨pc, hpc, rfl⟩ := mem_components.mp hc
  rw [enrich_nodes] at ha hb
  have F := layer_facts hw hd pc hpc
  have D := dp_facts hw hd pc hpc
  obtain ⟨_, rowa, hrowa, hspeca⟩ := D a ha
  obtain ⟨_, rowb, hrowb, hspecb⟩ := D b hb
  have hbound := F.bound
  have hchc := F.graph.ch_closed
  generalize hL : (layersOfPc job pc).length = L at *
  generalize hP : (dp L (edgeOP job) (layersOfPc job pc)).2 = paths at *
  obtain ⟨row, hr1, hr2⟩ := dlookup_ncd L paths pc.1 a b ha hb
  have hdist : (enrich pc (edgeIP job) (edgeOP job)).distance a b = some (ncdEntry L paths pc.1 a b) := by
    unfold Component.distance
    rw [enrich_dist, hL, hP, hr1]
    exact hr2
  have hdepth : (enrich pc (edgeIP job) (edgeOP job)).depth = L := by rw [enrich_depth, hL]
  rw [hdepth]
  have pa := fun x => pathGet_spec (edgeOP job) L paths a rowa hrowa hspeca (hbound a ha) x
  have pb := fun x => pathGet_spec (edgeOP job) L paths b rowb hrowb hspecb (hbound b hb) x
  -- descendants stay in the component
  have hclosed : ∀ n x, Reach (edgeOP job) n a x → x ∈ pc.1 := by
    intro n x hr
    exact reach_closed (S := fun y => y ∈ pc.1) (fun u hu c hc => hchc u hu c hc) n a x hr ha
  refine ⟨_, hdist, ?_⟩
  by_cases hab : b = a
  · subst hab
    have h0 : ncdEntry L paths pc.1 b b = 0 := by simp [ncdEntry]
    rw [h0]
    refine ⟨Nat.zero_le _, fun _ => rfl, ?_, ?_⟩
    · intro _
      refine ⟨⟨⟨b, 0, 0, Nat.le_refl _, Nat.le_refl _, rfl, rfl⟩, fun _ _ _ _ _ _ _ _ => Nat.zero_le _⟩, ?_⟩
      exact hbound b hb 0 b rfl
    · intro hno
      exact absurd ⟨b, 0, 0, rfl, rfl⟩ hno
  · have hentry : ncdEntry L paths pc.1 a b =
        pc.1.foldl (fun m c => min m (max (pathGet L paths a c) (pathGet L paths b c))) L := by
      simp [ncdEntry, hab]
    rw [hentry]
    obtain ⟨m1, m2, m3⟩ := foldl_min_spec (fun c => max (pathGet L paths a c) (pathGet L paths b c)) pc.1 L
    generalize pc.1.foldl (fun m c => min m (max (pathGet L paths a c) (pathGet L paths b c))) L = d at m1 m2 m3
    have hupper : ∀ x i j, Reach (edgeOP job) i a x → Reach (edgeOP job) j b x → d ≤ max i j ∧ max i j < L := by
      intro x i j hi hj
      have h1 := m1 x (hclosed i x hi)
      have h2 := (pa x).2.1 i hi
      have h3 := (pb x).2.1 j hj
      have h4 := hbound a ha i x hi
      have h5 := hbound b hb j x hj
      omega
    refine ⟨m2, fun h => absurd h.symm hab, ?_, ?_⟩
    · rintro ⟨x, i, j, hi, hj⟩
      have hu := hupper x i j ((path_iff_reach _ _ _).mp hi) ((path_iff_reach _ _ _).mp hj)
      have hdL : d < L := by omega
      refine ⟨⟨?_, ?_⟩, hdL⟩
      · rcases m3 with h | ⟨y, hy, h⟩
        · omega
        · have h1 := (pa y).2.2 (by omega)
          have h2 := (pb y).2.2 (by omega)
          exact ⟨y, _, _, by omega, by omega, (path_iff_reach _ _ _).mpr h1, (path_iff_reach _ _ _).mpr h2⟩
      · intro d' x' i' j' hi' hj' hpi hpj
        have := hupper x' i' j' ((path_iff_reach _ _ _).mp hpi) ((path_iff_reach _ _ _).mp hpj)
        omega
    · intro hno
      rcases m3 with h | ⟨y, hy, h⟩
      · exact h
      · rcases Nat.lt_or_ge d L with hlt | hge
        · exfalso
          apply hno
          have h1 := (pa y).2.2 (by omega)
          have h2 := (pb y).2.2 (by omega)
          exact ⟨y, _, _, (path_iff_reach _ _ _).mpr h1, (path_iff_reach _ _ _).mpr h2⟩
        · omega


/-! ## `IsDag` is decidable (Kahn-style peeling) -/

namespace Aux

/-- one round: keep the tasks that still have a producer among `ns` -/
def peelStep (edges : List (Edge α β)) (ns : List α) : List α :=
  ns.filter (fun v => edges.any (fun e => decide (e.dst = v ∧ e.src ∈ ns)))

def peel (edges : List (Edge α β)) : Nat → List α → List α
  | 0, ns => ns
  | f + 1, ns => peel edges f (peelStep edges ns)

/-- boolean acyclicity check: after `len(tasks)` rounds nothing is left -/
def isDagB (job : Job α β) : Bool := (peel job.edges job.ids.length job.ids).isEmpty

/-- number of rounds `v` survives -/
def lifetime (edges : List (Edge α β)) : Nat → List α → α → Nat
  | 0, _, _ => 0
  | f + 1, ns, v => if v ∈ ns then 1 + lifetime edges f (peelStep edges ns) v else 0

theorem mem_peelStep {edges : List (Edge α β)} {ns : List α} {v : α} :
    v ∈ peelStep edges ns ↔ v ∈ ns ∧ ∃ e ∈ edges, e.dst = v ∧ e.src ∈ ns := by
  unfold peelStep
  rw [List.mem_filter, List.any_eq_true]
  simp only [decide_eq_true_eq]

theorem lifetime_lt (edges : List (Edge α β)) (e : Edge α β) (he : e ∈ edges) :
    ∀ (f : Nat) (ns : List α), peel edges f ns = [] → (e.src ∈ ns → e.dst ∈ ns) → e.src ∈ ns →
      lifetime edges f ns e.src < lifetime edges f ns e.dst := by
  intro f
  induction f with
  | zero =>
    intro ns hp _ hs
    simp only [peel] at hp
    rw [hp] at hs
    simp at hs
  | succ f ih =>
    intro ns hp himp hs
    have hd := himp hs
    simp only [lifetime, hs, hd, ↓reduceIte]
    simp only [peel] at hp
    have hd' : e.dst ∈ peelStep edges ns := mem_peelStep.mpr ⟨hd, e, he, rfl, hs⟩
    by_cases hs' : e.src ∈ peelStep edges ns
    · have := ih (peelStep edges ns) hp (fun _ => hd') hs'
      omega
    · have h0 : lifetime edges f (peelStep edges ns) e.src = 0 := by
        cases f with
        | zero => rfl
        | succ f => simp [lifetime, hs']
      have h1 : 1 ≤ lifetime edges f (peelStep edges ns) e.dst := by
        cases f with
        | zero =>
          simp only [peel] at hp
          rw [hp] at hd'
          simp at hd'
        | succ f => simp [lifetime, hd']
      omega

theorem exists_min (rk : α → Nat) : ∀ (l : List α), l ≠ [] → ∃ m ∈ l, ∀ x ∈ l, rk m ≤ rk x := by
  intro l
  induction l with
  | nil => intro h; exact absurd rfl h
  | cons a l ih =>
    intro _
    cases l with
    | nil => exact ⟨a, by simp, by simp⟩
    | cons b l =>
      obtain ⟨m, hm, hmin⟩ := ih (by simp)
      rcases Nat.le_total (rk a) (rk m) with h | h
      · refine ⟨a, by simp, ?_⟩
        intro x hx
        rcases List.mem_cons.mp hx with hx | hx
        · subst hx; exact Nat.le_refl _
        · exact Nat.le_trans h (hmin x hx)
      · refine ⟨m, List.mem_cons_of_mem _ hm, ?_⟩
        intro x hx
        rcases List.mem_cons.mp hx with hx | hx
        · subst hx; exact h
        · exact hmin x hx

theorem peelStep_length_lt (edges : List (Edge α β)) (rk : α → Nat)
    (hrk : ∀ e ∈ edges, rk e.src < rk e.dst) (ns : List α) (hne : ns ≠ []) :
    (peelStep edges ns).length < ns.length := by
  obtain ⟨m, hm, hmin⟩ := exists_min rk ns hne
  have hle := List.length_filter_le (fun v => edges.any (fun e => decide (e.dst = v ∧ e.src ∈ ns))) ns
  have hneq : (peelStep edges ns).length ≠ ns.length := by
    intro heq
    unfold peelStep at heq
    rw [List.length_filter_eq_length_iff] at heq
    have := heq m hm
    rw [List.any_eq_true] at this
    obtain ⟨e, he, h⟩ := this
    simp only [decide_eq_true_eq] at h
    have h1 := hrk e he
    have h2 := hmin e.src h.2
    rw [h.1] at h1
    omega
  unfold peelStep at hneq ⊢
  omega

theorem peel_nil (edges : List (Edge α β)) (rk : α → Nat) (hrk : ∀ e ∈ edges, rk e.src < rk e.dst) :
    ∀ (f : Nat) (ns : List α), ns.length ≤ f → peel edges f ns = [] := by
  intro f
  induction f with
  | zero =>
    intro ns h
    simp only [peel]
    exact List.length_eq_zero_iff.mp (by omega)
  | succ f ih =>
    intro ns h
    simp only [peel]
    by_cases hne : ns = []
    · subst hne
      exact ih _ (by simp [peelStep])
    · have := peelStep_length_lt edges rk hrk ns hne
      exact ih _ (by omega)

end Aux

/-- The acyclicity hypothesis is decidable: the boolean peeling check says exactly `IsDag`. -/
theorem c16_isDag_iff (job : Job α β) (hw : job.WF) : isDagB job = true ↔ IsDag job := by
  constructor
  · intro h
    unfold isDagB at h
    have hp : peel job.edges job.ids.length job.ids = [] := List.isEmpty_iff.mp h
    refine ⟨lifetime job.edges job.ids.length job.ids, ?_⟩
    intro e he
    exact lifetime_lt job.edges e he _ _ hp (fun _ => hw.dst_mem e he) (hw.src_mem e he)
  · rintro ⟨rk, hrk⟩
    unfold isDagB
    rw [peel_nil job.edges rk hrk _ _ (Nat.le_refl _)]
    rfl

/-- `IsDag` as a decidable proposition (for well-formed jobs) -/
def decIsDag (job : Job α β) (hw : job.WF) : Decidable (IsDag job) :=
  decidable_of_iff _ (c16_isDag_iff job hw)

/-! ## non-vacuity: a concrete job satisfying the hypotheses, and what the theorems say about it

`j0`: a diamond `0 → {1,2} → 3` whose first edge is doubled through two outputs of task `0`
(multi-edge, multi-output), a chain `4 → 5`, an isolated task `6`. -/

def j0 : Job Nat Nat :=
  { tasks := [(0, [0, 1]), (1, [0]), (2, [0]), (3, [0]), (4, [0]), (5, [0]), (6, [0])],
    edges := [⟨0, 0, 1, .ps 0⟩, ⟨0, 1, 1, .kw "x"⟩, ⟨0, 0, 2, .ps 0⟩, ⟨1, 0, 3, .ps 0⟩, ⟨2, 0, 3, .ps 1⟩,
              ⟨4, 0, 5, .ps 0⟩] }

theorem j0_wf : j0.WF := ⟨by decide, by decide, by decide⟩
theorem j0_dag : IsDag j0 := ⟨id, by decide⟩

-- the hypotheses hold, `isDagB` agrees, and the model computes the three components, heaviest first
example : isDagB j0 = true := by decide
example : (precompute j0).components.map (·.nodes) = [[0, 2, 3, 1], [4, 5], [6]] := by decide
-- c16_partition / c16_sorted
example : ((precompute j0).components.flatMap (·.nodes)).Perm j0.ids := (c16_partition j0 j0_wf j0_dag).1
example : (precompute j0).components.map (·.nodes.length) = [4, 2, 1] := by decide
-- c16_closed / c16_connected / c16_components_are_wcc: 1 and 2 are joined only through 0 or 3
example : ∀ c ∈ (precompute j0).components, (1 ∈ c.nodes ↔ 2 ∈ c.nodes) := by
  intro c hc
  have h1 := c16_closed j0 j0_wf c hc ⟨0, 0, 1, .ps 0⟩ (by decide)
  have h2 := c16_closed j0 j0_wf c hc ⟨0, 0, 2, .ps 0⟩ (by decide)
  simp only at h1 h2
  rw [← h1, ← h2]
/-- the heaviest component of `j0` -/
def c0 : Component Nat := (precompute j0).components[0]'(by decide)
theorem c0_mem : c0 ∈ (precompute j0).components := List.getElem_mem _
example : UConn j0 1 2 := c16_connected j0 j0_wf c0 c0_mem 1 (by decide) 2 (by decide)
example : ¬ UConn j0 1 4 := fun h =>
  absurd ((c16_components_are_wcc j0 j0_wf c0 c0_mem 1 (by decide) 4).mpr h) (by decide)
-- c16_sources
example : (precompute j0).components.map (·.sources) = [[0], [4], [6]] := by decide
-- c16_edge_maps: both outputs of task 0 are inputs of task 1; output (0,0) has two consumers
example : (precompute j0).inputs 1 = [(0, 0), (0, 1)] ∧ (precompute j0).consumers (0, 0) = [1, 2] ∧
    (precompute j0).outputs 0 = some [(0, 0), (0, 1)] := by decide
-- c16_depth / c16_value / c16_paths / c16_ncd on the diamond
example : (precompute j0).components.map (·.depth) = [3, 2, 1] := by decide
example : ((precompute j0).components.map (fun c => c.valueOf 0)) = [some 1, none, none] := by decide
example : ((precompute j0).components.head?.map (fun c => (c.pathLen 0 3, c.pathLen 1 2, c.distance 1 2, c.distance 0 3))) =
    some (2, 3, some 1, some 2) := by decide
example : j0.Path 2 0 3 := ⟨1, ⟨⟨0, 0, 1, .ps 0⟩, by decide, rfl, rfl⟩, 3, ⟨⟨1, 0, 3, .ps 0⟩, by decide, rfl, rfl⟩, rfl⟩
example : j0.HasCommon 1 2 := ⟨3, 1, 1, ⟨3, ⟨⟨1, 0, 3, .ps 0⟩, by decide, rfl, rfl⟩, rfl⟩, ⟨3, ⟨⟨2, 0, 3, .ps 1⟩, by decide, rfl, rfl⟩, rfl⟩⟩
-- c16_fuel: doubling the fuel changes nothing
example : decomposeF 14 j0.ids (edgeIP j0) (edgeOP j0) = decompose j0.ids (edgeIP j0) (edgeOP j0) :=
  (c16_fuel j0 j0_wf j0_dag 7).1


/-! ## what the real code does where it produces no result (the `…E` functions the driver runs) -/

namespace Aux

theorem relaxE_some {st st' : List (α × Nat) × List α} {a : α} (h : relaxE st a = some st') :
    relax st a = st' := by
  unfold relaxE at h
  unfold relax
  cases hl : dlookup st.1 a with
  | none => simp [hl] at h
  | some k =>
    simp only [hl] at h ⊢
    by_cases hk : k - 1 = 0
    · simp only [hk, ↓reduceIte, Option.some.injEq] at h ⊢; exact h
    · simp only [hk, ↓reduceIte, Option.some.injEq] at h ⊢; exact h

theorem foldO_relaxE_some : ∀ (as : List α) {st st' : List (α × Nat) × List α},
    foldO relaxE as st = some st' → as.foldl relax st = st' := by
  intro as
  induction as with
  | nil => intro st st' h; simpa [foldO] using h
  | cons a as ih =>
    intro st st' h
    simp only [foldO] at h
    cases hr : relaxE st a with
    | none => simp [hr] at h
    | some s1 =>
      simp only [hr] at h
      simp only [List.foldl_cons, relaxE_some hr]
      exact ih h

theorem layerStepE_some {pa : α → List α} {rem : List (α × Nat)} {layer : List α}
    {st' : List (α × Nat) × List α} (h : layerStepE pa rem layer = some st') :
    layerStep pa rem layer = st' := by
  unfold layerStepE at h
  unfold layerStep
  generalize (rem, ([] : List α)) = st at h ⊢
  induction layer generalizing st with
  | nil => simpa [foldO] using h
  | cons v layer ih =>
    simp only [foldO] at h
    cases hr : foldO relaxE (pa v) st with
    | none => simp [hr] at h
    | some s1 =>
      simp only [hr] at h
      simp only [List.foldl_cons, foldO_relaxE_some _ hr]
      exact ih _ h

theorem layerStep_nil (pa : α → List α) (rem : List (α × Nat)) : layerStep pa rem [] = (rem, []) := rfl

end Aux

/-- A run of the layering loop that ends without `KeyError` and without getting stuck is the run of
the total model function: the theorems about `enrich` speak about what the real loop returns. -/
theorem c16_layersLoopE_ok (pa : α → List α) : ∀ (fuel : Nat) (rem : List (α × Nat)) (acc : List (List α))
    (last : List α) (r : List (α × Nat) × List (List α)),
    layersLoopE pa fuel rem acc last = .ok r → layersLoop pa fuel rem acc last = r ∧ r.1 = [] := by
  intro fuel
  induction fuel with
  | zero =>
    intro rem acc last r h
    simp only [layersLoopE] at h
    by_cases he : rem.isEmpty
    · simp only [he, ↓reduceIte, Except.ok.injEq] at h
      subst h
      exact ⟨rfl, List.isEmpty_iff.mp he⟩
    · simp [he] at h
  | succ f ih =>
    intro rem acc last r h
    simp only [layersLoopE] at h
    simp only [layersLoop]
    by_cases he : rem.isEmpty
    · simp only [he, ↓reduceIte, Except.ok.injEq] at h ⊢
      subst h
      exact ⟨rfl, List.isEmpty_iff.mp he⟩
    · simp only [he, Bool.false_eq_true, ↓reduceIte] at h ⊢
      by_cases hl : last.isEmpty
      · simp [hl] at h
      · simp only [hl, Bool.false_eq_true, ↓reduceIte] at h
        cases hs : layerStepE pa rem last with
        | none => simp [hs] at h
        | some st =>
          simp only [hs] at h
          rw [layerStepE_some hs]
          exact ih _ _ _ _ h

/-- …and so for `enrich` as a whole. -/
theorem c16_enrichE_ok (fuel : Nat) (pc : List α × List α) (ei eo : α → List α) (c : Component α)
    (h : enrichE fuel pc ei eo = .ok c) : c = enrichF fuel pc ei eo := by
  unfold enrichE at h
  simp only at h
  cases hl : layersLoopE ei fuel
      ((pc.1.filter (fun v => !(eo v).isEmpty)).map (fun v => (v, (eo v).length))) []
      (pc.1.filter (fun v => (eo v).isEmpty)) with
  | error e => simp [hl] at h
  | ok r =>
    simp only [hl, Except.ok.injEq] at h
    have := (c16_layersLoopE_ok ei fuel _ _ _ r hl).1
    unfold enrichF layersOf
    simp only
    rw [this]
    exact h.symm

/-- **Never returns.** Once the last layer is empty while `remaining` is not, `while remaining:` repeats
its own state: for EVERY number of further rounds `remaining` is unchanged and one more empty layer
has been appended per round. (This is the state the real loop reaches on a cyclic job and, before the
`fix:` commit of C16, on a DAG with two edges into one sink input; the driver reports it as
`Diverges`, the harness sees the real `precompute` not returning.) -/
theorem c16_stuck_never_exits (pa : α → List α) (rem : List (α × Nat)) (hrem : rem ≠ []) :
    ∀ (rounds : Nat) (acc : List (List α)),
      layersLoop pa rounds rem acc [] = (rem, acc ++ List.replicate (rounds + 1) []) := by
  intro rounds
  induction rounds with
  | zero => intro acc; simp [layersLoop]
  | succ f ih =>
    intro acc
    have he : rem.isEmpty = false := by
      cases rem with
      | nil => exact absurd rfl hrem
      | cons _ _ => rfl
    simp only [layersLoop, he, Bool.false_eq_true, ↓reduceIte, layerStep_nil]
    rw [ih]
    simp [List.replicate_succ]

/-- **Terminates.** On a well-formed DAG the `while remaining` loop of every component exits because
`remaining` is empty, after at most `len(nodes)` rounds. -/
theorem c16_layering_terminates (job : Job α β) (hw : job.WF) (hd : IsDag job) :
    ∀ pc ∈ decompose job.ids (edgeIP job) (edgeOP job),
      (layersLoop (edgeIP job) pc.1.length
        ((pc.1.filter (fun v => !(edgeOP job v).isEmpty)).map (fun v => (v, (edgeOP job v).length))) []
        (pc.1.filter (fun v => (edgeOP job v).isEmpty))).1 = [] :=
  fun pc hpc => (layer_facts hw hd pc hpc).post.rem_nil

/-- **No `KeyError`, never stuck.** On a well-formed DAG `enrich`, run as the real code runs it
(`enrichE`: a missing key of `remaining` and a loop that cannot exit are results), returns for every
component — and returns what the total model function computes. -/
theorem c16_enrich_returns (job : Job α β) (hw : job.WF) (hd : IsDag job) :
    ∀ pc ∈ decompose job.ids (edgeIP job) (edgeOP job),
      enrichE pc.1.length pc (edgeIP job) (edgeOP job) = .ok (enrich pc (edgeIP job) (edgeOP job)) := by
  intro pc hpc
  have G := graphOK hw pc hpc
  have dpost := decomp_post hw
  obtain ⟨rk, hrk⟩ := rank_rev hw hd
  have hrk' : ∀ a ∈ pc.1, ∀ c ∈ edgeOP job a, rk c < rk a :=
    fun a ha c hc => hrk a (dpost.sub_ns pc hpc a ha) c hc
  have hlast : (pc.1.filter (fun v => !(edgeOP job v).isEmpty)).map (fun v => (v, (edgeOP job v).length)) ≠ [] →
      pc.1.filter (fun v => (edgeOP job v).isEmpty) ≠ [] := by
    intro hne hc
    cases hf : pc.1.filter (fun v => !(edgeOP job v).isEmpty) with
    | nil => rw [hf] at hne; exact hne rfl
    | cons a l =>
      have ha : a ∈ pc.1 := (List.mem_filter.mp (by rw [hf]; simp : a ∈ pc.1.filter _)).1
      obtain ⟨s, hs, hsn⟩ := exists_sink G rk hrk' a ha
      have : s ∈ pc.1.filter (fun v => (edgeOP job v).isEmpty) :=
        List.mem_filter.mpr ⟨hs, by rw [hsn]; rfl⟩
      rw [hc] at this
      simp at this
  have hE := layersLoopE_eq G rk hrk' pc.1.length _ [] _ (loopInv_init G) hlast
    (by simpa using unvisited_le_length pc.1 _)
  unfold enrichE enrich enrichF layersOf
  simp only [hE]

/-- …so the driver reports no error for a well-formed DAG. -/
theorem c16_no_enrich_errors (job : Job α β) (hw : job.WF) (hd : IsDag job) : enrichErrors job = [] := by
  unfold enrichErrors plainComponentsX floodFuel
  rw [(c16_fuel job hw hd (2 * job.edges.length)).1]
  rw [List.filterMap_eq_nil_iff]
  intro pc hpc
  rw [c16_enrich_returns job hw hd pc hpc]

/-- What the driver runs (`precomputeX`: generous flood fuel, so that it follows the real code on
jobs with dangling edges too) is `precompute` on every well-formed DAG. -/
theorem c16_driver_runs_model (job : Job α β) (hw : job.WF) (hd : IsDag job) :
    precomputeX job = precompute job := by
  unfold precomputeX precompute plainComponentsX floodFuel
  rw [(c16_fuel job hw hd (2 * job.edges.length)).1]

/-! ## scheduler's view and executor's view of a task's inputs -/

/-- `edge_i[t]` is what the controller waits for before `t` may start; the executor binds the sources
of `param_source` (one per sink input, the LAST edge wins). **Partial**: they are the same set when no
sink input is fed by two different sources (`Job.UniqueInputs` — guaranteed by `JobBuilder.build` since
its `fix:` commit, Props/C19.lean `c19_accepted_presched_wf`). -/
theorem c16_executor_view_partial (job : Job α β) (hu : job.UniqueInputs) :
    ∀ t ds, ds ∈ dget (edgeIParams job.edges) t ↔ ds ∈ (precompute job).inputs t := by
  intro t ds
  rw [mem_dget_edgeIParams hu]
  exact (mem_dget_edgeI).symm

/-- …and without that hypothesis they differ, on a well-formed DAG (`jDup` below: task 2 waits for
(0,0) and (1,0), the executor binds only (1,0)). -/
theorem c16_executor_view_full_fails :
    ¬ ∀ (job : Job Nat Nat), job.WF → IsDag job →
      ∀ t ds, ds ∈ dget (edgeIParams job.edges) t ↔ ds ∈ (precompute job).inputs t := by
  intro h
  have := h { tasks := [(0, [0]), (1, [0]), (2, [0])], edges := [⟨0, 0, 2, .ps 0⟩, ⟨1, 0, 2, .ps 0⟩] }
    ⟨by decide, by decide, by decide⟩ ⟨id, by decide⟩ 2 (0, 0)
  revert this
  decide

/-! the hypotheses cannot be dropped -/

/-- a 2-cycle: well-formed but not a DAG; no task is without inputs, `decompose` yields nothing -/
def jCyc : Job Nat Nat :=
  { tasks := [(0, [0]), (1, [0])], edges := [⟨0, 0, 1, .ps 0⟩, ⟨1, 0, 0, .ps 0⟩] }
example : jCyc.WF := ⟨by decide, by decide, by decide⟩
example : isDagB jCyc = false := by decide
example : (precompute jCyc).components.length = 0 := by decide

/-- a 2-cycle behind a source: the component is found, its layering loop is stuck at once -/
def jCyc2 : Job Nat Nat :=
  { tasks := [(0, [0]), (1, [0]), (2, [0])], edges := [⟨0, 0, 1, .ps 0⟩, ⟨1, 0, 2, .ps 0⟩, ⟨2, 0, 1, .ps 1⟩] }
example : jCyc2.WF := ⟨by decide, by decide, by decide⟩
example : enrichErrors jCyc2 = [.diverges] := by decide

/-- `IsDag` cannot be dropped from `c16_partition`: in `jCyc` both tasks are in no component. -/
theorem c16_partition_cyclic_full_fails :
    ¬ ∀ (job : Job Nat Nat), job.WF →
      ((precompute job).components.flatMap (·.nodes)).Perm job.ids := by
  intro h
  have := (h jCyc ⟨by decide, by decide, by decide⟩).length_eq
  revert this
  decide

/-- "edge ends are tasks" cannot be dropped either: an edge from something that is not a task makes
its sink a non-source that no flood reaches (tasks 1 and 2 with an edge 0 → 2: task 2 is in no
component). A job accepted by `JobBuilder.build` has no such edge (`c19_accepted_wellformed`). -/
theorem c16_partition_dangling_full_fails :
    ¬ ∀ (job : Job Nat Nat), job.ids.Nodup → IsDag job →
      ((precompute job).components.flatMap (·.nodes)).Perm job.ids := by
  intro h
  have := (h { tasks := [(1, [0]), (2, [0])], edges := [⟨0, 0, 2, .ps 0⟩] } (by decide) ⟨id, by decide⟩).length_eq
  revert this
  decide

/-- two edges into the same input of task 2. Inside the quantifier: `WF` and a DAG; since the fix
`edge_i` holds both sources (before: only the later one, and `enrich` never returned). -/
def jDup : Job Nat Nat :=
  { tasks := [(0, [0]), (1, [0]), (2, [0])], edges := [⟨0, 0, 2, .ps 0⟩, ⟨1, 0, 2, .ps 0⟩] }
theorem jDup_wf : jDup.WF := ⟨by decide, by decide, by decide⟩
theorem jDup_dag : IsDag jDup := ⟨id, by decide⟩
example : ¬ jDup.UniqueInputs := by
  intro h
  have := (h ⟨0, 0, 2, .ps 0⟩ (by decide) ⟨1, 0, 2, .ps 0⟩ (by decide) rfl rfl).1
  revert this
  decide
example : (precompute jDup).inputs 2 = [(0, 0), (1, 0)] := by decide
example : dget (edgeIParams jDup.edges) 2 = [(1, 0)] := by decide
example : (precompute jDup).components.map (·.nodes) = [[0, 2, 1]] := by decide
example : enrichErrors jDup = [] := c16_no_enrich_errors jDup jDup_wf jDup_dag
example : ((precompute jDup).components.flatMap (·.nodes)).Perm jDup.ids := (c16_partition jDup jDup_wf jDup_dag).1
-- the code before the fix (edge_i taken from param_source): task 0 counts a consumer that never counts it back
example : (match enrichE 3 ([0, 2, 1], [0, 1]) (dget (edgeIProj (edgeIParams jDup.edges))) (edgeOP jDup) with
    | .error .diverges => true | _ => false) = true := by decide
example : layersLoop (edgeIP jCyc2) 1000 [(1, 1), (2, 1), (0, 1)] [] [] = ([(1, 1), (2, 1), (0, 1)], List.replicate 1001 []) :=
  c16_stuck_never_exits _ _ (by decide) 1000 []

end EkwVerif.Presched
