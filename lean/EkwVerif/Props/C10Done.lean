/-
C10, completion as the controller decides it TODAY: `notify` calls `all_outputs_published` (a task is complete when
the set of its outputs for which a `DatasetPublished` notice arrived has as many elements as its `output_schema`),
not `is_last_output_of` (about which `c10_completion_is_last` / `c10_completion_after_all` speak).  The notices of one
task may be delivered in any order (a lost one is retried after later ones): the theorems quantify over every
permutation of the notices a run sends.
-/
import EkwVerif.Props.C10

namespace EkwVerif.Runner
open EkwVerif.Lower
open Aux

namespace Aux

theorem completionFlags_length (n : Nat) (ns seen : List String) : (completionFlags n seen ns).length = ns.length := by
  induction ns generalizing seen with
  | nil => rfl
  | cons o rest ih => simp [completionFlags, ih]

theorem allOutputsPublished_new (n : Nat) (seen : List String) (o : String) (h : o ∉ seen) :
    allOutputsPublished n seen o = (o :: seen, seen.length + 1 == n) := by
  simp [allOutputsPublished, h]

/-- notices without repetition, none of them seen before: the i-th answer is "the set has now n elements" -/
theorem completionFlags_getElem (n : Nat) (ns seen : List String) (hnd : ns.Nodup) (hdis : ∀ o ∈ ns, o ∉ seen)
    (i : Nat) (hi : i < (completionFlags n seen ns).length) :
    (completionFlags n seen ns)[i] = (seen.length + i + 1 == n) := by
  induction ns generalizing seen i with
  | nil => simp [completionFlags] at hi
  | cons o rest ih =>
    have hom : o ∉ seen := hdis o (by simp)
    rw [List.nodup_cons] at hnd
    have hcf : completionFlags n seen (o :: rest) = (seen.length + 1 == n) :: completionFlags n (o :: seen) rest := by
      simp only [completionFlags, allOutputsPublished_new n seen o hom]
    cases i with
    | zero => simp [hcf]
    | succ j =>
      have hj : j < (completionFlags n (o :: seen) rest).length := by
        rw [hcf] at hi
        simpa using hi
      have := ih (o :: seen) hnd.2 (by
        intro x hx
        simp only [List.mem_cons, not_or]
        exact ⟨fun h => hnd.1 (h ▸ hx), hdis x (List.mem_cons_of_mem _ hx)⟩) j hj
      simp only [hcf, List.getElem_cons_succ]
      rw [this]
      simp only [List.length_cons]
      congr 1
      omega

/-- a duplicate-free list inside `l` that is at least as long as `l` contains every element of `l` -/
theorem subset_of_nodup_length_le (ns l : List String) (hnd : ns.Nodup) (hsub : ns ⊆ l) (hlen : l.length ≤ ns.length) :
    l ⊆ ns := by
  intro o ho
  apply Classical.byContradiction
  intro hno
  have hsub' : ns ⊆ l.erase o := by
    intro x hx
    have hxo : x ≠ o := fun h => hno (h ▸ hx)
    exact (List.mem_erase_of_ne hxo).2 (hsub hx)
  have h1 := hnd.length_le_of_subset hsub'
  have h2 : (l.erase o).length = l.length - 1 := by rw [List.length_erase]; simp [ho]
  have h3 : 1 ≤ l.length := List.length_pos_of_mem ho
  omega

end Aux

/-- **Completion as `notify` decides it (`all_outputs_published`), for every run and every delivery order.** Take any
run of a task with duplicate-free declared outputs -- succeeding or failing, publishing all, some or none of its
outputs -- and deliver the `DatasetPublished` notices it sends in ANY order `ns`. Then `all_outputs_published` answers
once per notice, and it answers "complete" at a notice if and only if that notice is the last one delivered AND every
declared output of the task has been published by the run. So a task is never taken as complete while one of its
declared outputs is missing (a failing run, a withheld output), and never before all notices arrived. -/
theorem c10_completion_all_outputs (tid : String) (t : Task) (edges : List Edge) (mem : Ds → Option Val)
    (pub : String → Bool) (res : Result) (hnd : t.outputSchema.Nodup) (ns : List String)
    (hperm : ns.Perm (published ((run tid t edges mem pub res).handled, (run tid t edges mem pub res).err))) :
    (completionFlags t.outputSchema.length [] ns).length = ns.length ∧
    ∀ (i : Nat) (hi : i < (completionFlags t.outputSchema.length [] ns).length),
      ((completionFlags t.outputSchema.length [] ns)[i] = true ↔
        (i + 1 = ns.length ∧ ∀ o ∈ t.outputSchema,
          o ∈ published ((run tid t edges mem pub res).handled, (run tid t edges mem pub res).err))) := by
  obtain ⟨k, hk, hp⟩ := c10_published_prefix tid t edges mem pub res
  have hpnd : (published ((run tid t edges mem pub res).handled, (run tid t edges mem pub res).err)).Nodup := by
    rw [hp]
    exact ((List.take_sublist k _).nodup hnd).filter _
  have hpsub : published ((run tid t edges mem pub res).handled, (run tid t edges mem pub res).err) ⊆ t.outputSchema := by
    rw [hp]
    intro x hx
    exact List.mem_of_mem_take (List.mem_filter.mp hx).1
  have hnsnd : ns.Nodup := hperm.nodup_iff.mpr hpnd
  have hnssub : ns ⊆ t.outputSchema := fun x hx => hpsub (hperm.subset hx)
  have hle := hnsnd.length_le_of_subset hnssub
  refine ⟨completionFlags_length _ _ _, ?_⟩
  intro i hi
  rw [completionFlags_getElem _ ns [] hnsnd (by simp) i hi]
  have hi' : i < ns.length := by rw [completionFlags_length] at hi; exact hi
  simp only [List.length_nil, Nat.zero_add, beq_iff_eq]
  constructor
  · intro h
    refine ⟨by omega, ?_⟩
    intro o ho
    exact hperm.subset (subset_of_nodup_length_le ns t.outputSchema hnsnd hnssub (by omega) ho)
  · rintro ⟨h1, h2⟩
    have : t.outputSchema.length ≤ ns.length :=
      hnd.length_le_of_subset (fun o ho => hperm.symm.subset (h2 o ho))
    omega

/-- **A successful run that publishes everything is taken as complete exactly once, at the last notice -- in any
delivery order.** -/
theorem c10_completion_fires_once (tid : String) (t : Task) (edges : List Edge) (mem : Ds → Option Val)
    (pub : String → Bool) (res : Result) (hnd : t.outputSchema.Nodup) (hpub : ∀ o ∈ t.outputSchema, pub o = true)
    (hrecv : (run tid t edges mem pub res).received.isSome = true) (herr : (run tid t edges mem pub res).err = none)
    (ns : List String)
    (hperm : ns.Perm (published ((run tid t edges mem pub res).handled, (run tid t edges mem pub res).err))) :
    completionFlags t.outputSchema.length [] ns = List.replicate (t.outputSchema.length - 1) false ++ [true] := by
  obtain ⟨hl, hf⟩ := c10_completion_all_outputs tid t edges mem pub res hnd ns hperm
  have hall := ((c10_completion_is_last tid t edges mem pub res hpub).1 hrecv herr).1
  have hlen : ns.length = t.outputSchema.length := by rw [hperm.length_eq, hall]
  have hpos : 0 < t.outputSchema.length := by
    have hne := (run_of_received tid t edges mem pub res hrecv).2.2
    cases hts : t.outputSchema with
    | nil => simp [hts] at hne
    | cons a as => simp
  apply List.ext_getElem
  · simp [hl, hlen]; omega
  · intro i h1 h2
    have := hf i h1
    by_cases hlast : i + 1 = ns.length
    · have ht : (completionFlags t.outputSchema.length [] ns)[i] = true :=
        this.mpr ⟨hlast, fun o ho => by rw [hall]; exact ho⟩
      rw [ht, List.getElem_append_right (by simp; omega)]
      simp
    · have hfalse : (completionFlags t.outputSchema.length [] ns)[i] = false := by
        cases hc : (completionFlags t.outputSchema.length [] ns)[i] with
        | false => rfl
        | true => exact absurd (this.mp hc).1 hlast
      rw [hfalse, List.getElem_append_left (by
        simp only [List.length_replicate]
        rw [hl] at h1; omega)]
      simp

/-- **Static arguments arrive unchanged, stated on the lowered job** (`c10_statics_unchanged` is the lemma about `subst`;
this is the statement about `graph2job` followed by `runner.run`): for every graph that lowers and every node of it,
the callable is invoked with as many positional arguments as the author declared, and at every position whose declared
argument is not a string equal to one of the node's input names it receives that declared argument itself -- numbers,
`None`, lists, dicts, arrays, bytes (`Val.data`), and strings that merely CONTAIN an input name (`"input0_scaled"`) or
name an input the node does not have (`"input7"`). -/
theorem c10_statics_received (g : List (String × SNode)) (j : Job) (hg : graph2job g = .ok j)
    (hnames : (g.map Prod.fst).Nodup)
    (name : String) (n : SNode) (args : List Val) (kwargs : List (String × Val))
    (hm : (name, n) ∈ g) (hp : n.payload = some (args, kwargs))
    (hin : (n.inputs.map Prod.fst).Nodup) (hkw : (kwargs.map Prod.fst).Nodup)
    (mem : Ds → Option Val) (havail : ∀ p r, (p, r) ∈ n.inputs → (mem r.source).isSome)
    (pub : String → Bool) (res : Result) :
    ∃ t ra, (name, t) ∈ j.tasks ∧ (run name t j.edges mem pub res).received = some (ra, kwargs) ∧
      ra.length = args.length ∧
      ∀ (i : Nat) (hi : i < args.length), (∀ s, args[i] = .str s → n.inputs.lookup s = none) → ra[i]? = some args[i] := by
  obtain ⟨t, ht, hr⟩ := c10_binding g j hg hnames name n args kwargs hm hp hin hkw mem havail pub res
  refine ⟨t, args.map (subst n.inputs mem), ht, hr, by simp, ?_⟩
  intro i hi h
  rw [List.getElem?_map, List.getElem?_eq_getElem hi]
  simp only [Option.map_some]
  rw [c10_statics_unchanged n.inputs mem args[i] h]

/-- non-vacuity: `"input0_scaled"` and `"input1"` on a node with ONE input stay what the author wrote -/
example : (graph2job [("a", ⟨some ([], []), [], [], false⟩),
                ("b", ⟨some ([.str "input0_scaled", .str "input0", .str "input1", .data "b'ab'"], []), [("input0", .dflt "a")], [], false⟩)]).toOption.bind
      (fun j => (j.tasks.lookup "b").map (fun t =>
        (run "b" t j.edges (fun ds => if ds = ⟨"a", "0"⟩ then some Val.none else none) (fun _ => true) (.value .none)).received)) =
    some (some ([.str "input0_scaled", .none, .str "input1", .data "b'ab'"], [])) := by decide

/-- the constructor's placeholder test is equality, not containment: `"input0_scaled"` does not stand for `input0`, and
with 11 inputs an explicit `"input10"` does not stand for `input1` -/
example : (fluentNode [.str "input0_scaled"] 1 1).args = [.str "input0_scaled", .str "input0"] := by decide
example : (fluentNode [.str "input10"] 11 1).args =
    [.str "input10", .str "input0", .str "input1", .str "input2", .str "input3", .str "input4", .str "input5",
     .str "input6", .str "input7", .str "input8", .str "input9"] := by decide

/-- non-vacuity: three outputs published, notices delivered as "2", "0", "1": complete at the third notice only; a
generator one value short never completes -/
example : completionFlags 3 [] ["2", "0", "1"] = [false, false, true] := by decide
example : completionFlags 3 [] (published ((run "g" ⟨[], [], [], ["0", "1", "2"]⟩ [] (fun _ => none) (fun _ => true)
    (.gen [.tok "a", .tok "b"])).handled, (run "g" ⟨[], [], [], ["0", "1", "2"]⟩ [] (fun _ => none) (fun _ => true)
    (.gen [.tok "a", .tok "b"])).err)) = [false, false] := by decide

end EkwVerif.Runner
