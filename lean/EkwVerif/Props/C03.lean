/-
C03 — a feasible job always completes: no deadlock, livelock or scheduler crash.
(Part proved so far: crash-freedom of the bookkeeping sites listed below. See DESIGN.md §5 C03.)
-/
import EkwVerif.Props.C02

namespace EkwVerif.Ctrl

/-- `plan` never raises "double add": a task that was just assigned is not already ongoing. -/
theorem c03_no_double_add (f : Sem) (j : Job) (cl : Cluster) (hw : cl.ids.Nodup) (s : Sys)
    (hr : Reachable f j cl s) : s.err ≠ some "ValueError: double add" :=
  (inv1_reachable f j cl hw s hr).no_double_add

end EkwVerif.Ctrl
