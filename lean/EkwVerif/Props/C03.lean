/-
C03 — a feasible job always completes: no deadlock, livelock or scheduler crash.

Proved here (for ANY order and batching of events, every job, cluster and admissible choice):
the controller never raises from its own bookkeeping (all six `raise`/KeyError sites of the
modelled functions are unreachable), `shutdown` is issued exactly once and last, and when the
loop exits nothing is computable, ongoing or unfetched. The liveness clauses (progress, bounded
rounds, all tasks completed at exit) hold only under FIFO delivery on the pinned tree
(known finding C03-last-output-overtakes) and are checked by the watchdog oracle of the check.

"FIFO" (`fifoStep`, Lemmas/SchedInvDefs.lean) is PER-PRODUCER order, what one worker's channel guarantees: of each
task's pending output notices a received batch takes a prefix in their order; notices of different tasks, transfer
notices and payloads may overtake each other and be batched in any way. The global discipline "a batch is a prefix of
all pending events" is a special case (`fifoStep_of_prefix`), and so are the deliveries of FIFO executors whose task
bodies publish their outputs one at a time (Model/CtrlN.lean): the X driver evaluates `fifoStep` on every batch of the
harness' FIFO runs.
-/
import EkwVerif.Lemmas.SchedBound
import EkwVerif.Lemmas.SchedIdle

namespace EkwVerif.Ctrl

/-- **The controller never raises from its own bookkeeping**: no `KeyError` on the purging
tracker (in `notify` and in `plan`), no "removal from ongoing impossible", no "double add", no
`KeyError` when popping host statuses in `flush_queues`, no "dataset not found in any host". -/
theorem c03_no_crash (f : Sem) (j : Job) (cl : Cluster) (wf : WF j cl) (s : Sys) (hr : Reachable f j cl s) :
    s.err = none ∧ s.phase ≠ .crashed := by
  have h := invAll_reachable f j cl wf s hr
  have hF := invF_reachable f j cl s hr
  have herr : s.err = none := by
    cases he : s.err with
    | none => rfl
    | some e =>
      have hm := hF.err_msg e he
      simp only [crashMsgs, List.mem_cons, List.not_mem_nil, or_false] at hm
      rcases hm with rfl | rfl | rfl | rfl | rfl | rfl
      · exact absurd he h.h4.no_err_notfound
      · exact absurd he h.h2.no_err_plan
      · exact absurd he h.h1.no_double_add
      · exact absurd he h.h4.no_err_pop
      · exact absurd he h.h2.no_err_tracker
      · exact absurd he h.h2.no_err_ongoing
  refine ⟨herr, ?_⟩
  intro hp
  have := hF.err_phase.mpr hp
  simp [herr] at this

theorem aux_done_ran_once (f : Sem) (j : Job) (cl : Cluster) (wf : WF j cl) (s : Sys) (hr : Reachable f j cl s)
    (t : Task) (hd : s.ctl.doneC t = true) : s.env.ran t = true ∧ s.env.dispatchedE t = 1 := by
  have h := invAll_reachable f j cl wf s hr
  have hran := h.h2.done_ran t hd
  exact ⟨hran, by rw [h.h1.disp_eq]; exact (h.h2.ran_disp t hran).1⟩

/-- **Shutdown exactly once, at the end** (the `finally` of `impl.run`). -/
theorem c03_shutdown_once (f : Sem) (j : Job) (cl : Cluster) (s : Sys) (hr : Reachable f j cl s) :
    s.shutdowns = (if s.phase = .finished ∨ s.phase = .crashed then 1 else 0) :=
  (invF_reachable f j cl s hr).shut

/-- **Nothing is left when the loop exits**: no computable task, no ongoing task, every
requested output fetched; and every task whose completion was seen has run. -/
theorem c03_exit_clean (f : Sem) (j : Job) (cl : Cluster) (s : Sys) (hr : Reachable f j cl s)
    (hfin : s.phase = .finished) :
    s.ctl.computable = [] ∧ s.ctl.ongoing = [] ∧ ∀ ds, ds ∈ j.ext → (s.ctl.outputs ds).isSome = true := by
  have hF := (invF_reachable f j cl s hr).fin hfin
  have h1 := hF.1
  have h2 := hF.2
  simp only [Ctl.hasComputable, decide_eq_false_iff_not, Nat.not_lt, Nat.le_zero_eq, List.length_eq_zero_iff] at h1
  simp only [Ctl.hasAwaitable, Bool.or_eq_false_iff, decide_eq_false_iff_not, Nat.not_lt, Nat.le_zero_eq,
    List.length_eq_zero_iff, List.any_eq_false] at h2
  refine ⟨h1, h2.1, ?_⟩
  intro ds hds
  have := h2.2 ds hds
  cases ho : s.ctl.outputs ds <;> simp_all

/-- **No waiting with nothing outstanding.** Whenever the controller blocks in `recv_events`
because a task is ongoing, the environment has something for it: the task is queued (its body can
run once its inputs arrive) or it has run and its completion notice is on its way. -/
theorem c03_ongoing_is_real (f : Sem) (j : Job) (cl : Cluster) (wf : WF j cl) (s : Sys) (hr : Reachable f j cl s)
    (w : Worker) (t : Task) (ho : (w, t) ∈ s.ctl.ongoing) : (w, t) ∈ s.env.queued ∨ s.env.ran t = true :=
  (invAll_reachable f j cl wf s hr).h2.flight_queued_or_ran w t (Or.inl ho)

/-! ### the scheduler's own bookkeeping (extended system, `Model/Sched.lean`) -/

/-- **The assignment heuristics never hit a missing dictionary key**, for ANY event order: no
`KeyError` on `worker2task_distance[worker]` (in `_assignment_heuristic` and in `plan`'s
`update_worker2task_distance`), on `worker2task_overhead[w][t]`, or in `worker2task_values.remove`;
and the base controller does not crash either. -/
theorem c03_sched_no_crash (f : Sem) (j : Job) (cl : Cluster) (cm : Comps) (wf : WF j cl) (wfc : WFC j cm) (x : SysX)
    (hr : ReachableX f j cl cm x) : x.sch.schErr = none ∧ x.sys.err = none := by
  have h := invX_reachable f j cl cm wf wfc x hr
  exact ⟨h.hS.no_schErr, (c03_no_crash f j cl wf x.sys (sS1_reachableX_base f j cl cm x hr)).1⟩

/-- **All tasks completed when the loop exits — under FIFO delivery** (each task's output notices reach the
controller in production order). Under any-order delivery this is false on the pinned tree (known finding
C03-last-output-overtakes), hence the `_partial` suffix. -/
theorem c03_done_partial (f : Sem) (j : Job) (cl : Cluster) (cm : Comps) (wf : WF j cl) (x : SysX)
    (hr : ReachableFifo f j cl cm x) (hfin : x.sys.phase = .finished) :
    ∀ t, t < j.tasks.length → x.sys.ctl.doneC t = true ∧ x.sys.env.ran t = true ∧ x.sys.env.dispatchedE t = 1 := by
  intro t ht
  have hd := sF_done f j cl cm x hr wf hfin t ht
  have hR := sF_reachable_base f j cl cm x hr
  exact ⟨hd, aux_done_ran_once f j cl wf x.sys hR t hd⟩

/-- **Progress — under FIFO delivery.** An iteration of the controller loop entered with something
computable and nothing ongoing (so: nothing to wait for) dispatches at least one task before
`assign()` returns, on every feasible cluster, whatever the heuristics choose and whatever the
executors do meanwhile: the controller never spins without issuing a command. (`ProgressStmt`,
`Lemmas/SchedProgressDefs.lean`; FIFO is needed on the pinned tree: known finding.) -/
theorem c03_progress_partial (f : Sem) (j : Job) (cl : Cluster) (cm : Comps) (wf : WF j cl) (wfc : WFC j cm)
    (feas : Feasible j cl) (x x1 x2 : SysX) (hr : ReachableFifo f j cl cm x) (htop : x.sys.phase = .top)
    (hc : x.sys.ctl.hasComputable = true) (ho : x.sys.ctl.ongoing = [])
    (he : stepX f j cl cm x (.base .enter) = some x1) (hs : AssignStar f j cl cm x1 x2)
    (hp : x2.sys.phase = .planning) : x2.sys.todo ≠ [] :=
  sP_progress f j cl cm wf wfc feas x x1 x2 hr htop hc ho he hs hp

/-- **Bounded number of scheduling rounds — under FIFO delivery.** On every feasible cluster, whatever
the heuristics choose and however executor steps interleave, the `while` loop of `impl.run` makes at
most `roundBound j = Σ_t (1 + #inputs t + #outputs t) + #requested + 1` iterations (a function of the job
only). Proof: a potential that never increases and drops at every dispatch and every non-empty
`recv_events`, plus the progress theorem (an iteration that neither waited nor dispatched is impossible). -/
theorem c03_bounded_partial (f : Sem) (j : Job) (cl : Cluster) (cm : Comps) (wf : WF j cl) (wfc : WFC j cm)
    (feas : Feasible j cl) (x : SysX) (hr : ReachableFifo f j cl cm x) : x.sys.rounds ≤ roundBound j :=
  sB_rounds_bounded f j cl cm wf wfc feas x hr

/-- **No idle wait — under FIFO delivery.** Whenever the controller blocks in `recv_events` (phase `waiting`), an event is
already on its way or an executor can move (a queued task whose inputs are on its host, or a commanded transfer/fetch);
every executor step strictly decreases |queued| + |outstanding|, so an event eventually arrives: the controller never waits
with nothing outstanding. The disjunct "a task is ongoing" (`c03_ongoing_is_live`) and the fetch pipeline of an announced
requested output hold for ANY event order; FIFO is needed only when nothing is ongoing and a requested output has not even
been announced (known finding C03-last-output-overtakes). -/
theorem c03_no_idle_wait_partial (f : Sem) (j : Job) (cl : Cluster) (cm : Comps) (wf : WF j cl) (wfc : WFC j cm)
    (feas : Feasible j cl) (x : SysX) (hr : ReachableFifo f j cl cm x) (hw : x.sys.phase = .waiting) :
    x.sys.env.pending ≠ [] ∨ ∃ es e', envStep f j x.sys.env es = some e' :=
  sI_no_idle_wait f j cl cm wf wfc feas x hr hw

/-- **An ongoing task is live — any event order.** While the controller has a task in flight and its inbox is empty, some
event is pending or some executor step is enabled: the completion notice of a task that ran is between executor and controller,
a queued task either can run or has its missing input in an outstanding transfer. -/
theorem c03_ongoing_is_live (f : Sem) (j : Job) (cl : Cluster) (wf : WF j cl) (s : Sys) (hr : Reachable f j cl s)
    (hib : s.inbox = []) (ho : s.ctl.ongoing ≠ []) :
    s.env.pending ≠ [] ∨ ∃ es e', envStep f j s.env es = some e' :=
  sI_ongoing_live f j cl wf s hr hib ho

/-- the FIFO hypothesis is satisfiable by more than the trivial discipline: any batch that is a prefix of all pending
events satisfies it, and so does a batch that lets another task's notice overtake (non-vacuity of the generalisation) -/
example (x : SysX) (evs : List Event) (h : evs = x.sys.env.pending.take evs.length) : fifoStep x (.base (.recv evs)) :=
  fifoStep_of_prefix x evs h

end EkwVerif.Ctrl
