/-
C03 — a feasible job always completes: no deadlock, livelock or scheduler crash.

Proved here, ALL for ANY order and batching of events, every job, cluster and admissible choice:
the controller never raises from its own bookkeeping (all six `raise`/KeyError sites of the
modelled functions are unreachable), `shutdown` is issued exactly once and last, when the
loop exits nothing is computable, ongoing or unfetched; and the liveness clauses: every task completed at exit,
progress, bounded rounds, no wait with nothing outstanding (on every feasible cluster).

Before the repair of controller/notify.py (completion inferred from the notice of the LAST output; fixed finding
C03-last-output-overtakes) the liveness clauses held only under per-producer FIFO delivery. Now the completion of a
task is detected when the notices of ALL its outputs have been processed (`State.published_outputs`, `Ctl.published`,
Tier P `InvP`), no FIFO hypothesis is left anywhere, and the example at the end runs the former counterexample.
-/
import EkwVerif.Lemmas.SchedBound
import EkwVerif.Lemmas.SchedIdle
import EkwVerif.Lemmas.SchedTermC
import EkwVerif.Props.C16
import EkwVerif.Lemmas.CtrlPresched
import EkwVerif.Lemmas.CtrlWFCheck

namespace EkwVerif.Ctrl

/-- **The controller never raises from its own bookkeeping**: no `KeyError` on the purging
tracker (in `notify` and in `plan`), no "removal from ongoing impossible", no "double add", no
`KeyError` when popping host statuses in `flush_queues`, no "dataset not found in any host". -/
theorem c03_no_crash (f : Sem) (j : Job) (cl : Cluster) (wf : WF j cl) (s : Sys) (hr : Reachable f j cl s) :
    s.err = none ∧ s.phase ≠ .crashed := by
  have h := invAll_reachable f j cl wf s hr
  have hF := invF_reachable f j cl s hr
  have herr : s.err = none := by
    cases he : s.err with
    | none => rfl
    | some e =>
      have hm := hF.err_msg e he
      simp only [crashMsgs, List.mem_cons, List.not_mem_nil, or_false] at hm
      rcases hm with rfl | rfl | rfl | rfl | rfl | rfl
      · exact absurd he h.h4.no_err_notfound
      · exact absurd he h.h2.no_err_plan
      · exact absurd he h.h1.no_double_add
      · exact absurd he h.h4.no_err_pop
      · exact absurd he h.h2.no_err_tracker
      · exact absurd he h.h2.no_err_ongoing
  refine ⟨herr, ?_⟩
  intro hp
  have := hF.err_phase.mpr hp
  simp [herr] at this

theorem aux_done_ran_once (f : Sem) (j : Job) (cl : Cluster) (wf : WF j cl) (s : Sys) (hr : Reachable f j cl s)
    (t : Task) (hd : s.ctl.doneC t = true) : s.env.ran t = true ∧ s.env.dispatchedE t = 1 := by
  have h := invAll_reachable f j cl wf s hr
  have hran := h.h2.done_ran t hd
  exact ⟨hran, by rw [h.h1.disp_eq]; exact (h.h2.ran_disp t hran).1⟩

/-- **Shutdown exactly once, at the end** (the `finally` of `impl.run`). -/
theorem c03_shutdown_once (f : Sem) (j : Job) (cl : Cluster) (s : Sys) (hr : Reachable f j cl s) :
    s.shutdowns = (if s.phase = .finished ∨ s.phase = .crashed then 1 else 0) :=
  (invF_reachable f j cl s hr).shut

/-- **Nothing is left when the loop exits**: no computable task, no ongoing task, every
requested output fetched; and every task whose completion was seen has run. -/
theorem c03_exit_clean (f : Sem) (j : Job) (cl : Cluster) (s : Sys) (hr : Reachable f j cl s)
    (hfin : s.phase = .finished) :
    s.ctl.computable = [] ∧ s.ctl.ongoing = [] ∧ ∀ ds, ds ∈ j.ext → (s.ctl.outputs ds).isSome = true := by
  have hF := (invF_reachable f j cl s hr).fin hfin
  have h1 := hF.1
  have h2 := hF.2
  simp only [Ctl.hasComputable, decide_eq_false_iff_not, Nat.not_lt, Nat.le_zero_eq, List.length_eq_zero_iff] at h1
  simp only [Ctl.hasAwaitable, Bool.or_eq_false_iff, decide_eq_false_iff_not, Nat.not_lt, Nat.le_zero_eq,
    List.length_eq_zero_iff, List.any_eq_false] at h2
  refine ⟨h1, h2.1, ?_⟩
  intro ds hds
  have := h2.2 ds hds
  cases ho : s.ctl.outputs ds <;> simp_all

/-- **No waiting with nothing outstanding.** Whenever the controller blocks in `recv_events`
because a task is ongoing, the environment has something for it: the task is queued (its body can
run once its inputs arrive) or it has run and its completion notice is on its way. -/
theorem c03_ongoing_is_real (f : Sem) (j : Job) (cl : Cluster) (wf : WF j cl) (s : Sys) (hr : Reachable f j cl s)
    (w : Worker) (t : Task) (ho : (w, t) ∈ s.ctl.ongoing) : (w, t) ∈ s.env.queued ∨ s.env.ran t = true :=
  (invAll_reachable f j cl wf s hr).h2.flight_queued_or_ran w t (Or.inl ho)

/-! ### the scheduler's own bookkeeping (extended system, `Model/Sched.lean`) -/

/-- **The assignment heuristics never hit a missing dictionary key**, for ANY event order: no
`KeyError` on `worker2task_distance[worker]` (in `_assignment_heuristic` and in `plan`'s
`update_worker2task_distance`), on `worker2task_overhead[w][t]`, or in `worker2task_values.remove`;
and the base controller does not crash either. -/
theorem c03_sched_no_crash (f : Sem) (j : Job) (cl : Cluster) (cm : Comps) (wf : WF j cl) (wfc : WFC j cm) (x : SysX)
    (hr : ReachableX f j cl cm x) : x.sch.schErr = none ∧ x.sys.err = none := by
  have h := invX_reachable f j cl cm wf wfc x hr
  exact ⟨h.hS.no_schErr, (c03_no_crash f j cl wf x.sys (sS1_reachableX_base f j cl cm x hr)).1⟩

/-- **All tasks completed when the loop exits — for ANY order and batching of events**: every task's completion has
been notified, it ran, and it was dispatched exactly once. (Completion of a task is detected when the notices of ALL
its outputs have been processed, `InvP.done_iff`; before the repair of notify.py this needed FIFO delivery.) -/
theorem c03_done (f : Sem) (j : Job) (cl : Cluster) (wf : WF j cl) (s : Sys)
    (hr : Reachable f j cl s) (hfin : s.phase = .finished) :
    ∀ t, t < j.tasks.length → s.ctl.doneC t = true ∧ s.env.ran t = true ∧ s.env.dispatchedE t = 1 := by
  intro t ht
  have hd := sL_done f j cl wf s hr hfin t ht
  exact ⟨hd, aux_done_ran_once f j cl wf s hr t hd⟩

/-- the same for the extended system (controller + scheduler bookkeeping) -/
theorem c03_done_x (f : Sem) (j : Job) (cl : Cluster) (cm : Comps) (wf : WF j cl) (x : SysX)
    (hr : ReachableX f j cl cm x) (hfin : x.sys.phase = .finished) :
    ∀ t, t < j.tasks.length → x.sys.ctl.doneC t = true ∧ x.sys.env.ran t = true ∧ x.sys.env.dispatchedE t = 1 :=
  c03_done f j cl wf x.sys (sL_reachableX_base f j cl cm x hr) hfin

/-- **Completion is detected exactly when the notices of all outputs have been processed**, in whatever order they
arrived: a notice that overtakes the notices of earlier outputs of its task does not complete the task. -/
theorem c03_done_iff_all_notices (f : Sem) (j : Job) (cl : Cluster) (wf : WF j cl) (s : Sys) (hr : Reachable f j cl s)
    (t : Task) (ht : t < j.tasks.length) :
    s.ctl.doneC t = true ↔ ∀ k, k < j.nOut t → s.ctl.published ⟨t, k⟩ = true :=
  (invAll_reachable f j cl wf s hr).hP.done_iff t ht

/-- **No output notice is lost or counted twice**: every output notice of a task that ran has been processed or is on
its way, never both; and while any of them is on its way the task is still in flight. -/
theorem c03_notices_accounted (f : Sem) (j : Job) (cl : Cluster) (wf : WF j cl) (s : Sys) (hr : Reachable f j cl s) :
    (∀ t, s.env.ran t = true → ∀ k, k < j.nOut t →
        s.ctl.published ⟨t, k⟩ = true ∨ ∃ w, Event.pubW w ⟨t, k⟩ ∈ s.allEv) ∧
    (∀ w ds, Event.pubW w ds ∈ s.allEv → s.ctl.published ds = false ∧ s.inFlight w ds.task) := by
  have h := invAll_reachable f j cl wf s hr
  exact ⟨(sL_reachable f j cl wf s hr).notice, fun w ds he => ⟨h.hP.pub_once w ds he, h.h2.ev_flight w ds he⟩⟩

/-- **Progress — for ANY order and batching of events.** An iteration of the controller loop entered with something
computable and nothing ongoing (so: nothing to wait for) dispatches at least one task before
`assign()` returns, on every feasible cluster, whatever the heuristics choose and whatever the
executors do meanwhile: the controller never spins without issuing a command. (`ProgressStmt`,
`Lemmas/SchedProgressDefs.lean`.) -/
theorem c03_progress (f : Sem) (j : Job) (cl : Cluster) (cm : Comps) (wf : WF j cl) (wfc : WFC j cm)
    (feas : Feasible j cl) (x x1 x2 : SysX) (hr : ReachableX f j cl cm x) (htop : x.sys.phase = .top)
    (hc : x.sys.ctl.hasComputable = true) (ho : x.sys.ctl.ongoing = [])
    (he : stepX f j cl cm x (.base .enter) = some x1) (hs : AssignStar f j cl cm x1 x2)
    (hp : x2.sys.phase = .planning) : x2.sys.todo ≠ [] :=
  sP_progress f j cl cm wf wfc feas x x1 x2 hr htop hc ho he hs hp

/-- **Bounded number of scheduling rounds — for ANY order and batching of events.** On every feasible cluster, whatever
the heuristics choose and however executor steps interleave, the `while` loop of `impl.run` makes at
most `roundBound j = Σ_t (1 + #inputs t + #outputs t) + #requested + 1` iterations (a function of the job
only). Proof: a potential that never increases and drops at every dispatch and every non-empty
`recv_events`, plus the progress theorem (an iteration that neither waited nor dispatched is impossible). -/
theorem c03_bounded (f : Sem) (j : Job) (cl : Cluster) (cm : Comps) (wf : WF j cl) (wfc : WFC j cm)
    (feas : Feasible j cl) (x : SysX) (hr : ReachableX f j cl cm x) : x.sys.rounds ≤ roundBound j :=
  sB_rounds_bounded f j cl cm wf wfc feas x hr

/-- **No idle wait — for ANY order and batching of events.** Whenever the controller blocks in `recv_events` (phase
`waiting`), an event is already on its way or an executor can move (a queued task whose inputs are on its host, or a
commanded transfer/fetch); every executor step strictly decreases |queued| + |outstanding|, so an event eventually
arrives: the controller never waits with nothing outstanding. -/
theorem c03_no_idle_wait (f : Sem) (j : Job) (cl : Cluster) (cm : Comps) (wf : WF j cl) (wfc : WFC j cm)
    (feas : Feasible j cl) (x : SysX) (hr : ReachableX f j cl cm x) (hw : x.sys.phase = .waiting) :
    x.sys.env.pending ≠ [] ∨ ∃ es e', envStepP f j x.sys.env es = some e' := by
  have h1 := (invX_reachable f j cl cm wf wfc x hr).hA.h1
  rcases sI_no_idle_wait f j cl cm wf wfc feas x hr hw with h | ⟨es, e', he⟩
  · exact Or.inl h
  · exact Or.inr ⟨es, e', by rw [envStepP_eq f j x.sys.env es h1.no_trim]; exact he⟩

/-- **An ongoing task is live — any event order.** While the controller has a task in flight and its inbox is empty, some
event is pending or some executor step is enabled: the completion notice of a task that ran is between executor and controller,
a queued task either can run or has its missing input in an outstanding transfer. -/
theorem c03_ongoing_is_live (f : Sem) (j : Job) (cl : Cluster) (wf : WF j cl) (s : Sys) (hr : Reachable f j cl s)
    (hib : s.inbox = []) (ho : s.ctl.ongoing ≠ []) :
    s.env.pending ≠ [] ∨ ∃ es e', envStepP f j s.env es = some e' := by
  have h1 := (invAll_reachable f j cl wf s hr).h1
  rcases sI_ongoing_live f j cl wf s hr hib ho with h | ⟨es, e', he⟩
  · exact Or.inl h
  · exact Or.inr ⟨es, e', by rw [envStepP_eq f j s.env es h1.no_trim]; exact he⟩

/-! ### crash sites outside `crashMsgs` (audit C03 #3) -/

/-- **Every event names things the controller knows**: a worker's notice comes from a worker of the cluster and names a
declared output of a task of the job, a transfer notice names a host of the cluster and a declared output, a payload a
requested output. Hence the lookups `ts2component[ds.task]`, `components[..]`, `host2workers[host]`,
`job.tasks[ds.task].definition.output_schema` and `state.outputs[ds]` in `notify` are defined (no KeyError on unknown
ids), and `notify`'s "malformed event, expected origin to be WorkerId" cannot fire: in the model the origin of a notice
without `transmit_idx` is a worker by construction of `Event.pubW` — the executors' side of that is C06/C07.

WHAT THIS THEOREM IS (re-audit C03 #1): largely a statement about the ENVIRONMENT model, i.e. about the assumption side. The
modelled executors announce only what they were commanded (`Env` publishes outputs of dispatched tasks, notices of commanded
transfers, payloads of commanded fetches) and `takeEvents` cannot forge an event; given that, the theorem's controller-side
content is that every COMMAND names a worker/host of the cluster and a declared output of a task of the job, and — third
conjunct — that the controller fetches only requested datasets. It says nothing about what REAL executors send; that real
events have this shape is sampled by the tie (SimBridge builds every event from a command it received) and is C06/C07's
subject on the wire. -/
theorem c03_events_wellformed (f : Sem) (j : Job) (cl : Cluster) (wf : WF j cl) (s : Sys) (hr : Reachable f j cl s) :
    (∀ w ds, Event.pubW w ds ∈ s.allEv → w ∈ cl.ids ∧ ds.task < j.tasks.length ∧ ds.out < j.nOut ds.task) ∧
    (∀ h ds, Event.pubT h ds ∈ s.allEv → h ∈ cl.hosts ∧ ds.task < j.tasks.length ∧ ds.out < j.nOut ds.task) ∧
    (∀ ds v, Event.payload ds v ∈ s.allEv → ds ∈ j.ext) := by
  have hA := invAll_reachable f j cl wf s hr
  refine ⟨?_, ?_, ?_⟩
  · intro w ds he
    obtain ⟨hran, hout⟩ := hA.h2.ev_ran w ds he
    exact ⟨(hA.h4.evW_present w ds he).1, (hA.h2.ran_disp _ hran).2, hout⟩
  · intro h ds he
    have hp := hA.h2x.evT_produced h ds he
    obtain ⟨hran, hout⟩ := (hA.h2.produced_iff ds).mp hp
    exact ⟨(hA.h4.evT_present h ds he).1, (hA.h2.ran_disp _ hran).2, hout⟩
  · intro ds v he
    exact (hA.h3.payload_ok ds v he).1

/-- **The tables the heuristics index are total on a component** — C16's theorems, cited here as the hypothesis of
C03's crash-freedom for the two lookup sites that the scheduler model (`Model/Sched.lean`: key SETS of
`worker2task_distance`, `worker2task_values`, `worker2task_overhead`) does not contain: `core.distance_matrix[a][b]`
(assign.py, `update_worker2task_distance`: `a` is the task of a dataset on the worker with
`ts2component[a] == component_id`, `b` a task of that component) and `core.value[t]` (`_assignment_heuristic`: `t` a
computable task of the component). For the preschedule of every well-formed acyclic job both are defined for all tasks
of one component (python `nearest_common_descendant`; the `coptrs` fast path is outside, DESIGN §8).

WHAT THIS THEOREM IS (re-audit C03 #1): a RE-EXPORT of `c16_ncd` and `c16_value`, stated over C16's own job type
`Presched.Job α β`. There is NO Lean link between `Presched.Job` and the controller model's `Ctrl.Job` / `Comps`: that the
component map `cm` of the controller theorems is the one `precompute` yields is not proved. It is checked per replayed input:
the drivers evaluate `wfcCheck job cm` (`Lemmas/CtrlWFCheck.lean`, `wfcCheck_sound`) for the component map the REAL
`precompute`/`initialize` produced, and C16's own tie compares `Presched.precompute` with the real `precompute`. Counted as a C03
obligation only as this citation; the two lookup sites are therefore covered by C16 + the tie, not by a theorem about `Ctrl.Job`. -/
theorem c03_heuristic_tables_total {α β : Type} [DecidableEq α] [DecidableEq β] (job : Presched.Job α β)
    (hw : job.WF) (hd : Presched.IsDag job) :
    ∀ c ∈ (Presched.precompute job).components,
      (∀ a ∈ c.nodes, ∀ b ∈ c.nodes, (c.distance a b).isSome = true) ∧ (∀ t ∈ c.nodes, (c.valueOf t).isSome = true) := by
  intro c hc
  refine ⟨?_, ?_⟩
  · intro a ha b hb
    obtain ⟨d, hd', _⟩ := Presched.c16_ncd job hw hd c hc a ha b hb
    rw [hd']; rfl
  · intro t ht
    obtain ⟨k, _, _, hv⟩ := Presched.c16_value job hw hd c hc t ht
    rw [hv]; rfl

/-! ### what a command carries; termination -/

/-- **The publish set a task sequence carries is complete** (audit C03 #1: the executor publishes ONLY what
`TaskSequence.publish` names, and the controller waits for the notices of ALL declared outputs). Every task sequence
ever commanded carries exactly the declared outputs of its task; the publish set the environment holds for a dispatched
task is that list; and the body of a queued task publishes precisely what its command named (`envRunSpec`) — which is
therefore everything. A controller that trims `publish` (the TODO at assign.py "trim for only the necessary ones")
without changing the completion rule leaves the model: its command differs from `actCmds`, and `envRunSpec` would no
longer announce the trimmed outputs. (Re-audit C03 #1: the THIRD conjunct, `envStepP = envRunSpec`, relates two definitions of the
model's environment to each other — it is model-internal and says nothing about the real executors; the content about the
controller is in the first two conjuncts.) -/
theorem c03_publish_complete (f : Sem) (j : Job) (cl : Cluster) (hw : cl.ids.Nodup) (s : Sys) (hr : Reachable f j cl s) :
    (∀ w t pb, Cmd.taskSeq w t pb ∈ s.env.log → pb = j.outputsOf t) ∧
    (∀ t, 1 ≤ s.env.dispatchedE t → s.env.pubOf t = j.outputsOf t) ∧
    (∀ w t, envStepP f j s.env (.run w t) = envRunSpec f j s.env w t) := by
  have h := invPub_reachable f j cl s hr
  exact ⟨h.log_pub, h.pub_of, fun w t => (envStepP_reachable f j cl hw s hr w t).1⟩

/-- **Every notice the completion rule waits for is really sent**: once the body of a task has run in the environment
that honours the publish set, each of its declared outputs has been stored on its host and its notice has been processed
or is on its way (so `all_outputs_published` eventually sees `len(output_schema)` notices). -/
theorem c03_all_notices_sent (f : Sem) (j : Job) (cl : Cluster) (wf : WF j cl) (s : Sys) (hr : Reachable f j cl s)
    (t : Task) (hran : s.env.ran t = true) (k : Nat) (hk : k < j.nOut t) :
    s.env.produced ⟨t, k⟩ = true ∧ (s.ctl.published ⟨t, k⟩ = true ∨ ∃ w, Event.pubW w ⟨t, k⟩ ∈ s.allEv) :=
  ⟨((invAll_reachable f j cl wf s hr).h2.produced_iff ⟨t, k⟩).mpr ⟨hran, hk⟩, (sL_reachable f j cl wf s hr).notice t hran k hk⟩

/-- **A controller step is always enabled** (audit C01 #1 / C03 #2: enabledness inside `assign()`): in every reachable
state of the extended system whose phase is neither `finished` nor `waiting` a step of the CONTROLLER (not of an
executor) is enabled — in particular inside `_assignment_heuristic`, where an admissible assignment exists whenever a
task and a worker are left: the worker is idle, the task computable, the GPU flags fit (partition of
`assign_within_component`) and the scan of `build_assignment` finds an `available` source for every input that needs
one, or raises. A state stuck inside `assign()` does not exist. -/
theorem c03_ctrl_step_enabled (f : Sem) (j : Job) (cl : Cluster) (cm : Comps) (wf : WF j cl) (wfc : WFC j cm) (x : SysX)
    (hr : ReachableX f j cl cm x) (hnf : x.sys.phase ≠ .finished) (hnw : x.sys.phase ≠ .waiting) :
    ∃ st x', stepX f j cl cm x st = some x' ∧ st.isEnv = false :=
  sT_ctrl_enabled f j cl cm wf wfc x hr hnf hnw

/-- **Deadlock freedom**: unless the loop has exited some step of the system is enabled. -/
theorem c03_deadlock_free (f : Sem) (j : Job) (cl : Cluster) (cm : Comps) (wf : WF j cl) (wfc : WFC j cm)
    (feas : Feasible j cl) (x : SysX) (hr : ReachableX f j cl cm x) (hnf : x.sys.phase ≠ .finished) :
    ∃ st x', stepX f j cl cm x st = some x' :=
  sT_deadlock_free f j cl cm wf wfc feas x hr hnf

/-- **A well-founded measure decreases at every step** — controller micro-step, scheduler control flow, executor step —
from every reachable state (`mu`, Lemmas/SchedTermC.lean: loop iterations left, phase, position inside `assign()`, work
left in the phase, |queued| + |outstanding|). -/
theorem c03_measure_decreases (f : Sem) (j : Job) (cl : Cluster) (cm : Comps) (wf : WF j cl) (wfc : WFC j cm)
    (feas : Feasible j cl) (x x' : SysX) (st : StepX) (hr : ReachableX f j cl cm x)
    (hs : stepX f j cl cm x st = some x') : lt7 (mu j x') (mu j x) :=
  sT_decreases f j cl cm wf wfc feas x x' st hr hs

/-- **No infinite execution**: no livelock, no endless spinning, no endless waiting — for any order and batching of
events and any admissible choice of the heuristics. -/
theorem c03_no_infinite_execution (f : Sem) (j : Job) (cl : Cluster) (cm : Comps) (wf : WF j cl) (wfc : WFC j cm)
    (feas : Feasible j cl) (σ : Nat → SysX) (h0 : ReachableX f j cl cm (σ 0))
    (hstep : ∀ n, ∃ st, stepX f j cl cm (σ n) st = some (σ (n + 1))) : False :=
  sT_no_infinite f j cl cm wf wfc feas σ h0 hstep

/-- **A feasible job always completes.** From every reachable state of the extended system the exit of the controller
loop is INEVITABLE (`Inev`: it has exited, or a step is enabled and after every enabled step the exit is inevitable) —
i.e. every maximal execution reaches `finished`. The fairness the property text asks of executors ("eventually report
every command they were given") is needed only in the weak form "an enabled step is eventually taken" (maximality):
the system has no infinite execution at all, so no scheduling of the enabled steps can starve anything. At `finished`
all tasks are completed, all requested outputs fetched and `shutdown` has been issued once (`c03_done`,
`c03_exit_clean`, `c03_shutdown_once`). -/
theorem c03_completes (f : Sem) (j : Job) (cl : Cluster) (cm : Comps) (wf : WF j cl) (wfc : WFC j cm)
    (feas : Feasible j cl) (x : SysX) (hr : ReachableX f j cl cm x) :
    Inev f j cl cm (fun y => y.sys.phase = .finished ∧ y.sys.shutdowns = 1 ∧
      (∀ t, t < j.tasks.length → y.sys.ctl.doneC t = true ∧ y.sys.env.ran t = true ∧ y.sys.env.dispatchedE t = 1) ∧
      (∀ ds, ds ∈ j.ext → (y.sys.ctl.outputs ds).isSome = true)) x := by
  refine (sT_inevitable f j cl cm wf wfc feas x hr).mono ?_ hr
  intro y hy hfin
  have hR := sL_reachableX_base f j cl cm y hy
  refine ⟨hfin, ?_, c03_done f j cl wf y.sys hR hfin, (c03_exit_clean f j cl y.sys hR hfin).2.2⟩
  have := c03_shutdown_once f j cl y.sys hR
  simp [hfin] at this
  exact this

/-- the same as a statement about executions: an execution from the initial state that takes an enabled step whenever
there is one reaches `finished` after finitely many steps -/
theorem c03_every_maximal_execution_finishes (f : Sem) (j : Job) (cl : Cluster) (cm : Comps) (wf : WF j cl)
    (wfc : WFC j cm) (feas : Feasible j cl) (σ : Nat → SysX) (h0 : σ 0 = SysX.init j cl cm)
    (hmax : ∀ n, (∃ st, stepX f j cl cm (σ n) st = some (σ (n + 1))) ∨
      ((∀ st, stepX f j cl cm (σ n) st = none) ∧ σ (n + 1) = σ n)) :
    ∃ n, (σ n).sys.phase = .finished :=
  sT_maximal_finishes f j cl cm wf wfc feas σ h0 hmax

/-! non-vacuity: a run of the EXTENDED system (one task, one worker, the output requested) through `assign()`'s control
flow (step II, migration, GPU call, CPU call), dispatch, execution, notice, fetch, payload, to `finished` in two
iterations; and the trimmed publish set: had the command named no output, the body would announce nothing -/
section
def exJobT : Job := { tasks := [{ nOut := 1, gpu := false, inputs := [] }], ext := [⟨0, 0⟩] }
def exClT : Cluster := { workers := [(⟨0, 0⟩, false)] }
def exSemT : Sem := fun t k args => s!"t{t}.{k}({args})"
def exCmT : Comps := { compOf := fun _ => 0, n := 1 }
def exStepsT : List StepX :=
  [.base .enter, .beginStepII, .migrate 0, .awcEnter, .hPhase2, .hEnd, .hPhase2, .base (.assign ⟨⟨0, 0⟩, 0, []⟩), .hEnd,
   .base .endAssign, .base .plan1, .base .endPlan, .base .endFlushF, .base .endFlush,
   .base (.env (.run ⟨0, 0⟩ 0)), .base (.recv [.pubW ⟨0, 0⟩ ⟨0, 0⟩]), .base .notify1, .base .endNotify,
   .base .enter, .base .endAssign, .base .endPlan, .base .flushF1, .base .endFlushF, .base .endFlush,
   .base (.env (.io 0)), .base (.recv [.payload ⟨0, 0⟩ "t0.0([])"]), .base .notify1, .base .endNotify, .base .enter]
example : ((runStepsX exSemT exJobT exClT exCmT (SysX.init exJobT exClT exCmT) exStepsT).map
    (fun x => (x.sys.phase, x.sys.ctl.outputs ⟨0, 0⟩, x.sys.env.viol))) = some (.finished, some "t0.0([])", []) := by
  decide
example : ((runStepsX exSemT exJobT exClT exCmT (SysX.init exJobT exClT exCmT) exStepsT).map
    (fun x => (x.sys.err, x.sch.schErr, x.sys.rounds, x.sys.shutdowns))) = some (none, none, 2, 1) := by
  decide
/-- the command of the run above carries the publish set {t0.0} -/
example : ((runStepsX exSemT exJobT exClT exCmT (SysX.init exJobT exClT exCmT) (exStepsT.take 9)).map
    (fun x => x.sys.env.log)) = some [Cmd.taskSeq ⟨0, 0⟩ 0 [⟨0, 0⟩]] := by
  decide
/-- an environment holding a TRIMMED publish set for a queued task: its body runs and announces nothing -/
example : ((envStepP exSemT exJobT { Env.init with queued := [(⟨0, 0⟩, 0)], pubOf := fun _ => [], trimmed := fun _ => true }
    (.run ⟨0, 0⟩ 0)).map (fun e => (e.pending, e.ran 0, e.produced ⟨0, 0⟩))) = some ([], true, false) := by
  decide
end

/-! ### non-vacuity: the LAST output's notice overtakes an earlier one

One worker, `t0` with three outputs, `t1 ← t0.1`, requested output `t1.0`. After the body of `t0` ran, the notice of its
LAST output (`t0.2`) is delivered first, in a batch of its own. The controller records it and does NOT mark `t0` complete
(before the repair it did: it then dropped `t0` from `ongoing`, and a later iteration could exit or spin with `t1` never
run); the task stays in flight and its worker busy. After the notices of `t0.0` and `t0.1` have arrived — again out of
order — the task is complete, `t1` is computable and the worker idle. -/
section
def exJobO : Job := { tasks := [{ nOut := 3, gpu := false, inputs := [] }, { nOut := 1, gpu := false, inputs := [⟨0, 1⟩] }], ext := [⟨1, 0⟩] }
def exClO : Cluster := { workers := [(⟨0, 0⟩, false)] }
def exSemO : Sem := fun t k args => s!"t{t}.{k}({args})"
def exStepsO1 : List Step :=
  [.enter, .assign ⟨⟨0, 0⟩, 0, []⟩, .endAssign, .plan1, .endPlan, .endFlushF, .endFlush, .env (.run ⟨0, 0⟩ 0),
   .recv [.pubW ⟨0, 0⟩ ⟨0, 2⟩], .notify1, .endNotify]
def exStepsO2 : List Step :=
  exStepsO1 ++ [.enter, .endAssign, .endPlan, .endFlushF, .endFlush, .recv [.pubW ⟨0, 0⟩ ⟨0, 1⟩, .pubW ⟨0, 0⟩ ⟨0, 0⟩], .notify1]
def exStepsO3 : List Step := exStepsO2 ++ [.notify1, .endNotify]

/-- after the overtaking last notice alone: recorded, announced, task NOT done, still ongoing, worker not idle, nothing
computable, and the notices of the two earlier outputs still on their way -/
example : ((runSteps exSemO exJobO exClO (Sys.init exJobO exClO) exStepsO1).map (fun s =>
    (s.ctl.published ⟨0, 2⟩, s.ctl.announced ⟨0, 2⟩, s.ctl.doneC 0, s.ctl.ongoing))) =
    some (true, true, false, [(⟨0, 0⟩, 0)]) := by
  decide
example : ((runSteps exSemO exJobO exClO (Sys.init exJobO exClO) exStepsO1).map (fun s =>
    (s.ctl.idle, s.ctl.computable, s.ctl.remaining, s.env.pending))) =
    some ([], [], 2, [.pubW ⟨0, 0⟩ ⟨0, 0⟩, .pubW ⟨0, 0⟩ ⟨0, 1⟩]) := by
  decide

/-- two of three notices processed (`t0.2`, then `t0.1`): the consumer `t1` is already computable, `t0` still not done -/
example : ((runSteps exSemO exJobO exClO (Sys.init exJobO exClO) exStepsO2).map (fun s =>
    (s.ctl.doneC 0, s.ctl.ongoing, s.ctl.computable, s.inbox))) =
    some (false, [(⟨0, 0⟩, 0)], [1], [.pubW ⟨0, 0⟩ ⟨0, 0⟩]) := by
  decide

/-- all three processed: done, worker idle again, one task remaining -/
example : ((runSteps exSemO exJobO exClO (Sys.init exJobO exClO) exStepsO3).map (fun s =>
    (s.ctl.doneC 0, s.ctl.ongoing, s.ctl.idle, s.ctl.computable))) =
    some (true, [], [⟨0, 0⟩], [1]) := by
  decide
example : ((runSteps exSemO exJobO exClO (Sys.init exJobO exClO) exStepsO3).map (fun s => (s.ctl.remaining, s.err))) =
    some (1, none) := by
  decide

/-- the first batch is not a per-producer FIFO delivery: the liveness theorems above cover it nevertheless -/
example : Reachable exSemO exJobO exClO ((runSteps exSemO exJobO exClO (Sys.init exJobO exClO) exStepsO1).get (by decide)) := by
  have key : ∀ (l : List Step) (s s' : Sys), Reachable exSemO exJobO exClO s →
      runSteps exSemO exJobO exClO s l = some s' → Reachable exSemO exJobO exClO s' := by
    intro l
    induction l with
    | nil => intro s s' hr h; simp only [runSteps, Option.some.injEq] at h; subst h; exact hr
    | cons st l ih =>
      intro s s' hr h
      simp only [runSteps] at h
      cases hst : step exSemO exJobO exClO s st with
      | none => simp [hst] at h
      | some s1 => simp only [hst] at h; exact ih s1 s' (Reachable.step s s1 st hr hst) h
  exact key exStepsO1 _ _ Reachable.init (Option.eq_some_of_isSome _)
end


/-! ### the hypotheses, discharged or decided (re-audit C01 #1, C03 #1) -/

/-- **The component map `precompute` yields satisfies `WFC`** — the hypothesis `WFC j cm` of every theorem about the
extended system is not an assumption about a free parameter: for the `JobInstance` a well-formed `Ctrl.Job` stands for
(`toPresched`, any assignment of positional/keyword sink inputs `key`) the components of C16's `precompute`, numbered as
`initialize` numbers them (`preComps`), put both ends of every edge into the same component and every task into some component
(from `c16_partition` and `c16_closed`). -/
theorem c03_precompute_comps_wellformed (j : Job) (cl : Cluster) (wf : WF j cl) (key : Task → Ds → Presched.Key) :
    WFC j (preComps j key) :=
  preComps_wfc j cl wf key

/-- **The static preschedule tables are total — for every job of the controller model** (the statement of
`c03_heuristic_tables_total` transported along `toPresched`): whatever keys the edges carry, `distance_matrix[a][b]` and
`value[t]` are defined for all tasks `a`, `b`, `t` of one component of the preschedule of a well-formed `Ctrl.Job`. -/
theorem c03_heuristic_tables_total_job (j : Job) (cl : Cluster) (wf : WF j cl) (key : Task → Ds → Presched.Key) :
    ∀ c ∈ (Presched.precompute (toPresched j key)).components,
      (∀ a ∈ c.nodes, ∀ b ∈ c.nodes, (c.distance a b).isSome = true) ∧ (∀ t ∈ c.nodes, (c.valueOf t).isSome = true) :=
  c03_heuristic_tables_total (toPresched j key) (toPresched_wf j cl wf key) (toPresched_dag j cl wf key)

/-- **A feasible job always completes — hypotheses decided, component map computed.** `c03_completes` for the component map
of `precompute`, with `WF` and `Feasible` replaced by the Bool checks the drivers evaluate on every replayed input
(`wfCheck`, `feasCheck`): no hypothesis is left that is not either computed from the job or decided on it. -/
theorem c03_completes_checked (f : Sem) (j : Job) (cl : Cluster) (key : Task → Ds → Presched.Key)
    (hwf : wfCheck j cl = true) (hfeas : feasCheck j cl = true) (x : SysX) (hr : ReachableX f j cl (preComps j key) x) :
    Inev f j cl (preComps j key) (fun y => y.sys.phase = .finished ∧ y.sys.shutdowns = 1 ∧
      (∀ t, t < j.tasks.length → y.sys.ctl.doneC t = true ∧ y.sys.env.ran t = true ∧ y.sys.env.dispatchedE t = 1) ∧
      (∀ ds, ds ∈ j.ext → (y.sys.ctl.outputs ds).isSome = true)) x :=
  c03_completes f j cl (preComps j key) (wfCheck_sound j cl hwf) (preComps_wfc j cl (wfCheck_sound j cl hwf) key)
    (feasCheck_sound j cl hfeas) x hr

/-- non-vacuity: the checks hold of the example job (`exJobO`: a 3-output task feeding a second task) and the component map
computed for it by `precompute` is the one-component map -/
example : wfCheck exJobO exClO = true ∧ feasCheck exJobO exClO = true := by decide
example : wfcCheck exJobO (preComps exJobO (fun _ _ => .kw "x")) = true := by decide
example : (preComps exJobO (fun _ _ => .kw "x")).n = 1 ∧ (preComps exJobO (fun _ _ => .kw "x")).compOf 1 = 0 := by decide

end EkwVerif.Ctrl
