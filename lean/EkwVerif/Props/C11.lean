/-
C11 — graph transformations preserve the computation the graph denotes.

Model: Model/Graph.lean.  A graph is its list of nodes in a topological order plus sink indices;
`den` is the term over payloads a node denotes (by recursion along the order).  All theorems are
unbounded: any number of nodes, any names / input names / output names, shared sub-expressions,
multi-output nodes, several sinks.  `Graph.WF` states what Python's `Node(...)`/`get_output`
guarantee by construction (inputs refer to declared outputs of existing, earlier nodes; input
names are dict keys).
-/
import EkwVerif.Lemmas.GraphExpand
import EkwVerif.Lemmas.GraphFuse
import EkwVerif.Lemmas.GraphExpandVal
import EkwVerif.Lemmas.GraphFuseTotal
import EkwVerif.Lemmas.GraphReorder
import EkwVerif.Lemmas.GraphFuseM
import EkwVerif.Lemmas.GraphJoin

namespace EkwVerif.Graph
open Aux

/-! ### examples used for non-vacuity -/

/-- `a` (outputs x,y) feeds `b` twice and `c`; `b`,`c` duplicates up to input order; two sinks. -/
def exG : Graph :=
  { nodes := [ { name := "a".toList, outputs := ["x".toList, "y".toList], payload := 1, inputs := [] },
               { name := "b".toList, outputs := [defaultOutput], payload := 2,
                 inputs := [("p".toList, (0, "x".toList)), ("q".toList, (0, "y".toList))] },
               { name := "c".toList, outputs := [defaultOutput], payload := 2,
                 inputs := [("q".toList, (0, "y".toList)), ("p".toList, (0, "x".toList))] },
               { name := "name".toList, outputs := [], payload := 3,
                 inputs := [("node".toList, (1, defaultOutput)), ("n".toList, (2, defaultOutput))] },
               { name := "w".toList, outputs := [], payload := 3,
                 inputs := [("node".toList, (2, defaultOutput)), ("n".toList, (1, defaultOutput))] } ],
    sinks := [3, 4] }

theorem exG_wf : exG.WF := ⟨by decide, by decide⟩

/-! ### the traversal of `Transformer.transform` itself -/

/-- TERMINATION of the generic traversal.  For every well-formed graph (a finite object graph whose
nodes are listed in ANY order in which inputs refer to earlier entries, e.g. creation order), the
`while todo:` loop of `Transformer.transform` stops after at most `|sinks| + 2·|nodes|` iterations
(`visitOrder` runs the loop with exactly this bound and does not run out of it), and the order `ord` in
which it finishes nodes — hands them to the callbacks — lists every node reachable from the sinks, and
only those, exactly once, each after all the nodes its inputs refer to. -/
theorem c11_traverse_terminates (g : Graph) (h : g.WF) :
    ∃ ord, visitOrder g = some ord ∧ ord.Nodup ∧ (∀ i, i ∈ ord ↔ Reach g.nodes g.sinks i) ∧
      ∀ i ∈ ord, ∀ n, g.nodes[i]? = some n → ∀ x ∈ n.inputs, x.2.1 ∈ ord ∧ ord.idxOf x.2.1 < ord.idxOf i := by
  obtain ⟨ord, h1, h2, h3, h4⟩ := visit_result g h
  have hord := ordOK_of_topo g.nodes ord h2
  refine ⟨ord, h1, hord.nodup, fun i => ⟨h4 i, fun hr => ?_⟩, ?_⟩
  · induction hr with
    | root hs => exact h3 _ hs
    | input _ hn hx ih =>
      obtain ⟨n', hn', hp⟩ := hord.closed _ ih
      rw [hn] at hn'; cases hn'
      exact (hp _ hx).1
  · intro i hi n hn x hx
    obtain ⟨n', hn', hp⟩ := hord.closed i hi
    rw [hn] at hn'; cases hn'
    exact hp x hx

/-- The graph as the callbacks see it — its nodes re-listed in finishing order (`reorder`), which is the
list all other C11 theorems are about — is well formed, its sinks denote the same terms and, under every
interpretation, have the same values as the sinks of the graph the traversal started from. -/
theorem c11_traverse_reorder (g : Graph) (h : g.WF) :
    ∃ ord, visitOrder g = some ord ∧ (reorder g ord).WF ∧ (reorder g ord).sinkDen = g.sinkDen ∧
      ∀ {V : Type} (I : Interp V), ∀ s ∈ g.sinks, eval I (reorder g ord).nodes (ord.idxOf s) = eval I g.nodes s := by
  obtain ⟨ord, h1, h2, h3, _⟩ := visit_result g h
  have hord := ordOK_of_topo g.nodes ord h2
  refine ⟨ord, h1, reorder_wf g h ord hord h3, ?_, ?_⟩
  · simp only [Graph.sinkDen, reorder, List.map_map]
    apply List.map_congr_left
    intro s hs
    exact den_reorder g.nodes h.nodes ord hord s (h3 s hs)
  · intro V I s hs
    exact eval_reorder I g.nodes h.nodes ord hord s (h3 s hs)

/-- `asVisited` (what every driver run and every other theorem starts from) of a well-formed graph listed
in any order is well formed and its sinks denote the same terms. -/
theorem c11_traverse_as_visited (g : Graph) (h : g.WF) : (asVisited g).WF ∧ (asVisited g).sinkDen = g.sinkDen := by
  obtain ⟨ord, h1, h2, h3, _⟩ := c11_traverse_reorder g h
  simp only [asVisited, h1]
  exact ⟨h2, h3⟩

/-- non-vacuity: `exG` is listed in an order that is NOT the finishing order; the loop finishes its five
nodes in the order a, c, b, w, name within the bound of 12 iterations -/
example : visitOrder exG = some [0, 2, 1, 4, 3] := by decide
example := c11_traverse_terminates exG exG_wf
example := c11_traverse_reorder exG exG_wf

/-! ### copy -/

/-- `copy_graph` succeeds on every graph and every sink of the copy denotes the same term as the
corresponding sink of the input. -/
theorem c11_copy (g : Graph) (h : g.WF) :
    ∃ g', copyGraph g = .ok g' ∧ g'.sinkDen = g.sinkDen := by
  exact ⟨g, copy_id g h, rfl⟩

/-- The copy is structurally identical (same nodes, names, payloads, outputs, wiring, sinks). -/
theorem c11_copy_iso (g : Graph) (h : g.WF) : copyGraph g = .ok g := copy_id g h

example : ∃ g', copyGraph exG = .ok g' ∧ g'.sinkDen = exG.sinkDen := c11_copy exG exG_wf
example : copyGraph exG = .ok exG := by rfl

/-! ### rename -/

/-- `rename_nodes f` succeeds for EVERY renaming function (injective or not), every sink denotes
the same term, and the result is the input with `f` applied to the names: inputs are re-wired to
the renamed parents, nothing else changes. -/
theorem c11_rename (f : Name → Name) (g : Graph) (h : g.WF) :
    ∃ g', renameGraph f g = .ok g' ∧ g'.sinkDen = g.sinkDen ∧
      g'.nodes = g.nodes.map (renameNode f) ∧ g'.sinks = g.sinks := by
  refine ⟨_, rename_eq f g h, ?_, rfl, rfl⟩
  simp [Graph.sinkDen, den_rename]

example : ∃ g', renameGraph (fun s => "main.".toList ++ s) exG = .ok g' ∧ g'.sinkDen = exG.sinkDen ∧
    g'.nodes = exG.nodes.map (renameNode fun s => "main.".toList ++ s) ∧ g'.sinks = exG.sinks :=
  c11_rename _ exG exG_wf

/-! ### `Graph.__add__` and `join_namespaced` -/

/-- `g1 + g2` is well formed and its sinks denote the sinks of `g1` followed by the sinks of `g2`. -/
theorem c11_add (g1 g2 : Graph) (h1 : g1.WF) (h2 : g2.WF) :
    (addGraphs g1 g2).WF ∧ (addGraphs g1 g2).sinkDen = g1.sinkDen ++ g2.sinkDen :=
  ⟨wf_add g1 g2 h1 h2, sinkDen_add g1 g2 h1.sinks⟩

/-- `join_namespaced(ns1=g1, ns2=g2, …)` succeeds for every non-empty family of well-formed graphs and any namespaces; the
result is well formed and its sinks denote, in order, what the sinks of `g1`, `g2`, … denote. -/
theorem c11_join (p : Name × Graph) (rest : List (Name × Graph)) (h : ∀ q ∈ p :: rest, q.2.WF) :
    ∃ g', joinNamespaced (p :: rest) = .ok g' ∧ g'.WF ∧ g'.sinkDen = (p :: rest).flatMap (fun q => q.2.sinkDen) := by
  obtain ⟨r, hr, hrwf, hrden, _⟩ := renameNs_spec p (h p (by simp))
  obtain ⟨g', hg', hwf', hden'⟩ := join_fold rest (fun q hq => h q (by simp [hq])) r hrwf
  refine ⟨g', by simp only [joinNamespaced, hr]; exact hg', hwf', ?_⟩
  rw [hden', hrden]; simp

example := c11_join ("left".toList, exG) [("right".toList, exG)] (by intro q hq; simp at hq; rcases hq with rfl | rfl <;> exact exG_wf)
example : (match joinNamespaced [("l".toList, exG), ("r".toList, exG)] with
    | .ok g' => (g'.nodes.length, g'.sinks, (g'.nodes.map fun (n : Node) => String.ofList n.name).take 2) | .error _ => (0, [], [])) =
    (10, [3, 4, 8, 9], ["l.a", "l.b"]) := by decide

/-! ### deduplicate -/

/-- Equal payload, outputs and inputs (as dicts: per input name the same output of the same node). -/
def SameKey (m n : Node) : Prop :=
  m.payload = n.payload ∧ m.outputs = n.outputs ∧ ∀ k, m.inputs.lookup k = n.inputs.lookup k

/-- `deduplicate_nodes` succeeds and the SET of sink terms is unchanged (sinks are collected in a
Python set, so equal sinks merge).  For any predicate that is reflexive and implies equal payloads
(`same_payload` is one). -/
theorem c11_dedup_den (pred : Node → Node → Bool) (hr : ∀ a, pred a a = true)
    (hp : ∀ a b, pred a b = true → a.payload = b.payload) (g : Graph) (h : g.WF) :
    ∃ g', dedupGraph pred g = .ok g' ∧ g'.WF ∧ ∀ t, t ∈ g'.sinkDen ↔ t ∈ g.sinkDen := by
  obtain ⟨out, done, ⟨hwf, hsim, hdis⟩, hres⟩ := dedup_result pred hr hp g h
  refine ⟨_, hres, ⟨hwf, ?_⟩, ?_⟩
  · intro s hs
    rw [mem_uniq] at hs
    obtain ⟨s0, hs0, rfl⟩ := List.mem_map.1 hs
    obtain ⟨m, hm, _⟩ := sim_sink hsim s0 (h.sinks s0 hs0)
    exact (List.getElem?_eq_some_iff.1 hm).1
  · intro t
    simp only [Graph.sinkDen, List.mem_map, mem_uniq]
    constructor
    · rintro ⟨s, ⟨s0, hs0, rfl⟩, rfl⟩
      obtain ⟨_, _, hd⟩ := sim_sink hsim s0 (h.sinks s0 hs0)
      exact ⟨s0, hs0, hd.symm⟩
    · rintro ⟨s0, hs0, rfl⟩
      obtain ⟨_, _, hd⟩ := sim_sink hsim s0 (h.sinks s0 hs0)
      exact ⟨_, ⟨s0, hs0, rfl⟩, hd⟩

/-- **De-duplication, sink by sink.**  `c11_dedup_den` compares the SETS of sink terms; this is the
"corresponding sink" form of the property: there is one image map `img` (node of the input ↦ node of
the result) such that every node's image has the same outputs and denotes the same term, the sinks
of the result are exactly the images of the input's sinks (collected without repetition, as the
Python set does), so every sink of the input has ITS image among the result's sinks with the same
term, and every sink of the result is the image of a sink of the input. -/
theorem c11_dedup_sinks (pred : Node → Node → Bool) (hr : ∀ a, pred a a = true)
    (hp : ∀ a b, pred a b = true → a.payload = b.payload) (g : Graph) (h : g.WF) :
    ∃ (g' : Graph) (img : List Nat), dedupGraph pred g = .ok g' ∧ img.length = g.nodes.length ∧
      g'.sinks = uniq (g.sinks.map (img.getD · 0)) ∧
      (∀ (i : Nat) (n : Node), g.nodes[i]? = some n →
        ∃ m, g'.nodes[img.getD i 0]? = some m ∧ m.outputs = n.outputs ∧ den g'.nodes (img.getD i 0) = den g.nodes i) ∧
      (∀ s ∈ g.sinks, img.getD s 0 ∈ g'.sinks ∧ den g'.nodes (img.getD s 0) = den g.nodes s) ∧
      (∀ t ∈ g'.sinks, ∃ s ∈ g.sinks, t = img.getD s 0) := by
  obtain ⟨out, done, ⟨hwf, hsim, hdis⟩, hres⟩ := dedup_result pred hr hp g h
  refine ⟨_, done, hres, hsim.1, rfl, ?_, ?_, ?_⟩
  · intro i n hn
    obtain ⟨t, m, h1, h2, h3, h4⟩ := hsim.2 i n hn
    have : done.getD i 0 = t := by simp [List.getD_eq_getElem?_getD, h1]
    exact ⟨m, by rw [this]; exact h2, h3, by rw [this]; exact h4⟩
  · intro s hs
    refine ⟨?_, (sim_sink hsim s (h.sinks s hs)).choose_spec.2⟩
    show done.getD s 0 ∈ uniq (g.sinks.map (done.getD · 0))
    rw [mem_uniq]
    exact List.mem_map.2 ⟨s, hs, rfl⟩
  · intro t ht
    have ht' : t ∈ uniq (g.sinks.map (done.getD · 0)) := ht
    rw [mem_uniq] at ht'
    obtain ⟨s, hs, rfl⟩ := List.mem_map.1 ht'
    exact ⟨s, hs, rfl⟩

/-- After de-duplication no two nodes have equal payload, outputs and inputs (for a predicate that
holds whenever the payloads are equal, e.g. `same_payload`). -/
theorem c11_dedup_unique (pred : Node → Node → Bool) (hr : ∀ a, pred a a = true)
    (hp : ∀ a b, pred a b = true → a.payload = b.payload) (hc : ∀ a b, a.payload = b.payload → pred a b = true)
    (g : Graph) (h : g.WF) :
    ∃ g', dedupGraph pred g = .ok g' ∧
      ∀ (a b : Nat) (m n : Node), g'.nodes[a]? = some m → g'.nodes[b]? = some n → SameKey m n → a = b := by
  obtain ⟨out, done, ⟨hwf, hsim, hdis⟩, hres⟩ := dedup_result pred hr hp g h
  refine ⟨_, hres, ?_⟩
  intro a b m n hm hn hk
  have key : ∀ (a b : Nat) (m n : Node), a < b → out[a]? = some m → out[b]? = some n → SameKey n m → False := by
    intro a b m n hab hm hn ⟨h1, h2, h3⟩
    have := hdis a b m n hab hm hn
    have hnd := (wf_get out hwf b n hn).1
    simp [sameNode, h2, hc _ _ h1, sameInputs_of_lookup _ _ hnd h3] at this
  rcases Nat.lt_trichotomy a b with hab | hab | hab
  · exact (key a b m n hab hm hn ⟨hk.1.symm, hk.2.1.symm, fun k => (hk.2.2 k).symm⟩).elim
  · exact hab
  · exact (key b a n m hab hn hm hk).elim

/-- `c11_dedup_unique` for ANY duplicate predicate (also those that do not hold for all equal payloads, such as the
`payload+name` predicates the correspondence check runs, for which `hc` fails): after de-duplication no two nodes are
duplicates in the code's own sense - equal outputs, equal inputs, and `pred(later, earlier)` (the orientation in which
`__find_node` asks: the node being visited against a node already kept). -/
theorem c11_dedup_unique_pred (pred : Node → Node → Bool) (hr : ∀ a, pred a a = true)
    (hp : ∀ a b, pred a b = true → a.payload = b.payload) (g : Graph) (h : g.WF) :
    ∃ g', dedupGraph pred g = .ok g' ∧
      ∀ (a b : Nat) (m n : Node), a < b → g'.nodes[a]? = some m → g'.nodes[b]? = some n →
        n.outputs = m.outputs → (∀ k, n.inputs.lookup k = m.inputs.lookup k) → pred n m = false := by
  obtain ⟨out, done, ⟨hwf, hsim, hdis⟩, hres⟩ := dedup_result pred hr hp g h
  refine ⟨_, hres, ?_⟩
  intro a b m n hab hm hn ho hi
  have := hdis a b m n hab hm hn
  have hnd := (wf_get out hwf b n hn).1
  simpa [sameNode, ho, sameInputs_of_lookup _ _ hnd hi] using this

/-- De-duplication is idempotent: a second run returns its input unchanged. -/
theorem c11_dedup_idem (pred : Node → Node → Bool) (hr : ∀ a, pred a a = true)
    (hp : ∀ a b, pred a b = true → a.payload = b.payload) (g : Graph) (h : g.WF) :
    ∃ g', dedupGraph pred g = .ok g' ∧ dedupGraph pred g' = .ok g' := by
  obtain ⟨out, done, ⟨hwf, hsim, hdis⟩, hres⟩ := dedup_result pred hr hp g h
  refine ⟨_, hres, dedup_fixpoint pred hr out hwf hdis _ ?_⟩
  intro t ht
  obtain ⟨s0, hs0, rfl⟩ := List.mem_map.1 ht
  obtain ⟨m, hm, _⟩ := sim_sink hsim s0 (h.sinks s0 hs0)
  exact (List.getElem?_eq_some_iff.1 hm).1

theorem samePayload_refl : ∀ a, samePayload a a = true := by simp [samePayload]
theorem samePayload_sound : ∀ a b, samePayload a b = true → a.payload = b.payload := by simp [samePayload]
theorem samePayload_complete : ∀ a b, a.payload = b.payload → samePayload a b = true := by simp [samePayload]

example : ∃ g', dedupGraph samePayload exG = .ok g' ∧ g'.WF ∧ ∀ t, t ∈ g'.sinkDen ↔ t ∈ exG.sinkDen :=
  c11_dedup_den _ samePayload_refl samePayload_sound exG exG_wf
example := c11_dedup_sinks _ samePayload_refl samePayload_sound exG exG_wf
-- a predicate for which `hc` fails (equal payloads with different names are no duplicates): `c11_dedup_unique_pred` applies
example := c11_dedup_unique_pred (fun a b => a.payload == b.payload && a.name == b.name) (by simp)
  (by intro a b hab; simp only [Bool.and_eq_true, beq_iff_eq] at hab; exact hab.1) exG exG_wf
/-- the example really merges: 5 nodes, 2 sinks become 3 nodes, 1 sink -/
example : (match dedupGraph samePayload exG with | .ok g' => (g'.nodes.length, g'.sinks.length) | .error _ => (0, 0)) = (3, 1) := by
  decide

/-! ### split -/

/-- Every node is a sink or consumed by another node (true of every Python `Graph`: its nodes are
those reachable from the sinks). -/
def Graph.AllUsed (g : Graph) : Prop :=
  ∀ i, i < g.nodes.length → i ∈ g.sinks ∨ ∃ n ∈ g.nodes, ∃ x ∈ n.inputs, x.2.1 = i

/-- `split_graph` succeeds for every key function, and every node of the input has exactly one image
in the result — carrying its name, payload and outputs — which belongs (is reachable from the sinks
of) the part of key `k` iff `k` is the node's key.  Images of different nodes are different. -/
theorem c11_split_partition (key : Node → Nat) (cutName : CutEdge → Name) (g : Graph) (h : g.WF) (hu : g.AllUsed) :
    ∃ (r : SplitResult) (ts : List Nat), splitGraph key cutName g = .ok r ∧ ts.length = g.nodes.length ∧
      (∀ (i j t : Nat), ts[i]? = some t → ts[j]? = some t → i = j) ∧
      ∀ (i : Nat) (n : Node), g.nodes[i]? = some n → ∃ t m, ts[i]? = some t ∧ r.nodes[t]? = some m ∧
        m.name = n.name ∧ m.payload = n.payload ∧ m.outputs = n.outputs ∧ ∀ k, InPart r k t ↔ k = key n := by
  obtain ⟨s, done, hinv, hres⟩ := split_result key cutName g h
  refine ⟨_, done.map (·.2), hres, by simp [hinv.doneLen], ?_, ?_⟩
  · intro i j t hi hj
    simp only [List.getElem?_map, Option.map_eq_some_iff] at hi hj
    obtain ⟨a, ha, rfl⟩ := hi
    obtain ⟨b, hb, hab⟩ := hj
    exact hinv.inj i j a b ha hb hab.symm
  · -- the parts after `Splitter.graph`
    have hpairs : ∀ p ∈ g.sinks.map (done.getD · (0, 0)), s.owner[p.2]? = some p.1 := by
      intro p hp
      obtain ⟨i, hi, rfl⟩ := List.mem_map.1 hp
      have hlt := h.sinks i hi
      obtain ⟨t, m, h1, _, h3, _⟩ := hinv.img i g.nodes[i] (List.getElem?_eq_getElem hlt)
      simp [List.getD_eq_getElem?_getD, h1, h3]
    have howned := addSinks_owned s.owner s.sinks _ hinv.sinv.sinksOwned hpairs
    have hcov : ∀ (t : Nat) (m : Node), s.out[t]? = some m →
        (∃ k l, (k, l) ∈ addSinks s.sinks (g.sinks.map (done.getD · (0, 0))) ∧ t ∈ l) ∨
        (∃ (c : Nat) (n : Node), s.out[c]? = some n ∧ ∃ x ∈ n.inputs, x.2.1 = t) := by
      intro t m hm
      rcases hinv.cov t m hm with (⟨k, l, hl⟩ | hc) | ⟨i, k, hik, hpend⟩
      · obtain ⟨l', hl'⟩ := addSinks_keep s.sinks _ k t ⟨l, hl⟩
        exact Or.inl ⟨k, l', hl'⟩
      · exact Or.inr hc
      · have hi : i < g.nodes.length := by rw [← hinv.doneLen]; exact (List.getElem?_eq_some_iff.1 hik).1
        rcases hu i hi with hs | ⟨n, hn, x, hx, hxi⟩
        · left
          have : (k, t) ∈ g.sinks.map (done.getD · (0, 0)) :=
            List.mem_map.2 ⟨i, hs, by simp [List.getD_eq_getElem?_getD, hik]⟩
          obtain ⟨l, hl⟩ := addSinks_new s.sinks _ (k, t) this
          exact ⟨k, l, hl⟩
        · exact absurd hxi (hpend n hn x hx)
    have hin : ∀ (fuel t : Nat), s.out.length - t ≤ fuel → t < s.out.length → ∀ k, s.owner[t]? = some k →
        InPart { nodes := s.out, owner := s.owner, cuts := s.cuts,
                 parts := addSinks s.sinks (g.sinks.map (done.getD · (0, 0))) } k t := by
      intro fuel
      induction fuel with
      | zero => intro t h1 h2; omega
      | succ fuel ih =>
        intro t h1 h2 k hk
        rcases hcov t s.out[t] (List.getElem?_eq_getElem h2) with ⟨k', l, hl, htl⟩ | ⟨c, n, hn, x, hx, hxt⟩
        · have := howned (k', l) hl t htl
          rw [hk] at this; cases this
          exact ⟨l, hl, Reach.root htl⟩
        · have hct : t < c := by
            have := nodeOK_lt (wf_get s.out hinv.sinv.wf c n hn) x hx
            rw [List.length_take] at this; omega
          have hclt := (List.getElem?_eq_some_iff.1 hn).1
          have hoc : s.owner[c]? = some k := by
            rw [← hinv.sinv.closed c n hn x hx, hxt]; exact hk
          obtain ⟨l, hl, hr⟩ := ih c (by omega) hclt k hoc
          exact ⟨l, hl, hxt ▸ Reach.input hr hn hx⟩
    intro i n hn
    obtain ⟨t, m, h1, h2, h3, h4⟩ := hinv.img i n hn
    refine ⟨t, m, by simp [h1], h2, h4.1, h4.2.2.1, h4.2.1, ?_⟩
    intro k
    constructor
    · rintro ⟨l, hl, hr⟩
      have := reach_owner s.out s.owner l k hinv.sinv.closed (fun j hj => howned (k, l) hl j hj) t hr
      rw [h3] at this; cases this; rfl
    · rintro rfl
      exact hin _ t (Nat.le_refl _) (List.getElem?_eq_some_iff.1 h2).1 _ h3

/-- key and cut-name functions for the examples -/
def exKey (n : Node) : Nat := match n.payload with | .atom k => k % 2 | _ => 0
def exCutName (c : CutEdge) : Name :=
  "__cut_".toList ++ c.sourceNode ++ "_".toList ++ c.destNode ++ "_".toList ++ c.destInput ++ "__".toList

theorem exG_allUsed : exG.AllUsed := by unfold Graph.AllUsed; decide

example := c11_split_partition exKey exCutName exG exG_wf exG_allUsed
/-- the example really cuts: 3 cut edges, two parts -/
example : (match splitGraph exKey exCutName exG with | .ok r => (r.cuts.length, r.parts.length, r.nodes.length) | .error _ => (0, 0, 0))
    = (8, 2, 21) := by decide

/-- Re-joining along the reported cut edges (as a consumer of `split_graph` does it, by NAME): an
input that is connected to a node named like a reported cut is the source half of that cut; it is
re-connected to output `source_output` of the node named `source_node`. -/
def rejoinInput (cutName : CutEdge → Name) (nodes : List Node) (cuts : List CutEdge) (x : Name × Ref) : Name × Ref :=
  match nodes[x.2.1]? with
  | none => x
  | some p =>
    match cuts.find? (fun c => cutName c == p.name) with
    | none => x
    | some c =>
      match nodes.findIdx? (fun m => m.name == c.sourceNode) with
      | none => x
      | some j => (x.1, (j, c.sourceOutput))

def rejoin (cutName : CutEdge → Name) (r : SplitResult) : List Node :=
  r.nodes.map fun n => { n with inputs := n.inputs.map (rejoinInput cutName r.nodes r.cuts) }

theorem map_eq_of_pointwise {α β : Type} (f : α → β) (ys : List α) (zs : List β) (hlen : ys.length = zs.length)
    (h : ∀ (p : Nat) (y : α) (z : β), ys[p]? = some y → zs[p]? = some z → f y = z) : ys.map f = zs := by
  induction ys generalizing zs with
  | nil => cases zs with | nil => rfl | cons _ _ => simp at hlen
  | cons y ys ih =>
    cases zs with
    | nil => simp at hlen
    | cons z zs =>
      simp only [List.map_cons]
      rw [h 0 y z (by simp) (by simp), ih zs (by simpa using hlen)
        (fun p y' z' hy hz => h (p + 1) y' z' (by simpa using hy) (by simpa using hz))]

/-- Re-joining the parts along the reported cut edges gives back the original: the images of the
input's nodes, with the cut inputs re-connected, are the input's nodes with the wiring carried over
(`remap ts`); every other node of the parts is a half of a reported cut; the sinks of the parts are
the images of the input's sinks plus cut halves; and every image denotes what the original denotes.
Node names are unique and differ from cut names; cut names are injective (they are hashes). -/
theorem c11_split_rejoin (key : Node → Nat) (cutName : CutEdge → Name) (g : Graph) (h : g.WF)
    (hnd : (g.nodes.map (·.name)).Nodup) :
    ∃ (r : SplitResult) (ts : List Nat), splitGraph key cutName g = .ok r ∧ ts.length = g.nodes.length ∧
      ((∀ c ∈ r.cuts, ∀ c' ∈ r.cuts, cutName c = cutName c' → c = c') →
       (∀ c ∈ r.cuts, ∀ n ∈ g.nodes, cutName c ≠ n.name) →
      (∀ (i : Nat) (n : Node), g.nodes[i]? = some n →
        ∃ t, ts[i]? = some t ∧ (rejoin cutName r)[t]? = some { n with inputs := remap ts n.inputs }) ∧
      (∀ (t : Nat) (m : Node), r.nodes[t]? = some m → t ∈ ts ∨ ∃ c ∈ r.cuts, m.name = cutName c) ∧
      (∀ s ∈ g.sinks, ∃ k l, (k, l) ∈ r.parts ∧ ts.getD s 0 ∈ l) ∧
      (∀ (k : Nat) (l : List Nat) (t : Nat), (k, l) ∈ r.parts → t ∈ l →
        t ∈ g.sinks.map (ts.getD · 0) ∨ ∃ c ∈ r.cuts, ∃ m, r.nodes[t]? = some m ∧ m.name = cutName c) ∧
      (∀ i, i < g.nodes.length → den (rejoin cutName r) (ts.getD i 0) = den g.nodes i)) := by
  have hnames : ∀ (i j : Nat) (a b : Node), g.nodes[i]? = some a → g.nodes[j]? = some b → a.name = b.name → i = j := by
    intro i j a b ha hb hab
    obtain ⟨hi, rfl⟩ := List.getElem?_eq_some_iff.1 ha
    obtain ⟨hj, rfl⟩ := List.getElem?_eq_some_iff.1 hb
    have := (List.getElem_inj (i := i) (j := j) (h₀ := by simpa using hi) (h₁ := by simpa using hj) hnd).1 (by simpa using hab)
    exact this
  obtain ⟨s, done, hinv, hsc, hres⟩ := split_result' key cutName g h
  refine ⟨_, done.map (·.2), hres, by simp [hinv.doneLen], ?_⟩
  intro hinj hcut
  dsimp only at hinj hcut
  have hsk : ∀ x ∈ g.sinks, x < done.length := by
    intro x hx; rw [hinv.doneLen]; exact h.sinks x hx
  -- position of the image of node i
  have hts : ∀ (i : Nat) (b : Nat × Nat), done[i]? = some b → (done.map (·.2))[i]? = some b.2 := by
    intro i b hb; simp [hb]
  have htsD : ∀ (i : Nat) (b : Nat × Nat), done[i]? = some b → (done.map (·.2)).getD i 0 = b.2 := by
    intro i b hb; simp [List.getD_eq_getElem?_getD, hb]
  -- names in the store: an image has the name of its original, everything else a cut name
  have hname : ∀ (t : Nat) (m : Node), s.out[t]? = some m →
      (∃ (i : Nat) (n : Node), g.nodes[i]? = some n ∧ done[i]? = some (key n, t) ∧ m.name = n.name) ∨
      (∃ c ∈ s.cuts, m.name = cutName c) := by
    intro t m hm
    rcases hinv.tagged t m hm with ⟨i, k, hik⟩ | hc
    · have hi : i < g.nodes.length := by rw [← hinv.doneLen]; exact (List.getElem?_eq_some_iff.1 hik).1
      obtain ⟨t', m', h1, h2, _, h4⟩ := hinv.img i g.nodes[i] (List.getElem?_eq_getElem hi)
      rw [hik] at h1; cases h1
      rw [hm] at h2; cases h2
      exact Or.inl ⟨i, _, List.getElem?_eq_getElem hi, hik, h4.1⟩
    · exact Or.inr hc
  -- an input connected to an image is left alone; one connected to a cut source is re-connected
  have hkeep : ∀ (y : Name × Ref) (pj : Node) (pm : Node), pj ∈ g.nodes → s.out[y.2.1]? = some pm → pm.name = pj.name →
      rejoinInput cutName s.out s.cuts y = y := by
    intro y pj pm hpj hpm hn
    have : s.cuts.find? (fun c => cutName c == pm.name) = none := by
      rw [List.find?_eq_none]
      intro c hc
      simp [hn, hcut c hc pj hpj]
    simp [rejoinInput, hpm, this]
  have hfind : ∀ (i : Nat) (n : Node) (t : Nat), g.nodes[i]? = some n → done[i]? = some (key n, t) →
      s.out.findIdx? (fun m => m.name == n.name) = some t := by
    intro i n t hn hd
    obtain ⟨t', m', h1, h2, _, h4⟩ := hinv.img i n hn
    dsimp only at h1 h2
    rw [hd] at h1; cases h1
    rw [List.findIdx?_eq_some_iff_getElem]
    have hlt := (List.getElem?_eq_some_iff.1 h2).1
    refine ⟨hlt, ?_, ?_⟩
    · have : s.out[t] = m' := by
        have := List.getElem?_eq_getElem hlt; rw [this] at h2; exact Option.some.inj h2
      simp [this, h4.1]
    · intro j hj
      have hjm : s.out[j]? = some s.out[j] := List.getElem?_eq_getElem (by omega)
      rcases hname j _ hjm with ⟨i', n', hn', hd', hnm⟩ | ⟨c, hcm, hnm⟩
      · intro heq
        have heq' : n'.name = n.name := by simpa [hnm] using heq
        have hii := hnames i' i n' n hn' hn heq'
        subst hii
        rw [hn] at hn'; cases hn'
        rw [hd] at hd'
        have : t = j := by cases hd'; rfl
        omega
      · simp [hnm, hcut c (by assumption) n (List.mem_of_getElem? hn)]
  have hiso : ∀ (i : Nat) (n : Node), g.nodes[i]? = some n → ∃ t, (done.map (·.2))[i]? = some t ∧
      (rejoin cutName { nodes := s.out, owner := s.owner, cuts := s.cuts,
                        parts := addSinks s.sinks (g.sinks.map (done.getD · (0, 0))) })[t]? =
        some { n with inputs := remap (done.map (·.2)) n.inputs } := by
    intro i n hn
    obtain ⟨t, m, h1, h2, _, hm1, hm2, hm3, hm4, hm5⟩ := hinv.img i n hn
    dsimp only at h1 h2 hm5
    refine ⟨t, hts i _ h1, ?_⟩
    simp only [rejoin, List.getElem?_map, h2, Option.map_some]
    congr 1
    suffices hsuff : m.inputs.map (rejoinInput cutName s.out s.cuts) = remap (done.map (·.2)) n.inputs by
      rw [hsuff, hm1, hm2, hm3]
    have : m.inputs.map (rejoinInput cutName s.out s.cuts) = remap (done.map (·.2)) n.inputs := by
      apply map_eq_of_pointwise
      · simp [remap, hm4]
      · intro p y z hy hz
        have hz' : ∃ x, n.inputs[p]? = some x ∧ z = (x.1, ((done.map (·.2)).getD x.2.1 0, x.2.2)) := by
          simp only [remap, List.getElem?_map, Option.map_eq_some_iff] at hz
          obtain ⟨x, hx, rfl⟩ := hz
          exact ⟨x, hx, rfl⟩
        obtain ⟨x, hx, rfl⟩ := hz'
        obtain ⟨hy1, pj, tj, hpj, hdj, hcase⟩ := hm5 p x y hx hy
        rw [htsD _ _ hdj]
        obtain ⟨tj', pm, h1', h2', _, h4'⟩ := hinv.img _ _ hpj
        rw [hdj] at h1'; cases h1'
        rcases hcase with ⟨_, hy2⟩ | ⟨_, hyo, hsrc, hcin, _⟩
        · have hyy : y = (x.1, (tj, x.2.2)) := Prod.ext hy1 hy2
          rw [hyy]
          exact hkeep _ pj pm (List.mem_of_getElem? hpj) h2' h4'.1
        · have hfc : ∃ c', s.cuts.find? (fun c => cutName c ==
                (cutSource (cutName ⟨key pj, pj.name, x.2.2, key n, n.name, x.1⟩)).name) = some c' := by
            cases hf : s.cuts.find? (fun c => cutName c ==
                (cutSource (cutName ⟨key pj, pj.name, x.2.2, key n, n.name, x.1⟩)).name) with
            | some c' => exact ⟨c', rfl⟩
            | none =>
              rw [List.find?_eq_none] at hf
              have := hf _ hcin
              simp [cutSource] at this
          obtain ⟨c', hc'⟩ := hfc
          have hc'eq : c' = ⟨key pj, pj.name, x.2.2, key n, n.name, x.1⟩ := by
            have := List.find?_some hc'
            simp [cutSource] at this
            exact hinj _ (List.mem_of_find?_eq_some hc') _ hcin this
          have hfi := hfind _ pj tj hpj hdj
          simp only [rejoinInput, hsrc, hc', hc'eq, hfi]
          rw [hy1]
    exact this
  refine ⟨hiso, ?_, ?_, ?_, ?_⟩
  · -- everything else is a cut half
    intro t m hm
    rcases hinv.tagged t m hm with ⟨i, k, hik⟩ | hc
    · exact Or.inl (List.mem_of_getElem? (hts i _ hik))
    · exact Or.inr hc
  · -- images of the sinks are sinks of their part
    intro x hx
    have hlt := h.sinks x hx
    obtain ⟨t, m, h1, _⟩ := hinv.img x g.nodes[x] (List.getElem?_eq_getElem hlt)
    have : (key g.nodes[x], t) ∈ g.sinks.map (done.getD · (0, 0)) :=
      List.mem_map.2 ⟨x, hx, by simp [List.getD_eq_getElem?_getD, h1]⟩
    obtain ⟨l, hl⟩ := addSinks_new s.sinks _ _ this
    exact ⟨_, l, by rw [htsD _ _ h1]; exact hl⟩
  · -- the sinks of the parts
    intro k l t hl ht
    rcases addSinks_mem s.sinks _ k t ⟨l, hl, ht⟩ with ⟨l', hl', ht'⟩ | hp
    · right
      obtain ⟨c, hc, m, hm, hn⟩ := hsc (k, l') hl' t ht'
      exact ⟨c, hc, m, hm, hn⟩
    · left
      obtain ⟨x, hx, hxe⟩ := List.mem_map.1 hp
      have hlt := hsk x hx
      refine List.mem_map.2 ⟨x, hx, ?_⟩
      have hd : done[x]? = some (k, t) := by
        rw [List.getElem?_eq_getElem hlt]
        simp only [List.getD_eq_getElem?_getD, List.getElem?_eq_getElem hlt, Option.getD_some] at hxe
        rw [hxe]
      exact htsD _ _ hd
  · -- denotation
    apply den_of_iso g.nodes _ (done.map (·.2)) h.nodes
    · intro i j a b hij ha hb
      simp only [List.getElem?_map, Option.map_eq_some_iff] at ha hb
      obtain ⟨a', ha', rfl⟩ := ha
      obtain ⟨b', hb', rfl⟩ := hb
      exact hinv.mono i j a' b' hij ha' hb'
    · exact hiso

/-- non-vacuity: for the example graph the hypotheses on the reported cuts hold, so every image in the
re-joined parts denotes what the original node denotes -/
example : ∃ (r : SplitResult) (ts : List Nat), splitGraph exKey exCutName exG = .ok r ∧
    ∀ i, i < exG.nodes.length → den (rejoin exCutName r) (ts.getD i 0) = den exG.nodes i := by
  obtain ⟨r, ts, hres, _, H⟩ := c11_split_rejoin exKey exCutName exG exG_wf (by decide)
  refine ⟨r, ts, hres, ?_⟩
  have hr : r = (match splitGraph exKey exCutName exG with | .ok r => r | .error _ => ⟨[], [], [], []⟩) := by
    rw [hres]
  exact (H (by rw [hr]; decide) (by rw [hr]; decide)).2.2.2.2

/-! ### expand -/

/-- Expansion wires every consumer to the right place.  Whenever `expand_graph` returns (for ANY
expander, sub-graphs, input and output maps, node names — in particular names sharing characters
with their parent), there is an image `img` of the input's nodes such that

* a node the expander leaves alone has an image node with its name, payload, outputs and input
  names, and each input `(k ↦ output o of parent j)` is connected (`WiredInput`)
  - to output `o` of the image of `j`, if `j` is not expanded,
  - to the DEFAULT output of the transformed copy of the sub-graph sink named
    `selectedLeaf e o` (= `output_map.get(o, o)`), if `j` is expanded with `e`; that copy is
    called `j.name + "." + leaf`, carries the sink's payload and has a default output;
* an expanded node is replaced by a `_Subgraph` whose `leaves` are exactly such copies, filed under
  the sink's own name (this is where `removeprefix` is needed, see `c11_lstrip_witness`);
* the image of every sink is a sink of the result; of an expanded sink, all leaves and all inner
  sinks are (the terminal-node fix). -/
theorem c11_expand_wiring (ex : Node → Option Expansion) (g g' : Graph) (h : expandGraph ex g = .ok g') :
    ∃ img : List XNode, img.length = g.nodes.length ∧
      (∀ (i : Nat) (n : Node), g.nodes[i]? = some n → ∃ t, img[i]? = some t ∧ XImg ex g.nodes g'.nodes img n t) ∧
      (∀ s ∈ g.sinks, ∃ t, img[s]? = some t ∧
        match t with
        | .node ti => ti ∈ g'.sinks
        | .sub sg => (∀ p ∈ sg.leaves, p.2 ∈ g'.sinks) ∧ ∀ l ∈ sg.innerSinks, l ∈ g'.sinks) := by
  simp only [expandGraph, transform] at h
  cases hrun : run (expander ex) [] g.nodes with
  | error e => simp [hrun] at h
  | ok st =>
    simp only [hrun] at h
    cases hsk : sinksOf st.2 g.sinks with
    | error e => simp [hsk] at h
    | ok ts =>
      simp only [hsk, expandFin] at h
      cases h
      have hinv := expand_run ex g.nodes st hrun
      refine ⟨st.2, hinv.1, hinv.2, ?_⟩
      intro s hs
      obtain ⟨p, hp, hsp⟩ := List.getElem_of_mem hs
      obtain ⟨t, ht, hf⟩ := mapE_ok_get _ _ _ hsk p s (by rw [List.getElem?_eq_getElem hp, hsp])
      cases hd : st.2[s]? with
      | none => simp [hd] at hf
      | some t' =>
        simp only [hd] at hf
        have htt : t' = t := by injection hf
        subst htt
        refine ⟨t', rfl, ?_⟩
        have hmem : t' ∈ ts := List.mem_of_getElem? ht
        cases t' with
        | node ti =>
          simp only [List.mem_flatMap]
          exact ⟨.node ti, hmem, by simp⟩
        | sub sg =>
          simp only [List.mem_flatMap]
          refine ⟨fun q hq => ⟨.sub sg, hmem, ?_⟩, fun l hl => ⟨.sub sg, hmem, ?_⟩⟩
          · simp only [List.mem_append, List.mem_map]
            exact Or.inl ⟨q, hq, rfl⟩
          · simp only [List.mem_append]
            exact Or.inr hl

/-- The special case spelled out: the consumer of an expanded node. -/
theorem c11_expand_consumer (ex : Node → Option Expansion) (g g' : Graph) (h : expandGraph ex g = .ok g')
    (i : Nat) (n : Node) (hn : g.nodes[i]? = some n) (hex : ex n = none)
    (p : Nat) (k o : Name) (j : Nat) (hx : n.inputs[p]? = some (k, (j, o)))
    (pj : Node) (hpj : g.nodes[j]? = some pj) (e : Expansion) (he : ex pj = some e) :
    ∃ (ti : Nat) (m : Node) (l : Nat) (leaf : Node) (q : Nat) (mq : Node),
      g'.nodes[ti]? = some m ∧ m.name = n.name ∧ m.payload = n.payload ∧ m.outputs = n.outputs ∧
      m.inputs[p]? = some (k, (l, defaultOutput)) ∧
      g'.nodes[l]? = some leaf ∧ leaf.name = pj.name ++ ['.'] ++ selectedLeaf e o ∧ defaultOutput ∈ leaf.outputs ∧
      q ∈ e.sub.sinks ∧ e.sub.nodes[q]? = some mq ∧ mq.name = selectedLeaf e o ∧ leaf.payload = mq.payload := by
  obtain ⟨img, hlen, himg, _⟩ := c11_expand_wiring ex g g' h
  obtain ⟨t, ht, hx'⟩ := himg i n hn
  unfold XImg at hx'
  simp only [hex] at hx'
  obtain ⟨ti, m, _, h2, h3, h4, h5, h6, h7⟩ := hx'
  have hplt : p < m.inputs.length := by rw [h6]; exact (List.getElem?_eq_some_iff.1 hx).1
  obtain ⟨hy1, pj', hpj', hcase⟩ := h7 p _ m.inputs[p] hx (List.getElem?_eq_getElem hplt)
  simp only at hpj'
  rw [hpj] at hpj'; cases hpj'
  rcases hcase with ⟨hnone, _⟩ | ⟨e', he', q, mq, m', a1, a2, a3, a4, a5, a6, a7, a8⟩
  · rw [he] at hnone; cases hnone
  · rw [he] at he'; cases he'
    refine ⟨ti, m, m.inputs[p].2.1, m', q, mq, h2, h3, h4, h5, ?_, a5, by simpa [prefixed, prefixOf] using a6, a8, a1, a2, a3, a7⟩
    rw [List.getElem?_eq_getElem hplt]
    congr 1
    exact Prod.ext hy1 (Prod.ext rfl a4)

/-- non-vacuity, on the witness of the `lstrip` defect: node `main` is expanded into `i -> mean`, the
output map selects `mean`; the consumer `w` ends up connected to `main.mean`. -/
def exX : Graph :=
  { nodes := [ { name := "src".toList, outputs := [defaultOutput], payload := 1, inputs := [] },
               { name := "main".toList, outputs := [defaultOutput], payload := 2, inputs := [("i".toList, (0, defaultOutput))] },
               { name := "w".toList, outputs := [], payload := 3, inputs := [("x".toList, (1, defaultOutput))] } ],
    sinks := [2] }

def exExp (n : Node) : Option Expansion :=
  if n.name = "main".toList then
    some { sub := { nodes := [ { name := "i".toList, outputs := [defaultOutput], payload := 4, inputs := [] },
                               { name := "mean".toList, outputs := [], payload := 5, inputs := [("x".toList, (0, defaultOutput))] } ],
                    sinks := [1] },
           inputMap := none, outputMap := some [(defaultOutput, "mean".toList)] }
  else none

def exXResult : Graph :=
  { nodes := [ { name := "src".toList, outputs := [defaultOutput], payload := 1, inputs := [] },
               { name := "main.i".toList, outputs := [defaultOutput], payload := 4, inputs := [(inputName, (0, defaultOutput))] },
               { name := "main.mean".toList, outputs := [defaultOutput], payload := 5, inputs := [("x".toList, (1, defaultOutput))] },
               { name := "w".toList, outputs := [], payload := 3, inputs := [("x".toList, (2, defaultOutput))] } ],
    sinks := [3] }

theorem exX_expands : expandGraph exExp exX = .ok exXResult := by rfl

example := c11_expand_wiring exExp exX exXResult exX_expands
example := c11_expand_consumer exExp exX exXResult exX_expands 2 _ rfl rfl 0 _ _ 1 rfl _ rfl _ rfl

/-! ### expand: total correctness, the wiring inside the spliced sub-graph, values -/

/-- membership in the sinks `_Expander.graph` collects -/
theorem mem_xSinks (done : List XNode) (sinks : List Nat) (s : Nat) :
    s ∈ xSinks (sinks.map (done.getD · (.node 0))) ↔
      ∃ s0 ∈ sinks, match done.getD s0 (.node 0) with
        | .node i => s = i
        | .sub sg => s ∈ sg.leaves.map (·.2) ∨ s ∈ sg.innerSinks := by
  simp only [xSinks, List.mem_flatMap, List.mem_map]
  constructor
  · rintro ⟨t, ⟨s0, hs0, rfl⟩, hst⟩
    refine ⟨s0, hs0, ?_⟩
    generalize done.getD s0 (.node 0) = t at hst ⊢
    cases t with
    | node i => simpa using hst
    | sub sg => simpa using hst
  · rintro ⟨s0, hs0, hst⟩
    refine ⟨_, ⟨s0, hs0, rfl⟩, ?_⟩
    generalize done.getD s0 (.node 0) = t at hst ⊢
    cases t with
    | node i => simpa using hst
    | sub sg => simpa using hst

/-- (Stated for `Splicer` subclasses with overridden `splice_source` / `splice_sink` satisfying `SpliceOK`; the methods of
`Splicer` itself are the instance `defaultSplice`, see `c11_expand_total`.)
TOTAL correctness of `expand_graph`: on every well-formed graph, for every expander whose answers
are in the (decidable) domain `expandOK` — each sub-graph is a graph, an explicit input map names only
inputs the node has, every CONSUMED output of an expanded node selects a sub-graph sink that gets or has
a default output — the transformation returns; the result is well formed (no dangling input, every
input refers to a declared output of an EARLIER node: acyclic; sinks exist) and its nodes are named
exactly `expNames`: a kept node keeps its name, a spliced node is called `<node>.<sub-graph node>`. -/
theorem c11_expand_total_custom (f : SpliceFns) (hf : SpliceOK f) (ex : Node → Option Expansion) (g : Graph) (h : g.WF)
    (hok : expandOK ex g.nodes = true) :
    ∃ g', expandGraphW f ex g = .ok g' ∧ g'.WF ∧ g'.nodes.map (·.name) = g.nodes.flatMap (expNames ex) := by
  obtain ⟨out, done, hinv, hres⟩ := expand_result f hf (fun _ _ _ => ()) ex g h hok (expandSound_unit f ex g.nodes)
  refine ⟨_, hres, ⟨hinv.wf, ?_⟩, hinv.names⟩
  intro s hs
  obtain ⟨s0, hs0, hst⟩ := (mem_xSinks done g.sinks s).1 hs
  have hlt := h.sinks s0 hs0
  have hn : g.nodes[s0]? = some g.nodes[s0] := List.getElem?_eq_getElem hlt
  cases he : ex g.nodes[s0] with
  | none =>
    obtain ⟨ti, m, h1, h2, _⟩ := hinv.node s0 _ hn he
    simp only [List.getD_eq_getElem?_getD, h1, Option.getD_some] at hst
    subst hst
    exact (List.getElem?_eq_some_iff.1 h2).1
  | some e =>
    obtain ⟨sg, h1, base, ins, _, _, _, hblk, _, hent, hinn⟩ := hinv.block s0 _ e hn he
    obtain ⟨_, hsk, _⟩ := nodeExpOK_spec ((expandOK_spec hok).1 _ (List.getElem_mem hlt) e he)
    simp only [List.getD_eq_getElem?_getD, h1, Option.getD_some] at hst
    have hq : ∀ q ∈ e.sub.sinks, base + q < out.length := by
      intro q hq
      have hql := hsk q hq
      exact (List.getElem?_eq_some_iff.1 (hblk q _ (List.getElem?_eq_getElem hql))).1
    rcases hst with hst | hst
    · obtain ⟨p, hp, rfl⟩ := List.mem_map.1 hst
      obtain ⟨q, hqm, hpq⟩ := hent p hp
      rw [hpq]; exact hq q hqm
    · rw [hinn] at hst
      obtain ⟨q, hqm, rfl⟩ := List.mem_map.1 hst
      exact hq q (List.mem_filter.1 hqm).1

/-- THE WIRING INSIDE A SPLICED SUB-GRAPH, exactly.  On the domain of `c11_expand_total` the result of
`expand_graph` is described by an image `img` of the input's nodes:

* a kept node has an image with its name, payload and outputs, whose inputs are (`InsOf`) the node's
  inputs, each connected to what `get_output` of the image of its parent returns — `Node.get_output`
  for a kept parent, `_Subgraph.get_output` (the default output of the selected leaf) for an expanded one;
* an expanded node `n ↦ e` is replaced (`BlockAt`) by the block of store nodes
  `base, base+1, …` = `e.sub.nodes.map (splicedNodeW f cfg base)` with
  `cfg.inputs = cfgInputs ins e.inputMap` (`ins` = the re-wired inputs of `n`, as above):
  sub-graph node `q` is called `n.name.<name>`, keeps its payload; a SOURCE whose name the input map
  (or, without one, an equally named input of `n`) connects to input `k` becomes a processor with the
  single input `"input"` = the re-wired input `k` of `n`; every other node keeps its inputs, re-pointed
  into the block (`shiftIns base`); a proper SINK whose name the output map selects gets the default
  output; the `_Subgraph` files under the leaf name selected for each output `o` the LAST sub-graph
  sink of that name (`leafOf e o`), all leaves are sub-graph sinks, the inner sinks are exactly the
  sinks whose name is not selected;
* the sinks are the images of the sinks: of an expanded sink all leaves and inner sinks. -/
theorem c11_expand_inner_wiring_custom (f : SpliceFns) (hf : SpliceOK f) (ex : Node → Option Expansion) (g : Graph) (h : g.WF)
    (hok : expandOK ex g.nodes = true) :
    ∃ (g' : Graph) (img : List XNode), expandGraphW f ex g = .ok g' ∧ img.length = g.nodes.length ∧
      (∀ (i : Nat) (n : Node), g.nodes[i]? = some n → ex n = none →
        ∃ ti m, img[i]? = some (.node ti) ∧ g'.nodes[ti]? = some m ∧ m.name = n.name ∧ m.payload = n.payload ∧
          m.outputs = n.outputs ∧ InsOf g'.nodes img n.inputs m.inputs) ∧
      (∀ (i : Nat) (n : Node) (e : Expansion), g.nodes[i]? = some n → ex n = some e →
        ∃ sg, img[i]? = some (.sub sg) ∧ BlockAt f g'.nodes img n e sg) ∧
      g'.sinks = xSinks (g.sinks.map (img.getD · (.node 0))) := by
  obtain ⟨out, done, hinv, hres⟩ := expand_result f hf (fun _ _ _ => ()) ex g h hok (expandSound_unit f ex g.nodes)
  refine ⟨_, done, hres, hinv.len, ?_, hinv.block, rfl⟩
  intro i n hn he
  obtain ⟨ti, m, h1, h2, h3, h4, h5, h6, _⟩ := hinv.node i n hn he
  exact ⟨ti, m, h1, h2, h3, h4, h5, h6⟩

/-- EXPANSION PRESERVES WHAT THE GRAPH COMPUTES, at full strength: for every interpretation `I` of
the payloads, every graph, every expander in the domain whose sub-graphs denote the nodes they
replace (`ExpandSound`: in every environment for the node's inputs, with the sub-graph's mapped sources
fed per input map, the default output of the leaf selected for output `o` carries what the node computes
at `o`), `expand_graph` returns a well-formed graph in which

* every kept node — in particular every kept sink, whose image is a sink of the result — has an image
  with the same name, payload, outputs and the SAME VALUE at every output;
* for every expanded sink and each of its outputs that selects a usable leaf, that leaf is a sink of
  the result and its default output carries the value of that output in the input graph. -/
theorem c11_expand_value_custom {V : Type} (f : SpliceFns) (hf : SpliceOK f) (I : Interp V) (ex : Node → Option Expansion)
    (g : Graph) (h : g.WF) (hok : expandOK ex g.nodes = true) (hs : ExpandSoundW f I ex g.nodes) :
    ∃ g', expandGraphW f ex g = .ok g' ∧ g'.WF ∧
      (∀ (i : Nat) (n : Node), g.nodes[i]? = some n → ex n = none →
        ∃ t m, g'.nodes[t]? = some m ∧ m.name = n.name ∧ m.payload = n.payload ∧ m.outputs = n.outputs ∧
          eval I g'.nodes t = eval I g.nodes i ∧ (i ∈ g.sinks → t ∈ g'.sinks)) ∧
      (∀ s ∈ g.sinks, ∀ (n : Node) (e : Expansion), g.nodes[s]? = some n → ex n = some e →
        ∀ o ∈ n.outputs, leafOK e o = true →
          ∃ l ∈ g'.sinks, storeEnv I g'.nodes (l, defaultOutput) = storeEnv I g.nodes (s, o)) := by
  obtain ⟨g', hres', hwf', _⟩ := c11_expand_total_custom f hf ex g h hok
  obtain ⟨out, done, hinv, hres⟩ := expand_result f hf I ex g h hok hs
  rw [hres] at hres'
  cases hres'
  refine ⟨_, hres, hwf', ?_, ?_⟩
  · intro i n hn he
    obtain ⟨ti, m, h1, h2, h3, h4, h5, _, h7⟩ := hinv.node i n hn he
    refine ⟨ti, m, h2, h3, h4, h5, h7, ?_⟩
    intro hi
    refine (mem_xSinks done g.sinks ti).2 ⟨i, hi, ?_⟩
    simp [List.getD_eq_getElem?_getD, h1]
  · intro s hsk n e hn he o ho hl
    obtain ⟨t, y, h1, h2, h3⟩ := hinv.outv s n hn o ho (fun e' he' => by rw [he] at he'; cases he'; exact hl)
    obtain ⟨sg, h1', _⟩ := hinv.block s n e hn he
    rw [h1] at h1'; cases h1'
    simp only [xOutput, subgraphOutput] at h2
    cases hl1 : sg.outputMap.lookup o with
    | none => simp [hl1] at h2
    | some lname =>
      simp only [hl1] at h2
      cases hl2 : sg.leaves.lookup lname with
      | none => simp [hl2] at h2
      | some l =>
        simp only [hl2] at h2
        obtain ⟨rfl, _⟩ := nodeOutput_ok h2
        refine ⟨l, (mem_xSinks done g.sinks l).2 ⟨s, hsk, ?_⟩, h3.1⟩
        simp only [List.getD_eq_getElem?_getD, h1, Option.getD_some]
        exact Or.inl (List.mem_map.2 ⟨(lname, l), mem_of_lookup hl2, rfl⟩)

/-- **An expanded sink is wired to the sub-graph leaf the output map selects, and that leaf carries the value —
with the leaf fixed BEFORE the interpretation** (in `c11_expand_value_custom` the witness `l` stands under `∀ I` and
is only said to be some sink).  There are a result `g'` and ONE image list `img` (what `_Expander` did to each node:
the image of `c11_expand_inner_wiring_custom`) such that for every expanded sink `s` the image is a `_Subgraph` `sg`
whose block of store nodes is the spliced sub-graph (`BlockAt`: `sg.outputMap` is the code's output map for `n`,
`sg.leaves` maps each selected leaf name to its store index), and for every output `o` of `n` that a consumer can see
(`leafOK`) the leaf `l = sg.leaves[sg.outputMap[o]]` is a sink of `g'` and, under EVERY interpretation `I` for which
the expander is sound, the default output of `l` has the value of output `o` of `s` in the input graph. -/
theorem c11_expand_leaf_value_custom (f : SpliceFns) (hf : SpliceOK f) (ex : Node → Option Expansion)
    (g : Graph) (h : g.WF) (hok : expandOK ex g.nodes = true) :
    ∃ (g' : Graph) (img : List XNode), expandGraphW f ex g = .ok g' ∧ img.length = g.nodes.length ∧
      g'.sinks = xSinks (g.sinks.map (img.getD · (.node 0))) ∧
      ∀ (s : Nat) (n : Node) (e : Expansion), s ∈ g.sinks → g.nodes[s]? = some n → ex n = some e →
        ∃ sg, img[s]? = some (.sub sg) ∧ BlockAt f g'.nodes img n e sg ∧
          ∀ o ∈ n.outputs, leafOK e o = true →
            ∃ lname l, sg.outputMap.lookup o = some lname ∧ sg.leaves.lookup lname = some l ∧ l ∈ g'.sinks ∧
              ∀ {V : Type} (I : Interp V), ExpandSoundW f I ex g.nodes →
                storeEnv I g'.nodes (l, defaultOutput) = storeEnv I g.nodes (s, o) := by
  obtain ⟨⟨out, done⟩, hrun, hinvU⟩ :=
    expandV_run f hf (fun _ _ _ => ()) ex g.nodes h.nodes hok (expandSound_unit f ex g.nodes)
  have hsk : ∀ x ∈ g.sinks, x < done.length := by
    intro x hx; rw [hinvU.len]; exact h.sinks x hx
  have hres : expandGraphW f ex g = .ok { nodes := out, sinks := xSinks (g.sinks.map (done.getD · (.node 0))) } := by
    simp only [expandGraphW, transform, hrun, sinksOf_total done (.node 0) g.sinks hsk]
    rfl
  refine ⟨_, done, hres, hinvU.len, rfl, ?_⟩
  intro s n e hs' hn he
  obtain ⟨sg, h1, hb⟩ := hinvU.block s n e hn he
  refine ⟨sg, h1, hb, ?_⟩
  intro o ho hl
  obtain ⟨t, y, h1', h2, _⟩ := hinvU.outv s n hn o ho (fun e' he' => by rw [he] at he'; cases he'; exact hl)
  rw [h1] at h1'; cases h1'
  simp only [xOutput, subgraphOutput] at h2
  cases hl1 : sg.outputMap.lookup o with
  | none => simp [hl1] at h2
  | some lname =>
    simp only [hl1] at h2
    cases hl2 : sg.leaves.lookup lname with
    | none => simp [hl2] at h2
    | some l =>
      refine ⟨lname, l, rfl, hl2, ?_, ?_⟩
      · refine (mem_xSinks done g.sinks l).2 ⟨s, hs', ?_⟩
        simp only [List.getD_eq_getElem?_getD, h1, Option.getD_some]
        exact Or.inl (List.mem_map.2 ⟨(lname, l), mem_of_lookup hl2, rfl⟩)
      · intro V I hsnd
        obtain ⟨st', hrun', hinv⟩ := expandV_run f hf I ex g.nodes h.nodes hok hsnd
        rw [hrun] at hrun'
        cases hrun'
        obtain ⟨t', y', h1'', h2', h3⟩ := hinv.outv s n hn o ho (fun e' he' => by rw [he] at he'; cases he'; exact hl)
        rw [h1] at h1''; cases h1''
        simp only [xOutput, subgraphOutput, hl1, hl2] at h2'
        obtain ⟨rfl, _⟩ := nodeOutput_ok h2'
        exact h3.1

/-- Names stay unique as far as the code can guarantee it: if the input's node names are unique and
contain no `'.'`, and each sub-graph's node names are unique, the node names of the result are unique. -/
theorem c11_expand_names_custom (f : SpliceFns) (hf : SpliceOK f) (ex : Node → Option Expansion) (g : Graph) (h : g.WF)
    (hok : expandOK ex g.nodes = true)
    (hn : (g.nodes.map (·.name)).Nodup) (hdot : ∀ n ∈ g.nodes, '.' ∉ n.name)
    (hsub : ∀ n ∈ g.nodes, ∀ e, ex n = some e → (e.sub.nodes.map (·.name)).Nodup) :
    ∃ g', expandGraphW f ex g = .ok g' ∧ (g'.nodes.map (·.name)).Nodup := by
  obtain ⟨g', hres, _, hnames⟩ := c11_expand_total_custom f hf ex g h hok
  exact ⟨g', hres, hnames ▸ expNames_nodup ex g.nodes hn hdot hsub⟩


/-! the same for `Splicer` itself (`expand_graph(expand, graph)` with the default splicer) -/

/-- `c11_expand_total_custom` for the default `Splicer`. -/
theorem c11_expand_total (ex : Node → Option Expansion) (g : Graph) (h : g.WF) (hok : expandOK ex g.nodes = true) :
    ∃ g', expandGraph ex g = .ok g' ∧ g'.WF ∧ g'.nodes.map (·.name) = g.nodes.flatMap (expNames ex) :=
  c11_expand_total_custom defaultSplice spliceOK_default ex g h hok

/-- `c11_expand_inner_wiring_custom` for the default `Splicer` (`splicedNodeW defaultSplice = splicedNode`: a mapped source
becomes `Node(name, s.outputs, s.payload, input=…)`, a selected sink `Node(name, None, s.payload, **inputs)`). -/
theorem c11_expand_inner_wiring (ex : Node → Option Expansion) (g : Graph) (h : g.WF) (hok : expandOK ex g.nodes = true) :
    ∃ (g' : Graph) (img : List XNode), expandGraph ex g = .ok g' ∧ img.length = g.nodes.length ∧
      (∀ (i : Nat) (n : Node), g.nodes[i]? = some n → ex n = none →
        ∃ ti m, img[i]? = some (.node ti) ∧ g'.nodes[ti]? = some m ∧ m.name = n.name ∧ m.payload = n.payload ∧
          m.outputs = n.outputs ∧ InsOf g'.nodes img n.inputs m.inputs) ∧
      (∀ (i : Nat) (n : Node) (e : Expansion), g.nodes[i]? = some n → ex n = some e →
        ∃ sg, img[i]? = some (.sub sg) ∧ BlockAt defaultSplice g'.nodes img n e sg) ∧
      g'.sinks = xSinks (g.sinks.map (img.getD · (.node 0))) :=
  c11_expand_inner_wiring_custom defaultSplice spliceOK_default ex g h hok

/-- `c11_expand_value_custom` for the default `Splicer`: EXPANSION PRESERVES WHAT THE GRAPH COMPUTES. -/
theorem c11_expand_value {V : Type} (I : Interp V) (ex : Node → Option Expansion) (g : Graph) (h : g.WF)
    (hok : expandOK ex g.nodes = true) (hs : ExpandSound I ex g.nodes) :
    ∃ g', expandGraph ex g = .ok g' ∧ g'.WF ∧
      (∀ (i : Nat) (n : Node), g.nodes[i]? = some n → ex n = none →
        ∃ t m, g'.nodes[t]? = some m ∧ m.name = n.name ∧ m.payload = n.payload ∧ m.outputs = n.outputs ∧
          eval I g'.nodes t = eval I g.nodes i ∧ (i ∈ g.sinks → t ∈ g'.sinks)) ∧
      (∀ s ∈ g.sinks, ∀ (n : Node) (e : Expansion), g.nodes[s]? = some n → ex n = some e →
        ∀ o ∈ n.outputs, leafOK e o = true →
          ∃ l ∈ g'.sinks, storeEnv I g'.nodes (l, defaultOutput) = storeEnv I g.nodes (s, o)) :=
  c11_expand_value_custom defaultSplice spliceOK_default I ex g h hok ((expandSoundW_default I ex g.nodes).2 hs)

/-- `c11_expand_leaf_value_custom` for the default `Splicer`: the consumer-visible outputs of an expanded sink ARE the
leaves the output map selects (one leaf per output, fixed by the graph and the expander alone), and they carry the values. -/
theorem c11_expand_leaf_value (ex : Node → Option Expansion) (g : Graph) (h : g.WF) (hok : expandOK ex g.nodes = true) :
    ∃ (g' : Graph) (img : List XNode), expandGraph ex g = .ok g' ∧ img.length = g.nodes.length ∧
      g'.sinks = xSinks (g.sinks.map (img.getD · (.node 0))) ∧
      ∀ (s : Nat) (n : Node) (e : Expansion), s ∈ g.sinks → g.nodes[s]? = some n → ex n = some e →
        ∃ sg, img[s]? = some (.sub sg) ∧ BlockAt defaultSplice g'.nodes img n e sg ∧
          ∀ o ∈ n.outputs, leafOK e o = true →
            ∃ lname l, sg.outputMap.lookup o = some lname ∧ sg.leaves.lookup lname = some l ∧ l ∈ g'.sinks ∧
              ∀ {V : Type} (I : Interp V), ExpandSound I ex g.nodes →
                storeEnv I g'.nodes (l, defaultOutput) = storeEnv I g.nodes (s, o) := by
  obtain ⟨g', img, h1, h2, h3, h4⟩ := c11_expand_leaf_value_custom defaultSplice spliceOK_default ex g h hok
  refine ⟨g', img, h1, h2, h3, ?_⟩
  intro s n e hs hn he
  obtain ⟨sg, a1, a2, a3⟩ := h4 s n e hs hn he
  refine ⟨sg, a1, a2, ?_⟩
  intro o ho hl
  obtain ⟨lname, l, b1, b2, b3, b4⟩ := a3 o ho hl
  exact ⟨lname, l, b1, b2, b3, fun I hsnd => b4 I ((expandSoundW_default I ex g.nodes).2 hsnd)⟩

/-- `c11_expand_names_custom` for the default `Splicer`. -/
theorem c11_expand_names (ex : Node → Option Expansion) (g : Graph) (h : g.WF) (hok : expandOK ex g.nodes = true)
    (hn : (g.nodes.map (·.name)).Nodup) (hdot : ∀ n ∈ g.nodes, '.' ∉ n.name)
    (hsub : ∀ n ∈ g.nodes, ∀ e, ex n = some e → (e.sub.nodes.map (·.name)).Nodup) :
    ∃ g', expandGraph ex g = .ok g' ∧ (g'.nodes.map (·.name)).Nodup :=
  c11_expand_names_custom defaultSplice spliceOK_default ex g h hok hn hdot hsub

/-- non-vacuity of `SpliceOK` beyond the default: the two `Splicer` subclasses the correspondence check runs -/
theorem spliceOK_tap : SpliceOK tapSplice := by
  refine ⟨fun _ _ => by simp only [tapSplice]; decide, ?_, fun _ _ _ => by simp [tapSplice], ?_⟩
  · intro name s o ho
    simp only [tapSplice]
    split
    · exact ho
    · exact List.mem_append_left _ ho
  · intro name s keys sel hk hsel
    simp only [tapSplice, Option.some.injEq] at hsel
    subst hsel
    refine ⟨?_, ?_⟩
    · simp only [List.map_map]
      unfold List.Nodup at hk ⊢
      exact List.Pairwise.map _ (fun a b hab e => hab (List.append_cancel_right e)) hk
    · intro x hx
      obtain ⟨k, hk', rfl⟩ := List.mem_map.1 hx
      exact hk'

theorem spliceOK_first : SpliceOK firstSplice := by
  refine ⟨fun _ _ => by simp [firstSplice, defaultSplice], fun _ _ o ho => ho, fun _ _ _ => by simp [firstSplice], ?_⟩
  intro name s keys sel _ hsel
  simp only [firstSplice, Option.some.injEq] at hsel
  subst hsel
  cases keys with
  | nil => simp
  | cons k ks => simp

/-- non-vacuity for the expand theorems: `big` (inputs `a`, `b`; outputs `p`, `q`; a sink as well) is replaced
by a sub-graph with two mapped sources (`ina ↦ a`, `inb ↦ b`), an independent source `k`, an inner node
`mix`, the leaves `P` (selected for `p` by the output map) and `q` (selected by name) and an inner sink `log`. -/
def exBig : Node :=
  { name := "big".toList, outputs := ["p".toList, "q".toList], payload := 3,
    inputs := [("a".toList, (0, defaultOutput)), ("b".toList, (1, "v".toList))] }

def exY : Graph :=
  { nodes := [ { name := "s1".toList, outputs := [defaultOutput], payload := 1, inputs := [] },
               { name := "s2".toList, outputs := ["u".toList, "v".toList], payload := 2, inputs := [] },
               exBig,
               { name := "w".toList, outputs := [], payload := 4,
                 inputs := [("x".toList, (2, "p".toList)), ("y".toList, (2, "q".toList)), ("z".toList, (1, "u".toList))] } ],
    sinks := [3, 2] }

def exBigExp : Expansion :=
  { sub := { nodes := [ { name := "ina".toList, outputs := [defaultOutput], payload := 10, inputs := [] },
                        { name := "inb".toList, outputs := [defaultOutput], payload := 11, inputs := [] },
                        { name := "k".toList, outputs := [defaultOutput], payload := 12, inputs := [] },
                        { name := "mix".toList, outputs := [defaultOutput, "r".toList], payload := 13,
                          inputs := [("l".toList, (0, defaultOutput)), ("r".toList, (1, defaultOutput)), ("c".toList, (2, defaultOutput))] },
                        { name := "P".toList, outputs := [], payload := 14, inputs := [("x".toList, (3, defaultOutput))] },
                        { name := "q".toList, outputs := [], payload := 15,
                          inputs := [("x".toList, (3, "r".toList)), ("y".toList, (0, defaultOutput))] },
                        { name := "log".toList, outputs := [], payload := 16, inputs := [("x".toList, (3, defaultOutput))] } ],
             sinks := [4, 5, 6] },
    inputMap := some [("ina".toList, "a".toList), ("inb".toList, "b".toList)],
    outputMap := some [("p".toList, "P".toList)] }

def exYExp (n : Node) : Option Expansion := if n.name = "big".toList then some exBigExp else none

theorem exY_wf : exY.WF := ⟨by decide, by decide⟩
theorem exY_ok : expandOK exYExp exY.nodes = true := by decide

/-- base interpretation of the atoms -/
def bIY (p : Payload) (ins : Name → Option Nat) (o : Name) : Nat :=
  match p with
  | .atom n => n + 2 * o.length + 3 * ((ins "x".toList).getD 1) + 5 * ((ins "y".toList).getD 1) + 7 * ((ins "l".toList).getD 1) +
      11 * ((ins "r".toList).getD 1) + 13 * ((ins "c".toList).getD 1) + 17 * ((ins inputName).getD 1) + 19 * ((ins "z".toList).getD 1)
  | _ => 0

/-- the payload of `big` (atom 3) MEANS its sub-graph -/
def exIY : Interp Nat := fun p ins o =>
  match p with
  | .atom 3 => match leafOf exBigExp o with
               | some q => ((subEval bIY ins exBig exBigExp)[q]?.map (· defaultOutput)).getD 0
               | none => 0
  | p => bIY p ins o

example : (match expandGraph exYExp exY with | .ok g' => (g'.nodes.length, g'.sinks) | .error _ => (0, [])) = (10, [9, 6, 7, 8]) := by decide

theorem exY_sound : ExpandSound exIY exYExp exY.nodes := by
  intro n hn e he vin _ o ho q hq f hf
  simp only [exY, List.mem_cons, List.mem_nil_iff, or_false] at hn
  rcases hn with rfl | rfl | rfl | rfl
  · simp [exYExp] at he
  · simp [exYExp] at he
  · simp only [exYExp, exBig, if_true, Option.some.injEq] at he
    subst he
    have hsub : subEval exIY vin exBig exBigExp = subEval bIY vin exBig exBigExp := by
      unfold subEval
      apply subEvalFrom_congr
      intro m hm
      simp only [exBigExp, List.mem_cons, List.mem_nil_iff, or_false] at hm
      rcases hm with rfl | rfl | rfl | rfl | rfl | rfl | rfl <;> rfl
    show f defaultOutput = exIY (.atom 3) vin o
    simp only [exIY, hq, ← hsub, hf, Option.map_some, Option.getD_some]
  · simp [exYExp] at he


example := c11_expand_total exYExp exY exY_wf exY_ok
example := c11_expand_inner_wiring exYExp exY exY_wf exY_ok
example := c11_expand_value exIY exYExp exY exY_wf exY_ok exY_sound
example := c11_expand_leaf_value exYExp exY exY_wf exY_ok
example := c11_expand_names exYExp exY exY_wf exY_ok (by decide) (by decide)
  (by
    intro n hn e he
    simp only [exYExp] at he
    split at he
    · cases he; decide
    · cases he)

/-- the wiring of the example, spelled out: the mapped sources became processors on the inputs of `big`,
the leaves got default outputs, `w` is connected to `big.P` and `big.q` -/
example : (match expandGraph exYExp exY with
    | .ok g' => g'.nodes.map fun (n : Node) => (String.ofList n.name, n.outputs.map String.ofList,
        n.inputs.map fun (x : Name × Ref) => (String.ofList x.1, x.2.1, String.ofList x.2.2))
    | .error _ => []) =
  [("s1", ["0"], []), ("s2", ["u", "v"], []),
   ("big.ina", ["0"], [("input", 0, "0")]), ("big.inb", ["0"], [("input", 1, "v")]), ("big.k", ["0"], []),
   ("big.mix", ["0", "r"], [("l", 2, "0"), ("r", 3, "0"), ("c", 4, "0")]),
   ("big.P", ["0"], [("x", 5, "0")]), ("big.q", ["0"], [("x", 5, "r"), ("y", 2, "0")]), ("big.log", [], [("x", 5, "0")]),
   ("w", [], [("x", 6, "0"), ("y", 7, "0"), ("z", 1, "u")])] := by decide

/-- Without the restriction on `'.'` the code does NOT keep names unique: node `a` expanded into a
sub-graph node `b.c` and node `a.b` expanded into `c` are both called `a.b.c`. -/
def exClash : Graph :=
  { nodes := [ { name := "a".toList, outputs := [defaultOutput], payload := 1, inputs := [] },
               { name := "a.b".toList, outputs := [defaultOutput], payload := 2, inputs := [] },
               { name := "w".toList, outputs := [], payload := 3,
                 inputs := [("x".toList, (0, defaultOutput)), ("y".toList, (1, defaultOutput))] } ],
    sinks := [2] }

def exClashExp (n : Node) : Option Expansion :=
  if n.name = "a".toList then
    some { sub := { nodes := [ { name := "b.c".toList, outputs := [defaultOutput], payload := 4, inputs := [] } ], sinks := [0] },
           inputMap := none, outputMap := some [(defaultOutput, "b.c".toList)] }
  else if n.name = "a.b".toList then
    some { sub := { nodes := [ { name := "c".toList, outputs := [defaultOutput], payload := 5, inputs := [] } ], sinks := [0] },
           inputMap := none, outputMap := some [(defaultOutput, "c".toList)] }
  else none

theorem c11_expand_names_clash :
    exClash.WF ∧ expandOK exClashExp exClash.nodes = true ∧ (exClash.nodes.map (·.name)).Nodup ∧
    (∀ n ∈ exClash.nodes, ∀ e, exClashExp n = some e → (e.sub.nodes.map (·.name)).Nodup) ∧
    ∃ g', expandGraph exClashExp exClash = .ok g' ∧ ¬ (g'.nodes.map (·.name)).Nodup := by
  refine ⟨⟨by decide, by decide⟩, by decide, by decide, ?_, ?_⟩
  · intro n _ e he
    simp only [exClashExp] at he
    split at he
    · cases he; decide
    · split at he
      · cases he; decide
      · cases he
  · refine ⟨(match expandGraph exClashExp exClash with | .ok g' => g' | .error _ => ⟨[], []⟩), by rfl, by decide⟩

/-! ### fuse -/

/-- Fusion keeps what the sinks compute.  For every interpretation `I` of the payloads and every
fusion callback that is sound for `I` (`FuseSound`: the node it returns denotes the current node
with the parent inlined and keeps the other inputs), whenever `fuse_nodes` returns, the `k`-th sink
of the result has, at every output, the value of the `k`-th sink of the input.  (Callbacks are
functions of the two nodes they are given and answer with a fresh node; a parent is offered for
fusion only when `self.counter` ≤ 1 — that is part of the model, the theorem does not need it.) -/
theorem c11_fuse {V : Type} (I : Interp V) (func : FuseFunc) (hs : FuseSound I func) (g g' : Graph) (h : g.WF)
    (hres : fuseGraph func g = .ok g') :
    g'.sinks.length = g.sinks.length ∧
    ∀ (k s : Nat), g.sinks[k]? = some s → ∃ s', g'.sinks[k]? = some s' ∧ eval I g'.nodes s' = eval I g.nodes s := by
  simp only [fuseGraph, transform] at hres
  cases hrun : run (fuser func (countEdges g.nodes)) {} g.nodes with
  | error e => simp [hrun] at hres
  | ok st =>
    simp only [hrun] at hres
    cases hsk : sinksOf st.2 g.sinks with
    | error e => simp [hsk] at hres
    | ok ts =>
      simp only [hsk] at hres
      cases hres
      have hinv := fuse_run I func hs (countEdges g.nodes) g.nodes h.nodes st hrun
      refine ⟨mapE_ok_length _ _ _ hsk, ?_⟩
      intro k s hks
      obtain ⟨t, ht, hf⟩ := mapE_ok_get _ _ _ hsk k s hks
      have hslt : s < g.nodes.length := h.sinks s (List.mem_of_getElem? hks)
      obtain ⟨t', ht', hev⟩ := hinv.doneVal s hslt
      simp only [ht'] at hf
      have htt : t' = t := by injection hf
      subst htt
      exact ⟨t', ht, hev⟩

/-- non-vacuity of `FuseSound`: a callback that never fuses is sound for every interpretation … -/
example {V : Type} (I : Interp V) : FuseSound I (fun _ _ _ _ => none) := by
  intro P C F pout cin h; cases h

/-- … and the callback the correspondence check uses (`inlineFuse`, any acceptance predicate) is
sound for every interpretation that reads a fused payload as "the child with the parent inlined";
so for it fusion provably keeps every sink's value. -/
theorem c11_fuse_inline {V : Type} (I : Interp V) (hI : RespectsFused I) (accept : Node → Name → Node → Name → Bool)
    (g g' : Graph) (h : g.WF) (hres : fuseGraph (inlineFuse accept) g = .ok g') :
    g'.sinks.length = g.sinks.length ∧
    ∀ (k s : Nat), g.sinks[k]? = some s → ∃ s', g'.sinks[k]? = some s' ∧ eval I g'.nodes s' = eval I g.nodes s :=
  c11_fuse I (inlineFuse accept) (inlineFuse_sound I hI accept) g g' h hres

/-- TOTAL correctness of `fuse_nodes`: on every well-formed graph, for every callback that answers
with structurally sane nodes (`FuseStruct`: distinct input names, connected only to what the parent or
the current node are connected to, at least the current node's outputs), the transformation returns and
the result is well formed (no dangling input, acyclic, one sink per sink of the input). -/
theorem c11_fuse_total (func : FuseFunc) (hs : FuseStruct func) (g : Graph) (h : g.WF) :
    ∃ g', fuseGraph func g = .ok g' ∧ g'.WF ∧ g'.sinks.length = g.sinks.length := by
  obtain ⟨⟨s, done⟩, hrun, hinv⟩ := fuseS_run func hs (countEdges g.nodes) g.nodes h.nodes
  have hsk : ∀ x ∈ g.sinks, x < done.length := by
    intro x hx; rw [hinv.doneLen]; exact h.sinks x hx
  refine ⟨{ nodes := s.out, sinks := g.sinks.map (done.getD · 0) }, ?_, ⟨hinv.wf, ?_⟩, by simp⟩
  · simp only [fuseGraph, transform, hrun, sinksOf_total done 0 g.sinks hsk]
  · intro t ht
    obtain ⟨x, hx, rfl⟩ := List.mem_map.1 ht
    have hlt := h.sinks x hx
    obtain ⟨t, m, h1, h2, _⟩ := hinv.doneOut x _ (List.getElem?_eq_getElem hlt)
    simp only [List.getD_eq_getElem?_getD, h1, Option.getD_some]
    exact (List.getElem?_eq_some_iff.1 h2).1

/-- FUSION PRESERVES WHAT THE SINKS COMPUTE, at full strength (no "whenever it returns"): for every
interpretation, every sound callback that keeps the current node's outputs and every well-formed graph,
`fuse_nodes` returns a well-formed graph whose `k`-th sink has the value of the `k`-th sink of the input. -/
theorem c11_fuse_value {V : Type} (I : Interp V) (func : FuseFunc) (hs : FuseSound I func)
    (ho : ∀ (P C F : Node) (pout cin : Name), func P pout C cin = some F → ∀ o ∈ C.outputs, o ∈ F.outputs)
    (g : Graph) (h : g.WF) :
    ∃ g', fuseGraph func g = .ok g' ∧ g'.WF ∧ g'.sinks.length = g.sinks.length ∧
      ∀ (k s : Nat), g.sinks[k]? = some s → ∃ s', g'.sinks[k]? = some s' ∧ eval I g'.nodes s' = eval I g.nodes s := by
  obtain ⟨g', hres, hwf, hlen⟩ := c11_fuse_total func (fuseStruct_of_sound I func hs ho) g h
  exact ⟨g', hres, hwf, hlen, (c11_fuse I func hs g g' h hres).2⟩

/-- … in particular for the callback of the correspondence check, for every acceptance predicate. -/
theorem c11_fuse_inline_value {V : Type} (I : Interp V) (hI : RespectsFused I) (accept : Node → Name → Node → Name → Bool)
    (g : Graph) (h : g.WF) :
    ∃ g', fuseGraph (inlineFuse accept) g = .ok g' ∧ g'.WF ∧ g'.sinks.length = g.sinks.length ∧
      ∀ (k s : Nat), g.sinks[k]? = some s → ∃ s', g'.sinks[k]? = some s' ∧ eval I g'.nodes s' = eval I g.nodes s := by
  refine c11_fuse_value I (inlineFuse accept) (inlineFuse_sound I hI accept) ?_ g h
  intro P C F pout cin hF o ho
  simp only [inlineFuse] at hF
  split at hF
  · cases hF
  · split at hF
    · cases hF
    · split at hF
      · cases hF
      · cases hF; exact ho

/-- FUSION WITH CALLBACKS THAT MAY MUTATE `current` AND RETURN IT (`FuseFuncM`; fresh answers are the special
case `freshAns`, for which `fuseGraphM` IS `fuseGraph`).  For every interpretation, every callback whose answers are
sound in content (`FuseSoundM`), every well-formed graph: `fuse_nodes` returns a well-formed graph (no dangling
input, acyclic) with one sink per sink of the input, and the `k`-th sink has the value of the `k`-th sink of the input
— whether an answer is a fresh node (a stale copy of the original node object stays behind and later callbacks see
it) or the mutated node object itself.  Not covered: callbacks that answer with some OTHER existing node (e.g. the
parent, mutated) or change `parent` in place. -/
theorem c11_fuse_inplace_value {V : Type} (I : Interp V) (func : FuseFuncM) (hs : FuseSoundM I func) (g : Graph) (h : g.WF) :
    ∃ g', fuseGraphM func g = .ok g' ∧ g'.WF ∧ g'.sinks.length = g.sinks.length ∧
      ∀ (k s : Nat), g.sinks[k]? = some s → ∃ s', g'.sinks[k]? = some s' ∧ eval I g'.nodes s' = eval I g.nodes s := by
  obtain ⟨⟨s, done⟩, hrun, hinv⟩ := fuseM_run I func hs (countEdges g.nodes) g.nodes h.nodes
  have hsk : ∀ x ∈ g.sinks, x < done.length := by
    intro x hx; rw [hinv.doneLen]; exact h.sinks x hx
  refine ⟨{ nodes := s.out, sinks := g.sinks.map (done.getD · 0) }, ?_, ⟨hinv.wf, ?_⟩, by simp, ?_⟩
  · simp only [fuseGraphM, transform, hrun, sinksOf_total done 0 g.sinks hsk]
  · intro t ht
    obtain ⟨x, hx, rfl⟩ := List.mem_map.1 ht
    obtain ⟨t, m, h1, h2, _⟩ := hinv.doneOut x _ (List.getElem?_eq_getElem (h.sinks x hx))
    simp only [List.getD_eq_getElem?_getD, h1, Option.getD_some]
    exact (List.getElem?_eq_some_iff.1 h2).1
  · intro k x hk
    have hx := h.sinks x (List.mem_of_getElem? hk)
    obtain ⟨t, m, h1, _, _, h4⟩ := hinv.doneOut x _ (List.getElem?_eq_getElem hx)
    refine ⟨t, ?_, h4⟩
    simp only [List.getElem?_map, hk, Option.map_some, List.getD_eq_getElem?_getD, h1, Option.getD_some]

/-- the model of fresh-node callbacks (`fuseGraph`, all the theorems above) is the instance of the mutating model in which
no answer mutates -/
theorem c11_fuse_fresh_instance (func : FuseFunc) (g : Graph) : fuseGraphM (freshAns func) g = fuseGraph func g :=
  fuseGraphM_fresh func g

/-- … and the callback family of the correspondence check, with ANY choice of which answers mutate `current`, is sound. -/
theorem c11_fuse_inplace_inline {V : Type} (I : Interp V) (hI : RespectsFused I) (accept inplace : Node → Name → Node → Name → Bool)
    (g : Graph) (h : g.WF) :
    ∃ g', fuseGraphM (inlineFuseM accept inplace) g = .ok g' ∧ g'.WF ∧ g'.sinks.length = g.sinks.length ∧
      ∀ (k s : Nat), g.sinks[k]? = some s → ∃ s', g'.sinks[k]? = some s' ∧ eval I g'.nodes s' = eval I g.nodes s :=
  c11_fuse_inplace_value I (inlineFuseM accept inplace) (inlineFuseM_sound I hI accept inplace) g h

/-- an interpretation (into numbers) that respects fused payloads, by recursion on the payload -/
def exI : Interp Nat
  | .atom n, ins, o => n + o.length + ((ins "x".toList).getD 7) * 3 + ((ins "y".toList).getD 5) * 11
  | .fused c cin p pout pins _, ins, o =>
    exI c (fun k => if k = cin then some (exI p (fun k' => if k' ∈ pins then ins (cin ++ ['.'] ++ k') else none) pout)
                    else if k ∈ pins.map (fun k' => cin ++ ['.'] ++ k') then none else ins k) o

theorem exI_respects : RespectsFused exI := by
  intro c cin p pout pins pouts ins o; rfl

/-- a chain `r -> a -> b -> w` plus a second consumer of `r` -/
def exChain : Graph :=
  { nodes := [ { name := "r".toList, outputs := [defaultOutput], payload := 1, inputs := [] },
               { name := "a".toList, outputs := [defaultOutput], payload := 2, inputs := [("x".toList, (0, defaultOutput))] },
               { name := "b".toList, outputs := [defaultOutput], payload := 3, inputs := [("x".toList, (1, defaultOutput)), ("y".toList, (0, defaultOutput))] },
               { name := "w".toList, outputs := [], payload := 4, inputs := [("y".toList, (2, defaultOutput))] } ],
    sinks := [3] }

theorem exChain_wf : exChain.WF := ⟨by decide, by decide⟩

/-- non-vacuity: on the chain the callback really fuses (`a` into `b`, then that into `w`; `r` has two
consumers and stays), and the theorem applies -/
example : (match fuseGraph (inlineFuse fun _ _ _ _ => true) exChain with
    | .ok g' => (g'.nodes.length, g'.sinks) | .error _ => (0, [])) = (6, [5]) := by decide
def exChainFused : Graph :=
  match fuseGraph (inlineFuse fun _ _ _ _ => true) exChain with
  | .ok g' => g'
  | .error _ => { nodes := [], sinks := [] }

theorem exChain_fuses : fuseGraph (inlineFuse fun _ _ _ _ => true) exChain = .ok exChainFused := by rfl

example := c11_fuse_inline_value exI exI_respects (fun _ _ _ _ => true) exChain exChain_wf
example := c11_fuse_inplace_inline exI exI_respects (fun _ _ _ _ => true) (fun _ _ _ _ => true) exChain exChain_wf
/-- with mutating answers the chain is fused into ONE object per node: 4 store nodes instead of 6 -/
example : (match fuseGraphM (inlineFuseM (fun _ _ _ _ => true) (fun _ _ _ _ => true)) exChain with
    | .ok g' => (g'.nodes.length, g'.sinks) | .error _ => (0, [])) = (4, [3]) := by decide
example : FuseStruct (fun _ _ _ _ => none) := by intro P C F pout cin h; cases h

example : exChainFused.sinks.length = exChain.sinks.length ∧
    ∀ (k s : Nat), exChain.sinks[k]? = some s →
      ∃ s', exChainFused.sinks[k]? = some s' ∧ eval exI exChainFused.nodes s' = eval exI exChain.nodes s :=
  c11_fuse_inline exI exI_respects _ exChain exChainFused exChain_wf exChain_fuses

/-! ### the string lemma behind the `lstrip` defect of `Splicer.graph` -/

/-- Removing the prefix that `Splicer` itself put in front of a node name gives the name back. -/
theorem c11_remove_prefix (p s : Name) : removePrefix (p ++ s) p = s := by
  have : p.isPrefixOf (p ++ s) = true := by
    rw [List.isPrefixOf_iff_prefix]; exact List.prefix_append p s
  simp [removePrefix, this]

/-- `lstrip` with the prefix as a character set strips exactly the leading characters of the rest
that occur in the prefix … -/
theorem c11_lstrip_chars (p s : Name) : lstripChars (p ++ s) p = lstripChars s p := by
  unfold lstripChars
  induction p with
  | nil => rfl
  | cons c p ih =>
    have h : ∀ (q : Name), (∀ x ∈ q, x ∈ c :: p) → List.dropWhile (fun x => (c :: p).contains x) (q ++ s) =
        List.dropWhile (fun x => (c :: p).contains x) s := by
      intro q
      induction q with
      | nil => intro _; rfl
      | cons x q ihq =>
        intro hq
        have hx : (c :: p).contains x = true := by simpa using hq x (by simp)
        simp only [List.cons_append, List.dropWhile_cons, hx, if_true]
        exact ihq (fun y hy => hq y (by simp [hy]))
    exact h (c :: p) (fun x hx => hx)

/-- … so it returns the name iff the name does not start with a character of the prefix; -/
theorem c11_lstrip_ok_iff (p s : Name) :
    lstripChars (p ++ s) p = s ↔ ∀ c, s.head? = some c → c ∉ p := by
  rw [c11_lstrip_chars]
  unfold lstripChars
  cases s with
  | nil => simp
  | cons c s =>
    simp only [List.dropWhile_cons, List.head?_cons, Option.some.injEq, forall_eq']
    by_cases hc : c ∈ p
    · simp only [List.contains_eq_mem, hc, decide_true, if_true, not_true, iff_false]
      intro h
      have := List.dropWhile_sublist (fun x => decide (x ∈ p)) (l := s)
      rw [h] at this
      have := this.length_le
      simp at this
      omega
    · simp [hc]

/-- the decided witness: parent `main`, leaf `mean`: `"main.mean".lstrip("main.") == "ean"`. -/
theorem c11_lstrip_witness :
    lstripChars "main.mean".toList "main.".toList = "ean".toList ∧
    removePrefix "main.mean".toList "main.".toList = "mean".toList := by decide

end EkwVerif.Graph
