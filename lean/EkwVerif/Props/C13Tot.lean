/-
C13 — second audit: TOTALITY of batching at statement level, and integer powers interpreted exactly.

`c13_batch_invariant_prog` (Props/C13Den.lean) compares a program with its unbatched form IF BOTH BUILD. What excludes
"the batched build raises while the unbatched one builds" — the class of three defects repaired earlier (batched keep_dim,
batching by label, batched backend kwargs) — is proved here for ONE reduction of the batchable class, with or without
`keep_dim`, for every batch size and dimension size:

* `c13_batch_total`        `reduce` with a payload marked batchable and no yields: if the call with `batch_size = 0` builds `r0`,
                           the call with ANY batch size builds too, with the dims and scalar coordinates of `r0`;
* `c13_batch_total_named`  the same for the named reductions whose backend function is in the generated table
                           `Gen.fluentBatchable` (sum, prod, min, max) and for `concat` behind `concatenate`;
* `c13_batch_total_mean`   the same for `Action.mean`, whose batched form is the rewrite `sum(batch_size) / n`;
* `c13_batch_total_concat` the same for `concatenate` (`_combine_nodes`, no-op on a single element);
* `c13_default_dim`        `dim=""` (the argument omitted) IS the first dimension, for reduce / named / mean / std;
  `c13_batch_total_named_default` combines the two.
NOT proved: the batched `std` (its rewrite ends in `arithAction` = join + reduce, whose totality on equal shapes is open).

There is NO program-level totality theorem: for a whole program the statement is carried by the tie (every generated
statement of the class is built a second time with `batch_size = 0` on the same real operands; "one raises, the other builds"
is reported as `batching-changes-build`).

`powUnk` / `c13_pow_nat` / `c13_pow_neg` / `c13_laws_rat_pow`: the exact rational interpretation with integer exponents of
`pow` interpreted exactly (x ^ n, (x ^ n)⁻¹) instead of the opaque symbol; it still satisfies the three laws.
-/
import EkwVerif.Props.C13Den

namespace EkwVerif.Fluent

open Aux

/-- the one-point interpretation: every function is batchable in it, so the SHAPE part of `batchLoop_spec` can be used
without any hypothesis about the payload function -/
def unitSem : Sem Unit := { src := fun _ => (), fn := fun _ _ _ => (), out := fun _ _ => () }

namespace Aux

theorem unit_batchable (p : Payload) : IsBatchable (p.apply unitSem) := fun _ _ _ => rfl

/-- the batching part of `reduce` never fails on a batchable payload over an existing dimension, and leaves the shape of
the remaining reduction unchanged -/
theorem reduceBatched_total (p : Payload) (a : NodeArray) (d : String) (b : Nat) (hfresh : BatchFresh a d)
    (hdim : (a.findDim d).isSome) (hp : p.batchable = true) :
    ∃ x, reduceBatched p d b a = .ok x ∧ allIndexed (dropDim x.2.dims x.1) = allIndexed (dropDim a.dims d) ∧
      x.2.scalars = a.scalars ∧ (x.2.findDim x.1).isSome := by
  simp only [reduceBatched]
  by_cases hb1 : b > 1
  · simp only [hb1, ↓reduceIte]
    cases hf : a.findDim d with
    | none => simp [hf] at hdim
    | some y =>
      simp only []
      by_cases hlt : b < a.dimSize d
      · simp only [hlt, ↓reduceIte, hp, Bool.not_true, Bool.false_eq_true]
        obtain ⟨x, hx, _⟩ := batchLoop_total p b (by omega) (a.dimSize d) 0 d a (Nat.le_refl _)
        have sp := batchLoop_spec unitSem p (unit_batchable p) b (by omega) _ 0 d a x.1 x.2 hfresh hdim hx
        exact ⟨x, hx, sp.2.1, sp.2.2.1, sp.2.2.2⟩
      · simp only [hlt, ↓reduceIte]
        exact ⟨(d, a), rfl, rfl, rfl, by simp [hf]⟩
  · simp only [hb1, ↓reduceIte]
    exact ⟨(d, a), rfl, rfl, rfl, hdim⟩

end Aux

/-- **Totality of batching for one reduction.** A payload marked batchable, no yields, any batch size, any dimension size,
with or without `keep_dim`: if the unbatched call builds, the batched call builds, and the result has the same dimensions,
coordinates and scalar coordinates. (The values are equal by `c13_batch_invariant`.) -/
theorem c13_batch_total (p : Payload) (a : NodeArray) (d : String) (b : Nat) (keep : Bool)
    (hd : d ≠ "") (hs : a.scalar? d = none) (hfresh : BatchFresh a d) (hp : p.batchable = true) (r0 : NodeArray)
    (h0 : reduce p none d 0 keep a = .ok r0) :
    ∃ r, reduce p none d b keep a = .ok r ∧ r.dims = r0.dims ∧ r.scalars = r0.scalars := by
  rw [reduce_eq p d b keep a hd]
  rw [reduce_eq p d 0 keep a hd, reduceBatched_zero] at h0
  simp only [bind, Except.bind] at h0 ⊢
  have hdim : (a.findDim d).isSome := by
    simp only [reduceFinish] at h0
    split at h0
    · cases h0
    · rename_i hn; exact isSome_of_not_isNone _ hn
  obtain ⟨x, hx, hdims, hsc, hsome⟩ := reduceBatched_total p a d b hfresh hdim hp
  rw [hx]
  simp only []
  have n1 : ¬ ((x.2.findDim x.1).isNone = true) := not_isNone_of_isSome _ hsome
  have n0 : ¬ ((a.findDim d).isNone = true) := not_isNone_of_isSome _ hdim
  simp only [reduceFinish, n1, n0, withYields] at h0 ⊢
  cases keep with
  | false =>
    simp only [Bool.false_eq_true, ↓reduceIte] at h0 ⊢
    cases h0
    exact ⟨_, rfl, by simp [reduceCore, hdims], by simp [reduceCore, hsc]⟩
  | true =>
    simp only [↓reduceIte] at h0 ⊢
    rw [addDim_reduceCore p x.1 x.2 a d hs hdims hsc]
    rw [addDim_reduceCore p d a a d hs rfl rfl] at h0
    cases h0
    exact ⟨_, rfl, rfl, by simp [reduceCore, hsc]⟩

/-- the named reductions over a backend function of the generated table `Gen.fluentBatchable` (sum, prod, min, max), and
`concat`: if the unbatched call builds, so does the batched one -/
theorem c13_batch_total_named (name : String) (kw : List (String × Static)) (a : NodeArray) (d : String) (b : Nat)
    (keep : Bool) (hn : isBatchableName name = true)
    (hd : d ≠ "") (hs : a.scalar? d = none) (hfresh : BatchFresh a d) (r0 : NodeArray)
    (h0 : named name d 0 keep kw a = .ok r0) :
    ∃ r, named name d b keep kw a = .ok r ∧ r.dims = r0.dims ∧ r.scalars = r0.scalars :=
  c13_batch_total (backendPayload name kw) a d b keep hd hs hfresh (by simp [backendPayload, hn]) r0 h0

/-- non-vacuity: the hypotheses hold of a concrete source array, the unbatched sum with `keep_dim` builds — hence every
batch size builds -/
example (b : Nat) : ∃ r, named "sum" "d1" b true []
      (fromSource [("d0", [.int 0, .int 10]), ("d1", [.int 0, .int 10, .int 20])] 0) = .ok r := by
  obtain ⟨r, h, _⟩ := c13_batch_total_named "sum" [] (fromSource [("d0", [.int 0, .int 10]), ("d1", [.int 0, .int 10, .int 20])] 0)
    "d1" b true (by decide) (by decide) (by decide)
    (fromSource_batchFresh _ 0 "d1" (by intro x hx; simp at hx; rcases hx with rfl | rfl <;> decide)) _ rfl
  exact ⟨r, h⟩

namespace Aux

/-- whether an unbatched reduce builds, and with which dims / scalar coordinates, does not depend on the payload -/
theorem reduce0_payload_indep (p p' : Payload) (a : NodeArray) (d : String) (keep : Bool) (hd : d ≠ "")
    (hs : a.scalar? d = none) (r0 : NodeArray) (h0 : reduce p none d 0 keep a = .ok r0) :
    ∃ r, reduce p' none d 0 keep a = .ok r ∧ r.dims = r0.dims ∧ r.scalars = r0.scalars := by
  rw [reduce_eq p' d 0 keep a hd, reduceBatched_zero]
  rw [reduce_eq p d 0 keep a hd, reduceBatched_zero] at h0
  simp only [bind, Except.bind] at h0 ⊢
  have hdim : (a.findDim d).isSome := by
    simp only [reduceFinish] at h0
    split at h0
    · cases h0
    · rename_i hn; exact isSome_of_not_isNone _ hn
  have n0 : ¬ ((a.findDim d).isNone = true) := not_isNone_of_isSome _ hdim
  simp only [reduceFinish, n0, withYields] at h0 ⊢
  cases keep with
  | false =>
    simp only [Bool.false_eq_true, ↓reduceIte] at h0 ⊢
    cases h0
    exact ⟨_, rfl, by simp [reduceCore], by simp [reduceCore]⟩
  | true =>
    simp only [↓reduceIte] at h0 ⊢
    rw [addDim_reduceCore p' d a a d hs rfl rfl]
    rw [addDim_reduceCore p d a a d hs rfl rfl] at h0
    cases h0
    exact ⟨_, rfl, rfl, by simp [reduceCore]⟩

end Aux

/-- **`Action.mean`**: if `a.mean(d)` builds, `a.mean(d, batch_size=b)` — the rewrite `a.sum(d, batch_size=b) / n` when
`1 < b < n` — builds for every `b`, with the same dims and scalar coordinates (rests on `sum` being in the generated table of
batchable backend functions: `c13_marks`). -/
theorem c13_batch_total_mean (kw : List (String × Static)) (a : NodeArray) (d : String) (b : Nat) (keep : Bool)
    (hd : d ≠ "") (hs : a.scalar? d = none) (hfresh : BatchFresh a d) (r0 : NodeArray)
    (h0 : mean d 0 keep kw a = .ok r0) :
    ∃ r, mean d b keep kw a = .ok r ∧ r.dims = r0.dims ∧ r.scalars = r0.scalars := by
  have e0 : mean d 0 keep kw a = reduce (backendPayload "mean" kw) none d 0 keep a := by
    simp [mean, defaultDim, hd, bind, Except.bind]
  rw [e0] at h0
  have hdim : (a.findDim d).isSome := by
    rw [reduce_eq _ d 0 keep a hd, reduceBatched_zero] at h0
    simp only [bind, Except.bind, reduceFinish] at h0
    split at h0
    · cases h0
    · rename_i hn; exact isSome_of_not_isNone _ hn
  have n0 : (a.findDim d).isNone = false := by cases h : a.findDim d <;> simp_all
  by_cases hb : b ≤ 1 ∨ b ≥ a.dimSize d
  · refine ⟨r0, ?_, rfl, rfl⟩
    simp [mean, defaultDim, hd, bind, Except.bind, n0, hb, h0]
  · obtain ⟨rs0, hs0, hd0, hsc0⟩ := reduce0_payload_indep _ (backendPayload "sum" kw) a d keep hd hs r0 h0
    obtain ⟨rs, hrs, hd1, hsc1⟩ := c13_batch_total_named "sum" kw a d b keep (by decide) hd hs hfresh rs0 hs0
    refine ⟨arithScalar "divide" (natStatic (a.dimSize d)) rs, ?_, ?_, ?_⟩
    · simp [mean, defaultDim, hd, bind, Except.bind, n0, hb, hrs, pure, Except.pure]
    · simp [arithScalar, Fluent.map, withYields, hd1, hd0]
    · simp [arithScalar, Fluent.map, withYields, hsc1, hsc0]

/-! ### the omitted dimension -/

/-- **The default dimension** (`a.reduce(f)`, `a.sum()`, `a.mean(batch_size=2)`, `a.std()`, `a.flatten()`: `dim=""`): on a node
array whose first dimension is `x`, every reduction with the dimension omitted IS the reduction over `x` — so every theorem
stated for a named dimension (`c13_batch_invariant`, `c13_batch_terminates`, `c13_batch_total*`, which assume `d ≠ ""`) applies
to the call with the dimension omitted. (That the real default is the FIRST dimension is compared by the tie and judged by
the oracle on programs that omit the dimension.) -/
theorem c13_default_dim (a : NodeArray) (x : Dim) (rest : List Dim) (h : a.dims = x :: rest) (hx : x.name ≠ "")
    (b : Nat) (keep : Bool) (kw : List (String × Static)) :
    (∀ p y, reduce p y "" b keep a = reduce p y x.name b keep a) ∧
    (∀ name, named name "" b keep kw a = named name x.name b keep kw a) ∧
    mean "" b keep kw a = mean x.name b keep kw a ∧
    std "" b keep kw a = std x.name b keep kw a := by
  refine ⟨?_, ?_, ?_, ?_⟩
  · intro p y; simp [reduce, defaultDim, h, hx]
  · intro name; simp [named, reduce, defaultDim, h, hx]
  · simp [mean, defaultDim, h, hx]
  · simp [std, defaultDim, h, hx]

/-- on an array without dimensions the omitted dimension is refused (`dims[0]`: IndexError) -/
theorem c13_default_dim_none (a : NodeArray) (h : a.dims = []) (p : Payload) (b : Nat) (keep : Bool) :
    reduce p none "" b keep a = .error .index := by
  simp [reduce, defaultDim, h, bind, Except.bind]

/-- **`concatenate`** (`_combine_nodes` with the batchable backend function `concat`): if the unbatched call builds, every batch
size builds, with the same dims and scalar coordinates (on a dimension of size 1 the call is the documented no-op, in which
the batch size does not occur) -/
theorem c13_batch_total_concat (kw : List (String × Static)) (a : NodeArray) (d : String) (b : Nat) (keep : Bool)
    (hd : d ≠ "") (hs : a.scalar? d = none) (hfresh : BatchFresh a d) (r0 : NodeArray)
    (h0 : combine "concat" kw d 0 keep a = .ok r0) :
    ∃ r, combine "concat" kw d b keep a = .ok r ∧ r.dims = r0.dims ∧ r.scalars = r0.scalars := by
  simp only [combine] at h0 ⊢
  cases hf : a.findDim d with
  | none => simp [hf] at h0
  | some x =>
    simp only [hf] at h0 ⊢
    by_cases h1 : x.labels.length = 1
    · simp only [h1, ↓reduceIte] at h0 ⊢
      exact ⟨r0, h0, rfl, rfl⟩
    · simp only [h1, ↓reduceIte] at h0 ⊢
      exact c13_batch_total (backendPayload "concat" kw) a d b keep hd hs hfresh (by simp [backendPayload]; decide) r0 h0

/-- **the batchable named reductions with the dimension OMITTED** (`a.sum(batch_size=b)`): on an array whose first
dimension is `x`, if the unbatched call builds, every batch size builds -/
theorem c13_batch_total_named_default (name : String) (kw : List (String × Static)) (a : NodeArray) (x : Dim) (rest : List Dim)
    (b : Nat) (keep : Bool) (hn : isBatchableName name = true) (h : a.dims = x :: rest) (hx : x.name ≠ "")
    (hs : a.scalar? x.name = none) (hfresh : BatchFresh a x.name) (r0 : NodeArray)
    (h0 : named name "" 0 keep kw a = .ok r0) :
    ∃ r, named name "" b keep kw a = .ok r ∧ r.dims = r0.dims ∧ r.scalars = r0.scalars := by
  rw [(c13_default_dim a x rest h hx b keep kw).2.1 name]
  rw [(c13_default_dim a x rest h hx 0 keep kw).2.1 name] at h0
  exact c13_batch_total_named name kw a x.name b keep hn hx hs hfresh r0 h0

/-! ### integer powers, exactly -/

/-- on top of any opaque `unk`: `pow(x, q)` for an INTEGER `q` is `x ^ q` (`(x ^ -q)⁻¹` for negative `q`); everything else
stays opaque -/
def powUnk (unk : Unk) : Unk := fun fn kw args =>
  match fn, args with
  | "pow", [.val x, .lit (.num q)] =>
    if q.den = 1 then (if 0 ≤ q.num then x ^ q.num.toNat else (x ^ (-q.num).toNat)⁻¹) else unk fn kw args
  | _, _ => unk fn kw args

theorem c13_pow_nat (unk : Unk) (kw : List (String × Static)) (x : Rat) (n : Nat) :
    ratFn (powUnk unk) "pow" kw [.val x, .lit (.num (n : Rat))] = x ^ n := by
  simp only [ratFn]
  split
  · rename_i h
    have : n = 2 := by exact_mod_cast h
    subst this
    simp [Rat.pow_succ]
  · simp [powUnk]

theorem c13_pow_neg (unk : Unk) (kw : List (String × Static)) (x : Rat) (n : Nat) (hn : 0 < n) :
    ratFn (powUnk unk) "pow" kw [.val x, .lit (.num (-(n : Rat)))] = (x ^ n)⁻¹ := by
  simp only [ratFn]
  split
  · rename_i h
    exfalso
    have h2 := congrArg Rat.num h
    simp at h2
    omega
  · simp [powUnk]
    omega

/-- the interpretation with exact integer powers satisfies the three laws (they hold for EVERY `unk`) -/
theorem c13_laws_rat_pow (src : Nat → Rat) (unk : Unk) : Laws (ratSem src (powUnk unk)) := c13_laws_rat src (powUnk unk)

/-! ### non-vacuity -/

/-- non-vacuity of `c13_batch_total_mean`: the unbatched mean with `keep_dim` builds on a concrete 2 × 3 source, hence every
batch size builds -/
example (b : Nat) : ∃ r, mean "d1" b true []
      (fromSource [("d0", [.int 0, .int 10]), ("d1", [.int 0, .int 10, .int 20])] 0) = .ok r := by
  obtain ⟨r, h, _⟩ := c13_batch_total_mean [] (fromSource [("d0", [.int 0, .int 10]), ("d1", [.int 0, .int 10, .int 20])] 0)
    "d1" b true (by decide) (by decide)
    (fromSource_batchFresh _ 0 "d1" (by intro x hx; simp at hx; rcases hx with rfl | rfl <;> decide)) _ rfl
  exact ⟨r, h⟩

/-- non-vacuity of `c13_default_dim`: on a source over (d0, d1) the mean with the dimension omitted is the mean over d0 -/
example (b : Nat) (keep : Bool) :
    mean "" b keep [] (fromSource [("d0", [.int 0, .int 10]), ("d1", [.int 0, .int 10, .int 20])] 0) =
    mean "d0" b keep [] (fromSource [("d0", [.int 0, .int 10]), ("d1", [.int 0, .int 10, .int 20])] 0) :=
  (c13_default_dim _ ⟨"d0", [.int 0, .int 10], true⟩ [⟨"d1", [.int 0, .int 10, .int 20], true⟩] rfl (by decide) b keep []).2.2.1

/-- `pow(3, 3) = 27`, `pow(2, -2) = 1/4`, whatever the opaque symbol is -/
example (unk : Unk) : ratFn (powUnk unk) "pow" [] [.val 3, .lit (.num 3)] = 27 := by
  have h := c13_pow_nat unk [] 3 3
  have e : ((3 : Nat) : Rat) = 3 := rfl
  rw [e] at h
  rw [h]
  decide

end EkwVerif.Fluent
