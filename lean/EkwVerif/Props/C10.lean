/-
C10 — lowering a graph to a job and running a task preserves what each node computes.

Property theorems (`c10_*`) over Model/Lower.lean and Model/Runner.lean; helper lemmas live in namespace `Aux`.
The models mirror the code AFTER the three `fix:` commits of C10 (strict zip, declaration-order output binding
with a matching completion rule, one edge per occurrence of an input name).  One defect is recorded and not
repaired (a generator declared with ONE output): `c10_yield_binding_partial` / `c10_count_mismatch_partial`
carry the hypothesis `2 ≤ outs.length`, and the `_full_fails` theorems exhibit the witness.
-/
import EkwVerif.Model.Runner
import Std.Data.String.ToNat

namespace EkwVerif.Runner
open EkwVerif.Lower

namespace Aux

/-! #### dicts -/

theorem lastLookup_append {κ β : Type} [DecidableEq κ] (k : κ) (l₁ l₂ : List (κ × β)) :
    lastLookup k (l₁ ++ l₂) = match lastLookup k l₂ with | some w => some w | none => lastLookup k l₁ := by
  induction l₁ with
  | nil => simp [lastLookup]; cases lastLookup k l₂ <;> rfl
  | cons e l₁ ih =>
    simp only [List.cons_append, lastLookup, ih]
    cases lastLookup k l₂ <;> simp

theorem lastLookup_mem {κ β : Type} [DecidableEq κ] (k : κ) (l : List (κ × β)) (v : β)
    (h : lastLookup k l = some v) : (k, v) ∈ l := by
  induction l with
  | nil => simp [lastLookup] at h
  | cons e l ih =>
    simp only [lastLookup] at h
    cases hl : lastLookup k l with
    | some w => rw [hl] at h; simp at h; subst h; exact List.mem_cons_of_mem _ (ih hl)
    | none =>
      rw [hl] at h
      by_cases he : e.1 = k
      · simp [he] at h; subst h; subst he; simp
      · simp [he] at h

theorem lastLookup_isSome {κ β : Type} [DecidableEq κ] (k : κ) (l : List (κ × β)) (v : β)
    (h : (k, v) ∈ l) : ∃ w, lastLookup k l = some w := by
  induction l with
  | nil => simp at h
  | cons e l ih =>
    simp only [lastLookup]
    cases hl : lastLookup k l with
    | some w => exact ⟨w, rfl⟩
    | none =>
      rcases List.mem_cons.mp h with h | h
      · subst h; simp
      · obtain ⟨w, hw⟩ := ih h; rw [hl] at hw; cases hw

theorem lastLookup_map {κ β γ : Type} [DecidableEq κ] (k : κ) (f : β → γ) (l : List (κ × β)) :
    lastLookup k (l.map (fun e => (e.1, f e.2))) = (lastLookup k l).map f := by
  induction l with
  | nil => rfl
  | cons e l ih =>
    simp only [List.map_cons, lastLookup, ih]
    cases lastLookup k l with
    | some w => rfl
    | none => by_cases he : e.1 = k <;> simp [he]

theorem lastLookup_dictSet {κ β : Type} [DecidableEq κ] (k k' : κ) (v : β) (d : List (κ × β)) :
    lastLookup k (dictSet d k' v) = if k' = k then some v else lastLookup k d := by
  unfold dictSet
  by_cases hany : d.any (fun e => e.1 = k') = true
  · simp only [hany, ↓reduceIte]
    induction d with
    | nil => simp at hany
    | cons e d ih =>
      simp only [List.map_cons, lastLookup]
      by_cases hd : d.any (fun e => e.1 = k') = true
      · rw [ih hd]
        by_cases hk : k' = k
        · simp [hk]
        · simp only [hk, ↓reduceIte]
          cases lastLookup k d with
          | some w => rfl
          | none =>
            by_cases he : e.1 = k'
            · have : ¬ e.1 = k := fun h => hk (he ▸ h)
              simp [he, hk]
            · simp [he]
      · have hd' : ∀ x ∈ d, ¬ x.1 = k' := by
          intro x hx hxe
          apply hd
          simp only [List.any_eq_true, decide_eq_true_eq]
          exact ⟨x, hx, hxe⟩
        have hmap : d.map (fun e => if e.1 = k' then (e.1, v) else e) = d := by
          conv => rhs; rw [← List.map_id d]
          apply List.map_congr_left
          intro x hx; simp [hd' x hx]
        rw [hmap]
        have he : e.1 = k' := by
          simp only [List.any_cons, Bool.or_eq_true, decide_eq_true_eq] at hany
          rcases hany with h | h
          · exact h
          · exact absurd h hd
        by_cases hk : k' = k
        · subst hk
          have : lastLookup k' d = none := by
            cases hl : lastLookup k' d with
            | none => rfl
            | some w => exact absurd rfl (hd' _ (lastLookup_mem _ _ _ hl))
          simp [this, he]
        · have : ¬ e.1 = k := fun h => hk (he ▸ h)
          simp [he, hk]
  · simp only [hany, Bool.false_eq_true, ↓reduceIte]
    rw [lastLookup_append]
    simp only [lastLookup]
    by_cases hk : k' = k <;> simp [hk]

theorem lastLookup_foldl_dictSet {κ β : Type} [DecidableEq κ] (k : κ) (l d : List (κ × β)) :
    lastLookup k (l.foldl (fun d e => dictSet d e.1 e.2) d) =
      match lastLookup k l with | some w => some w | none => lastLookup k d := by
  induction l generalizing d with
  | nil => simp [lastLookup]
  | cons e l ih =>
    simp only [List.foldl_cons, ih, lastLookup, lastLookup_dictSet]
    cases lastLookup k l with
    | some w => rfl
    | none => by_cases he : e.1 = k <;> simp [he]

theorem lastLookup_dictOfList {κ β : Type} [DecidableEq κ] (k : κ) (l : List (κ × β)) :
    lastLookup k (dictOfList l) = lastLookup k l := by
  unfold dictOfList
  rw [lastLookup_foldl_dictSet]
  cases lastLookup k l <;> simp [lastLookup]

theorem mem_dictSet {κ β : Type} [DecidableEq κ] (d : List (κ × β)) (k : κ) (v : β) (e : κ × β)
    (h : e ∈ dictSet d k v) : e ∈ d ∨ e = (k, v) := by
  unfold dictSet at h
  split at h
  · simp only [List.mem_map] at h
    obtain ⟨x, hx, hxe⟩ := h
    by_cases hk : x.1 = k
    · simp [hk] at hxe; right; rw [← hxe]
    · simp [hk] at hxe; left; rw [← hxe]; exact hx
  · simp only [List.mem_append, List.mem_singleton] at h; exact h

theorem mem_foldl_dictSet {κ β : Type} [DecidableEq κ] (l d : List (κ × β)) (e : κ × β)
    (h : e ∈ l.foldl (fun d e => dictSet d e.1 e.2) d) : e ∈ d ∨ e ∈ l := by
  induction l generalizing d with
  | nil => left; simpa using h
  | cons x l ih =>
    simp only [List.foldl_cons] at h
    rcases ih _ h with h | h
    · rcases mem_dictSet _ _ _ _ h with h | h
      · left; exact h
      · right; rw [h]; simp
    · right; exact List.mem_cons_of_mem _ h

theorem mem_dictOfList {κ β : Type} [DecidableEq κ] (l : List (κ × β)) (e : κ × β)
    (h : e ∈ dictOfList l) : e ∈ l := by
  rcases mem_foldl_dictSet l [] e h with h | h
  · simp at h
  · exact h

theorem foldl_dictSet_nodup {κ β : Type} [DecidableEq κ] (l d : List (κ × β))
    (h : ((d ++ l).map Prod.fst).Nodup) : l.foldl (fun d e => dictSet d e.1 e.2) d = d ++ l := by
  induction l generalizing d with
  | nil => simp
  | cons e l ih =>
    simp only [List.foldl_cons]
    have hnot : d.any (fun x => x.1 = e.1) = false := by
      rw [List.any_eq_false]
      intro x hx
      simp only [decide_eq_true_eq]
      intro hxe
      simp only [List.map_append, List.map_cons] at h
      have := (List.nodup_append.mp h).2.2 x.1 (List.mem_map_of_mem hx) e.1 (by simp)
      exact this hxe
    have hset : dictSet d e.1 e.2 = d ++ [e] := by
      unfold dictSet; simp [hnot]
    rw [hset, ih]
    · simp
    · simpa using h

theorem dictOfList_nodup {κ β : Type} [DecidableEq κ] (l : List (κ × β)) (h : (l.map Prod.fst).Nodup) :
    dictOfList l = l := by
  unfold dictOfList
  rw [foldl_dictSet_nodup l [] (by simpa using h)]
  simp

/-! #### positions, blanking, lowering of one node -/

theorem mem_positionsFrom (name : String) (k : Nat) (args : List Val) (j : Nat) :
    j ∈ positionsFrom name k args ↔ ∃ i, j = k + i ∧ args[i]? = some (.str name) := by
  induction args generalizing k with
  | nil => simp [positionsFrom]
  | cons a as ih =>
    unfold positionsFrom
    by_cases ha : a = .str name
    · simp only [ha, ↓reduceIte, List.mem_cons, ih]
      constructor
      · rintro (h | ⟨i, hi, hget⟩)
        · exact ⟨0, by omega, by simp⟩
        · exact ⟨i + 1, by omega, by simpa using hget⟩
      · rintro ⟨i, hi, hget⟩
        cases i with
        | zero => left; omega
        | succ i => right; exact ⟨i, by omega, by simpa using hget⟩
    · simp only [ha, ↓reduceIte, ih]
      constructor
      · rintro ⟨i, hi, hget⟩
        exact ⟨i + 1, by omega, by simpa using hget⟩
      · rintro ⟨i, hi, hget⟩
        cases i with
        | zero => simp at hget; exact absurd hget ha
        | succ i => exact ⟨i, by omega, by simpa using hget⟩

theorem mem_positions (name : String) (args : List Val) (j : Nat) :
    j ∈ positions name args ↔ args[j]? = some (.str name) := by
  unfold positions
  rw [mem_positionsFrom]
  constructor
  · rintro ⟨i, hi, h⟩; have : j = i := by omega
    subst this; exact h
  · intro h; exact ⟨j, by omega, h⟩

theorem blank_length (ps : List Val) (idxs : List Nat) : (blank ps idxs).length = ps.length := by
  unfold blank
  induction idxs generalizing ps with
  | nil => rfl
  | cons i idxs ih => simp only [List.foldl_cons]; rw [ih]; simp

theorem blank_getElem? (ps : List Val) (idxs : List Nat) (j : Nat) (h : j ∉ idxs) :
    (blank ps idxs)[j]? = ps[j]? := by
  unfold blank
  induction idxs generalizing ps with
  | nil => rfl
  | cons i idxs ih =>
    simp only [List.foldl_cons]
    simp only [List.mem_cons, not_or] at h
    rw [ih _ h.2, List.getElem?_set_ne (fun hij => h.1 hij.symm)]

/-- the edges the inputs of a node call for: one per argument that names an input -/
def wantedEdges (name : String) (args : List Val) (inputs : List (String × InRef)) : List Edge :=
  inputs.flatMap (fun pr => (positions pr.1 args).map
    (fun i => { source := pr.2.source, sink := name, ps := some i, kw := none : Edge }))

theorem lowerInputs_ok (name : String) (args : List Val) (inputs : List (String × InRef))
    (e0 : List Edge) (ps0 : List Val) (e : List Edge) (ps : List Val)
    (h : lowerInputs name args inputs (e0, ps0) = .ok (e, ps)) :
    e = e0 ++ wantedEdges name args inputs ∧ ps.length = ps0.length ∧
    (∀ j, (∀ p r, (p, r) ∈ inputs → j ∉ positions p args) → ps[j]? = ps0[j]?) ∧
    (∀ p r, (p, r) ∈ inputs → positions p args ≠ []) := by
  induction inputs generalizing e0 ps0 with
  | nil =>
    simp only [lowerInputs, Except.ok.injEq, Prod.mk.injEq] at h
    obtain ⟨h1, h2⟩ := h
    subst h1; subst h2
    simp [wantedEdges]
  | cons pr rest ih =>
    obtain ⟨p, r⟩ := pr
    simp only [lowerInputs] at h
    split at h
    · cases h
    · rename_i idxs hne
      obtain ⟨h1, h2, h3, h4⟩ := ih _ _ h
      refine ⟨?_, ?_, ?_, ?_⟩
      · rw [h1]; simp [wantedEdges, List.append_assoc]
      · rw [h2, blank_length]
      · intro j hj
        rw [h3 j (fun p' r' hm => hj p' r' (List.mem_cons_of_mem _ hm))]
        exact blank_getElem? _ _ _ (hj p r (by simp))
      · intro p' r' hm
        rcases List.mem_cons.mp hm with hm | hm
        · cases hm; exact hne
        · exact h4 p' r' hm

/-! #### argument assembly -/

theorem ensure_of_lt (l : List Val) (i : Nat) (h : i < l.length) : ensure l i = l := by
  unfold ensure
  have : i + 1 - l.length = 0 := by omega
  simp [this]

theorem setArg_of_lt (l : List Val) (i : Nat) (v : Val) (h : i < l.length) : setArg l i v = l.set i v := by
  unfold setArg; rw [ensure_of_lt l i h]

theorem setArg_length_eq (l : List Val) (v : Val) : setArg l l.length v = l ++ [v] := by
  unfold setArg ensure
  have : l.length + 1 - l.length = 1 := by omega
  rw [this]
  simp

theorem staticArgs_enumFrom_aux (l acc : List Val) :
    (enumFrom acc.length l).foldl (fun l e => setArg l e.1 e.2) acc = acc ++ l := by
  induction l generalizing acc with
  | nil => simp [enumFrom]
  | cons a as ih =>
    simp only [enumFrom, List.foldl_cons, setArg_length_eq]
    have := ih (acc ++ [a])
    simp only [List.length_append, List.length_cons, List.length_nil, Nat.zero_add] at this
    rw [this]; simp

theorem staticArgs_enumFrom (l : List Val) : staticArgs (enumFrom 0 l) = l := by
  unfold staticArgs
  have := staticArgs_enumFrom_aux l []
  simpa using this

theorem provideAll_ok (mem : Ds → Option Val) (src : List (Param × Ds))
    (h : ∀ e ∈ src, (mem e.2).isSome) :
    provideAll mem src = .ok (src.map (fun e => (e.1, (mem e.2).getD .none))) := by
  induction src with
  | nil => rfl
  | cons e src ih =>
    obtain ⟨p, ds⟩ := e
    have h1 := h (p, ds) (by simp)
    simp only [provideAll]
    cases hm : mem ds with
    | none => simp [hm] at h1
    | some v =>
      simp only [ih (fun e he => h e (List.mem_cons_of_mem _ he))]
      simp [hm]

theorem foldl_applyUpstream (ups : List (Param × Val)) (a : List Val) (k : List (String × Val))
    (hb : ∀ i v, (Param.ps i, v) ∈ ups → i < a.length) (hk : ∀ e ∈ ups, ∀ s, e.1 ≠ Param.kw s) :
    (ups.foldl applyUpstream (a, k)).2 = k ∧ (ups.foldl applyUpstream (a, k)).1.length = a.length ∧
    ∀ j, (ups.foldl applyUpstream (a, k)).1[j]? =
      match lastLookup (Param.ps j) ups with | some v => some v | none => a[j]? := by
  induction ups generalizing a with
  | nil => simp [lastLookup]
  | cons e ups ih =>
    obtain ⟨p, v⟩ := e
    cases p with
    | kw s => exact absurd rfl (hk (Param.kw s, v) (by simp) s)
    | ps i =>
      have hi : i < a.length := hb i v (by simp)
      simp only [List.foldl_cons, applyUpstream, setArg_of_lt a i v hi]
      have hlen : (a.set i v).length = a.length := by simp
      obtain ⟨h1, h2, h3⟩ := ih (a.set i v)
        (fun i' v' hm => by rw [hlen]; exact hb i' v' (List.mem_cons_of_mem _ hm))
        (fun e he => hk e (List.mem_cons_of_mem _ he))
      refine ⟨h1, by rw [h2, hlen], ?_⟩
      intro j
      rw [h3 j]
      simp only [lastLookup]
      cases lastLookup (Param.ps j) ups with
      | some w => rfl
      | none =>
        by_cases hij : i = j
        · subst hij; simp [hi]
        · have : ¬ Param.ps i = Param.ps j := by intro h; cases h; exact hij rfl
          simp [this, List.getElem?_set_ne hij]

/-! #### association lists with distinct keys -/

theorem lookup_some_mem (l : List (String × InRef)) (k : String) (v : InRef) (h : l.lookup k = some v) :
    (k, v) ∈ l := by
  induction l with
  | nil => simp at h
  | cons e l ih =>
    obtain ⟨k', v'⟩ := e
    rw [List.lookup_cons] at h
    by_cases hk : k = k'
    · subst hk; simp at h; subst h; simp
    · have : (k == k') = false := by simpa using hk
      rw [this] at h
      exact List.mem_cons_of_mem _ (ih h)

theorem lookup_of_mem (l : List (String × InRef)) (k : String) (v : InRef) (hn : (l.map Prod.fst).Nodup)
    (h : (k, v) ∈ l) : l.lookup k = some v := by
  induction l with
  | nil => simp at h
  | cons e l ih =>
    obtain ⟨k', v'⟩ := e
    rw [List.lookup_cons]
    simp only [List.map_cons, List.nodup_cons] at hn
    rcases List.mem_cons.mp h with h | h
    · cases h; simp
    · have hmem : k ∈ l.map Prod.fst := List.mem_map.mpr ⟨(k, v), h, rfl⟩
      have hne : k ≠ k' := by
        intro hk; subst hk
        exact hn.1 hmem
      have : (k == k') = false := by simpa using hne
      rw [this]
      exact ih hn.2 h

/-- what the callable is to receive in place of the declared argument `a` -/
def subst (inputs : List (String × InRef)) (mem : Ds → Option Val) (a : Val) : Val :=
  match a with
  | .str s =>
    match inputs.lookup s with
    | some r => (mem r.source).getD .none
    | none => a
  | _ => a

theorem mem_psAssign (name : String) (args : List Val) (inputs : List (String × InRef)) (q : Param) (ds : Ds) :
    (q, ds) ∈ (wantedEdges name args inputs).filterMap (fun e => e.param?.map (fun p => (p, e.source))) ↔
      ∃ p r i, (p, r) ∈ inputs ∧ args[i]? = some (.str p) ∧ q = .ps i ∧ ds = r.source := by
  simp only [wantedEdges, List.mem_filterMap, List.mem_flatMap, List.mem_map, mem_positions]
  constructor
  · rintro ⟨e, ⟨pr, hpr, i, hi, rfl⟩, he⟩
    simp [Edge.param?] at he
    exact ⟨pr.1, pr.2, i, hpr, hi, he.1.symm, he.2.symm⟩
  · rintro ⟨p, r, i, hpr, hi, rfl, rfl⟩
    exact ⟨_, ⟨(p, r), hpr, i, hi, rfl⟩, by simp [Edge.param?]⟩

theorem assemble_lowered (args ps : List Val) (kwargs : List (String × Val)) (inputs : List (String × InRef))
    (mem : Ds → Option Val) (L : List (Param × Ds)) (t : Task)
    (hL : ∀ q ds, (q, ds) ∈ L ↔ ∃ p r i, (p, r) ∈ inputs ∧ args[i]? = some (.str p) ∧ q = .ps i ∧ ds = r.source)
    (hin : (inputs.map Prod.fst).Nodup)
    (havail : ∀ p r, (p, r) ∈ inputs → (mem r.source).isSome)
    (hlen : ps.length = args.length)
    (hoff : ∀ j, (∀ p r, (p, r) ∈ inputs → j ∉ positions p args) → ps[j]? = args[j]?)
    (hstat : staticArgs t.staticPs = ps) (hkwd : dictOfList t.staticKw = kwargs) :
    assemble t (dictOfList L) mem = .ok (args.map (subst inputs mem), kwargs) := by
  have hmemD : ∀ e ∈ dictOfList L,
      ∃ p r i, (p, r) ∈ inputs ∧ args[i]? = some (.str p) ∧ e.1 = .ps i ∧ e.2 = r.source := by
    intro e he
    exact (hL e.1 e.2).mp (mem_dictOfList _ _ he)
  have hprov := provideAll_ok mem (dictOfList L) (fun e he => by
    obtain ⟨p, r, i, hpr, _, _, hds⟩ := hmemD e he
    rw [hds]; exact havail p r hpr)
  obtain ⟨hf2, _, hf3⟩ := foldl_applyUpstream
    ((dictOfList L).map (fun e => (e.1, (fun ds => (mem ds).getD Val.none) e.2))) ps kwargs
    (by
      intro i v hm
      simp only [List.mem_map] at hm
      obtain ⟨e, he, heq⟩ := hm
      obtain ⟨p, r, i', _, hget, hk, _⟩ := hmemD e he
      have h1 : e.1 = .ps i := congrArg Prod.fst heq
      rw [h1] at hk; cases hk
      rw [hlen]
      exact (List.getElem?_eq_some_iff.mp hget).1)
    (by
      intro e he s
      simp only [List.mem_map] at he
      obtain ⟨e', he', heq⟩ := he
      obtain ⟨_, _, i, _, _, hk, _⟩ := hmemD e' he'
      rw [← heq]; simp only; rw [hk]; intro h; cases h)
  simp only [assemble, hprov, hstat, hkwd]
  congr 1
  refine Prod.ext ?_ hf2
  simp only
  apply List.ext_getElem?
  intro j
  rw [hf3 j, lastLookup_map (Param.ps j) (fun ds => (mem ds).getD Val.none) (dictOfList L),
    lastLookup_dictOfList, List.getElem?_map]
  cases hlast : lastLookup (Param.ps j) L with
  | some ds =>
    obtain ⟨p, r, i, hpr, hget, hk, hds⟩ := (hL _ _).mp (lastLookup_mem _ _ _ hlast)
    cases hk
    simp only [Option.map_some, hget, subst, lookup_of_mem inputs p r hin hpr, hds]
  | none =>
    have hno : ∀ p r, (p, r) ∈ inputs → args[j]? ≠ some (.str p) := by
      intro p r hpr hget
      obtain ⟨w, hw⟩ := lastLookup_isSome (Param.ps j) L r.source
        ((hL (.ps j) r.source).mpr ⟨p, r, j, hpr, hget, rfl, rfl⟩)
      rw [hlast] at hw; cases hw
    simp only [Option.map_none]
    rw [hoff j (fun p r hpr hj => hno p r hpr ((mem_positions p args j).mp hj))]
    cases hget : args[j]? with
    | none => rfl
    | some a =>
      simp only [Option.map_some]
      congr 1
      cases a with
      | str s =>
        simp only [subst]
        cases hlk : inputs.lookup s with
        | none => rfl
        | some r => exact absurd hget (hno s r (lookup_some_mem _ _ _ hlk))
      | _ => rfl

theorem node_received (name : String) (n : SNode) (args : List Val) (kwargs : List (String × Val))
    (hp : n.payload = some (args, kwargs))
    (hin : (n.inputs.map Prod.fst).Nodup) (hkw : (kwargs.map Prod.fst).Nodup)
    (t : Task) (es : List Edge) (hl : node2task name n = .ok (t, es))
    (edges : List Edge) (hall : edges.all (fun e => e.param?.isSome) = true)
    (hfil : edges.filter (fun e => e.sink = name) = es)
    (mem : Ds → Option Val) (havail : ∀ p r, (p, r) ∈ n.inputs → (mem r.source).isSome)
    (pub : String → Bool) (res : Result) :
    (run name t edges mem pub res).received = some (args.map (subst n.inputs mem), kwargs) := by
  simp only [node2task, hp] at hl
  cases hli : lowerInputs name args n.inputs ([], args) with
  | error e => simp [hli] at hl
  | ok r =>
    obtain ⟨es', ps⟩ := r
    simp only [hli, Except.ok.injEq, Prod.mk.injEq] at hl
    obtain ⟨ht, hes⟩ := hl
    subst hes
    obtain ⟨hedges, hlen, hoff, _⟩ := lowerInputs_ok name args n.inputs [] args es' ps hli
    simp only [List.nil_append] at hedges
    have hsrc : paramSource name edges = .ok (dictOfList
        ((wantedEdges name args n.inputs).filterMap (fun e => e.param?.map (fun p => (p, e.source))))) := by
      simp only [paramSource, hall, ↓reduceIte, paramAssignments, hfil, hedges]
    have hstat : staticArgs t.staticPs = ps := by rw [← ht]; exact staticArgs_enumFrom ps
    have hkwd : dictOfList t.staticKw = kwargs := by rw [← ht]; exact dictOfList_nodup kwargs hkw
    have hout : t.outputSchema.isEmpty = false := by
      rw [← ht]
      simp only
      split <;> rename_i ho
      · simp [dedup, defaultOutput]
      · cases hno : n.outputs with
        | nil => simp [hno] at ho
        | cons a as => simp [dedup]
    have hrecv := assemble_lowered args ps kwargs n.inputs mem _ t (mem_psAssign name args n.inputs)
      hin havail hlen hoff hstat hkwd
    simp [run, prepare, hsrc, hrecv, hout]

/-! #### whole graphs -/

/-- the edges node `n` (named `name`) calls for -/
def nodeEdges (name : String) (n : SNode) : List Edge :=
  match n.payload with
  | none => []
  | some (args, _) => wantedEdges name args n.inputs

theorem wantedEdges_shape (name : String) (args : List Val) (inputs : List (String × InRef)) (e : Edge)
    (h : e ∈ wantedEdges name args inputs) : e.sink = name ∧ e.param?.isSome = true := by
  simp only [wantedEdges, List.mem_flatMap, List.mem_map] at h
  obtain ⟨pr, _, i, _, rfl⟩ := h
  simp [Edge.param?]

theorem nodeEdges_shape (name : String) (n : SNode) (e : Edge) (h : e ∈ nodeEdges name n) :
    e.sink = name ∧ e.param?.isSome = true := by
  unfold nodeEdges at h
  split at h
  · simp at h
  · exact wantedEdges_shape _ _ _ _ h

theorem node2task_edges (name : String) (n : SNode) (t : Task) (es : List Edge)
    (h : node2task name n = .ok (t, es)) : es = nodeEdges name n := by
  unfold node2task at h
  unfold nodeEdges
  split at h
  · cases h
  · rename_i args kwargs hp
    simp only [hp]
    cases hli : lowerInputs name args n.inputs ([], args) with
    | error e => simp [hli] at h
    | ok r =>
      obtain ⟨es', ps⟩ := r
      simp only [hli, Except.ok.injEq, Prod.mk.injEq] at h
      obtain ⟨h1, _, _, _⟩ := lowerInputs_ok name args n.inputs [] args es' ps hli
      rw [← h.2, h1]; simp

theorem graph2job_spec (g : List (String × SNode)) (j : Job) (h : graph2job g = .ok j) :
    j.tasks.map Prod.fst = g.map Prod.fst ∧ j.edges = g.flatMap (fun x => nodeEdges x.1 x.2) ∧
    (∀ name n, (name, n) ∈ g → ∃ t, node2task name n = .ok (t, nodeEdges name n) ∧ (name, t) ∈ j.tasks) := by
  induction g generalizing j with
  | nil =>
    simp only [graph2job, Except.ok.injEq] at h
    subst h; simp
  | cons x g ih =>
    obtain ⟨name, n⟩ := x
    simp only [graph2job] at h
    cases hn : node2task name n with
    | error e => simp [hn] at h
    | ok r =>
      obtain ⟨t, es⟩ := r
      cases hg : graph2job g with
      | error e => simp [hn, hg] at h
      | ok j' =>
        simp only [hn, hg, Except.ok.injEq] at h
        subst h
        obtain ⟨h1, h2, h3⟩ := ih j' hg
        have hes := node2task_edges name n t es hn
        refine ⟨by simp [h1], by simp [h2, hes], ?_⟩
        intro name' n' hm
        rcases List.mem_cons.mp hm with hm | hm
        · cases hm
          exact ⟨t, by rw [hn, hes], by simp⟩
        · obtain ⟨t', ht', hmt⟩ := h3 name' n' hm
          exact ⟨t', ht', List.mem_cons_of_mem _ hmt⟩

theorem filter_sink (g : List (String × SNode)) (hn : (g.map Prod.fst).Nodup) (name : String) (n : SNode)
    (hm : (name, n) ∈ g) :
    (g.flatMap (fun x => nodeEdges x.1 x.2)).filter (fun e => e.sink = name) = nodeEdges name n := by
  induction g with
  | nil => simp at hm
  | cons x g ih =>
    simp only [List.map_cons, List.nodup_cons] at hn
    simp only [List.flatMap_cons, List.filter_append]
    have hrest : ∀ e ∈ g.flatMap (fun x => nodeEdges x.1 x.2), e.sink ∈ g.map Prod.fst := by
      intro e he
      simp only [List.mem_flatMap] at he
      obtain ⟨y, hy, hey⟩ := he
      rw [(nodeEdges_shape _ _ _ hey).1]
      exact List.mem_map_of_mem hy
    rcases List.mem_cons.mp hm with hm | hm
    · subst hm
      have h1 : (nodeEdges name n).filter (fun e => e.sink = name) = nodeEdges name n := by
        rw [List.filter_eq_self]
        intro e he; simp [(nodeEdges_shape _ _ _ he).1]
      have h2 : (g.flatMap (fun x => nodeEdges x.1 x.2)).filter (fun e => e.sink = name) = [] := by
        rw [List.filter_eq_nil_iff]
        intro e he
        simp only [decide_eq_true_eq]
        intro hs
        exact hn.1 (hs ▸ hrest e he)
      simp [h1, h2]
    · have hne : x.1 ≠ name := by
        intro hx
        exact hn.1 (hx ▸ List.mem_map_of_mem (f := Prod.fst) hm)
      have h1 : (nodeEdges x.1 x.2).filter (fun e => e.sink = name) = [] := by
        rw [List.filter_eq_nil_iff]
        intro e he
        simp only [decide_eq_true_eq]
        rw [(nodeEdges_shape _ _ _ he).1]; exact hne
      rw [h1, ih hn.2 hm]; simp

/-! #### output binding -/

/-- every yielded value can be put into shared memory -/
def AllPicklable (ys : List Val) : Prop := ∀ y ∈ ys, picklable y = true

theorem bindOutputs_ok (pub : String → Bool) (outs : List String) (ys : List Val)
    (h : (bindOutputs pub outs ys).2 = none) :
    ys.length = outs.length ∧
    (bindOutputs pub outs ys).1 = List.zipWith (fun o y => ⟨o, y, pub o⟩) outs ys := by
  induction outs generalizing ys with
  | nil => cases ys <;> simp_all [bindOutputs]
  | cons o os ih =>
    cases ys with
    | nil => simp [bindOutputs] at h
    | cons y ys =>
      simp only [bindOutputs] at h ⊢
      split at h
      · simp at h
      · rename_i hc
        simp only [hc]
        obtain ⟨h1, h2⟩ := ih ys h
        simp [h1, h2]

theorem bindOutputs_picklable (pub : String → Bool) (outs : List String) (ys : List Val) (hp : AllPicklable ys) :
    (bindOutputs pub outs ys).1 = List.zipWith (fun o y => ⟨o, y, pub o⟩) outs ys ∧
    (bindOutputs pub outs ys).2 =
      if ys.length = outs.length then none else if ys.length < outs.length then some .fewerResults else some .moreResults := by
  induction outs generalizing ys with
  | nil => cases ys <;> simp [bindOutputs]
  | cons o os ih =>
    cases ys with
    | nil => simp [bindOutputs]
    | cons y ys =>
      have hy : picklable y = true := hp y (by simp)
      obtain ⟨h1, h2⟩ := ih ys (fun z hz => hp z (List.mem_cons_of_mem _ hz))
      simp only [bindOutputs, hy, Bool.not_true, Bool.and_false, Bool.false_eq_true, ↓reduceIte, h1, h2,
        List.zipWith_cons_cons, List.length_cons, Nat.add_right_cancel_iff, Nat.add_lt_add_iff_right, true_and]

theorem bindOutputs_mismatch (pub : String → Bool) (outs : List String) (ys : List Val)
    (h : ys.length ≠ outs.length) : (bindOutputs pub outs ys).2.isSome = true := by
  cases hr : (bindOutputs pub outs ys).2 with
  | some e => rfl
  | none => exact absurd (bindOutputs_ok pub outs ys hr).1 h

theorem lastLookup_zip_nodup (outs : List String) (ys : List Val) (hn : outs.Nodup) (hlen : ys.length = outs.length)
    (k : Nat) (hk : k < outs.length) :
    lastLookup outs[k] (List.zip outs ys) = some (ys[k]'(by omega)) := by
  induction outs generalizing ys k with
  | nil => simp at hk
  | cons o os ih =>
    cases ys with
    | nil => simp at hlen
    | cons y ys =>
      simp only [List.nodup_cons] at hn
      simp only [List.length_cons, Nat.add_right_cancel_iff] at hlen
      cases k with
      | zero =>
        simp only [List.getElem_cons_zero, List.zip_cons_cons, lastLookup]
        cases hl : lastLookup o (List.zip os ys) with
        | none => simp
        | some w => exact absurd (List.of_mem_zip (lastLookup_mem _ _ _ hl)).1 hn.1
      | succ k =>
        simp only [List.getElem_cons_succ, List.zip_cons_cons, lastLookup]
        rw [ih ys hn.2 hlen k (by simpa using hk)]

theorem handled_pairs (pub : String → Bool) (outs : List String) (ys : List Val) :
    (List.zipWith (fun o y => (⟨o, y, pub o⟩ : Handled)) outs ys).map (fun h => (h.output, h.value)) = List.zip outs ys := by
  induction outs generalizing ys with
  | nil => simp
  | cons o os ih => cases ys <;> simp [ih]

theorem handled_outputs (pub : String → Bool) (outs : List String) (ys : List Val) (h : ys.length = outs.length) :
    (List.zipWith (fun o y => (⟨o, y, pub o⟩ : Handled)) outs ys).map (·.output) = outs := by
  induction outs generalizing ys with
  | nil => simp
  | cons o os ih =>
    cases ys with
    | nil => simp at h
    | cons y ys => simp only [List.length_cons, Nat.add_right_cancel_iff] at h; simp [ih ys h]

theorem dedup_nodup (l : List String) (h : l.Nodup) : dedup l = l := by
  induction l with
  | nil => rfl
  | cons a as ih =>
    simp only [List.nodup_cons] at h
    simp only [dedup, ih h.2]
    congr 1
    rw [List.filter_eq_self]
    intro b hb
    simp only [ne_eq, decide_not, Bool.not_eq_eq_eq_not, Bool.not_true, decide_eq_false_iff_not]
    intro hba; subst hba; exact h.1 hb

/-! #### shape of `run` -/

theorem run_cases (tid : String) (t : Task) (edges : List Edge) (mem : Ds → Option Val) (pub : String → Bool)
    (res : Result) :
    (∃ e, run tid t edges mem pub res = ⟨none, [], some e⟩) ∨
    (∃ recv, run tid t edges mem pub res = ⟨some recv, (store pub t.outputSchema res).1, (store pub t.outputSchema res).2⟩) := by
  unfold run
  cases prepare tid t edges mem with
  | error e => left; exact ⟨e, rfl⟩
  | ok recv => right; exact ⟨recv, rfl⟩

theorem run_of_received (tid : String) (t : Task) (edges : List Edge) (mem : Ds → Option Val) (pub : String → Bool)
    (res : Result) (h : (run tid t edges mem pub res).received.isSome = true) :
    (run tid t edges mem pub res).handled = (store pub t.outputSchema res).1 ∧
    (run tid t edges mem pub res).err = (store pub t.outputSchema res).2 ∧ t.outputSchema ≠ [] := by
  unfold run at h ⊢
  cases hp : prepare tid t edges mem with
  | error e => simp [hp] at h
  | ok recv =>
    refine ⟨rfl, rfl, ?_⟩
    unfold prepare at hp
    split at hp
    · cases hp
    · split at hp
      · cases hp
      · split at hp
        · cases hp
        · rename_i hne; intro h0; simp [h0] at hne

theorem store_gen (pub : String → Bool) (outs : List String) (ys : List Val) (h : 2 ≤ outs.length) :
    store pub outs (.gen ys) = bindOutputs pub outs ys := by
  match outs, h with
  | o₁ :: o₂ :: os, _ => simp [store]

theorem store_lst (pub : String → Bool) (outs : List String) (self : Val) (ys : List Val) (h : 2 ≤ outs.length) :
    store pub outs (.lst self ys) =
      ((bindOutputs pub outs ys).1, afterZipLst (bindOutputs pub outs ys).2) := by
  match outs, h with
  | o₁ :: o₂ :: os, _ => simp only [store]

theorem store_genRaise (pub : String → Bool) (outs : List String) (ys : List Val) (h : 2 ≤ outs.length) :
    store pub outs (.genRaise ys) =
      ((bindOutputs pub outs ys).1, afterGenRaise (bindOutputs pub outs ys).2) := by
  match outs, h with
  | o₁ :: o₂ :: os, _ => simp only [store]

end Aux
open Aux

/-! ## C10 property theorems -/

/-- every input of the node is named by exactly one argument -/
def InputsOccurOnce (n : SNode) : Prop :=
  match n.payload with
  | none => True
  | some (args, _) => ∀ pr ∈ n.inputs, (positions pr.1 args).length = 1

instance (n : SNode) : Decidable (InputsOccurOnce n) :=
  match h : n.payload with
  | none => isTrue (by simp [InputsOccurOnce, h])
  | some (args, _) =>
    decidable_of_iff (∀ pr ∈ n.inputs, (positions pr.1 args).length = 1) (by simp [InputsOccurOnce, h])

/-- **Lowering: tasks and edges.** If `graph2job` succeeds then there is exactly one task per node, under the
node's name and in the same order; the edges are exactly, node by node and input by input, one positional edge
per argument position that names the input, from the dataset the input refers to, into the node; and when every
input is named once (what `fluent.Node` establishes, `c10_fluent_inputs_once`) this is one edge per input. -/
theorem c10_tasks_edges (g : List (String × SNode)) (j : Job) (h : graph2job g = .ok j) :
    j.tasks.map Prod.fst = g.map Prod.fst ∧
    j.edges = g.flatMap (fun x => nodeEdges x.1 x.2) ∧
    (∀ e, e ∈ j.edges ↔ ∃ name n args kwargs p r i, (name, n) ∈ g ∧ n.payload = some (args, kwargs) ∧
        (p, r) ∈ n.inputs ∧ args[i]? = some (.str p) ∧
        e = { source := r.source, sink := name, ps := some i, kw := none }) ∧
    ((∀ x ∈ g, InputsOccurOnce x.2) →
        j.edges.map (fun e => (e.source, e.sink)) = g.flatMap (fun x => x.2.inputs.map (fun pr => (pr.2.source, x.1)))) := by
  obtain ⟨h1, h2, h3⟩ := graph2job_spec g j h
  refine ⟨h1, h2, ?_, ?_⟩
  · intro e
    rw [h2]
    simp only [List.mem_flatMap]
    constructor
    · rintro ⟨x, hx, he⟩
      unfold nodeEdges at he
      split at he
      · simp at he
      · rename_i args kwargs hp
        simp only [wantedEdges, List.mem_flatMap, List.mem_map, mem_positions] at he
        obtain ⟨pr, hpr, i, hi, rfl⟩ := he
        exact ⟨x.1, x.2, args, kwargs, pr.1, pr.2, i, hx, hp, hpr, hi, rfl⟩
    · rintro ⟨name, n, args, kwargs, p, r, i, hm, hp, hpr, hi, rfl⟩
      refine ⟨(name, n), hm, ?_⟩
      simp only [nodeEdges, hp, wantedEdges, List.mem_flatMap, List.mem_map, mem_positions]
      exact ⟨(p, r), hpr, i, hi, rfl⟩
  · intro honce
    have hnode : ∀ x ∈ g, (nodeEdges x.1 x.2).map (fun e => (e.source, e.sink)) =
        x.2.inputs.map (fun pr => (pr.2.source, x.1)) := by
      intro x hx
      have ho := honce x hx
      unfold InputsOccurOnce at ho
      unfold nodeEdges
      split
      · rename_i hp
        -- lowering succeeded, so a node without tuple payload cannot be in g
        obtain ⟨t, ht, _⟩ := h3 x.1 x.2 hx
        simp [node2task, hp] at ht
      · rename_i args kwargs hp
        simp only [hp] at ho
        generalize x.2.inputs = inputs at ho
        induction inputs with
        | nil => simp [wantedEdges]
        | cons pr rest ih =>
          have h1 := ho pr (by simp)
          obtain ⟨i, hi⟩ := List.length_eq_one_iff.mp h1
          have := ih (fun q hq => ho q (List.mem_cons_of_mem _ hq))
          simp only [wantedEdges] at this ⊢
          simp [hi, this]
    rw [h2]
    clear h1 h2 h3 h honce
    induction g with
    | nil => simp
    | cons x g ih =>
      simp only [List.flatMap_cons, List.map_append]
      rw [hnode x (by simp), ih (fun y hy => hnode y (List.mem_cons_of_mem _ hy))]

/-- example graph: `b = f(a.1, 5, a.0, a.1, k=1)` -/
def exGraph : List (String × SNode) :=
  [("a", ⟨some ([], []), [], ["0", "1"], false⟩),
   ("b", ⟨some ([.str "input0", .int 5, .str "input1", .str "input0"], [("k", .int 1)]),
          [("input0", .named "a" "1"), ("input1", .dflt "a")], [], false⟩)]

example : (graph2job exGraph).toOption.map (·.edges) =
    some [⟨⟨"a", "1"⟩, "b", some 0, none⟩, ⟨⟨"a", "1"⟩, "b", some 3, none⟩, ⟨⟨"a", "0"⟩, "b", some 2, none⟩] := by decide

/-- **Argument binding.** For every graph that lowers (node names, input names and kwarg keys being dict keys, hence
distinct) and every node of it: when the node's task is run against the job's edges and every upstream dataset is
available, the callable receives exactly the declared `args` with every argument that names an input replaced by
the value of the dataset that input refers to — at every position where it occurs, whichever order, however many
inputs come from the same parent — and exactly the declared `kwargs`.  No `InputsOccurOnce` precondition is
needed after the fix of `node2task`. -/
theorem c10_binding (g : List (String × SNode)) (j : Job) (hg : graph2job g = .ok j)
    (hnames : (g.map Prod.fst).Nodup)
    (name : String) (n : SNode) (args : List Val) (kwargs : List (String × Val))
    (hm : (name, n) ∈ g) (hp : n.payload = some (args, kwargs))
    (hin : (n.inputs.map Prod.fst).Nodup) (hkw : (kwargs.map Prod.fst).Nodup)
    (mem : Ds → Option Val) (havail : ∀ p r, (p, r) ∈ n.inputs → (mem r.source).isSome)
    (pub : String → Bool) (res : Result) :
    ∃ t, (name, t) ∈ j.tasks ∧
      (run name t j.edges mem pub res).received = some (args.map (subst n.inputs mem), kwargs) := by
  obtain ⟨_, h2, h3⟩ := graph2job_spec g j hg
  obtain ⟨t, ht, hmt⟩ := h3 name n hm
  refine ⟨t, hmt, ?_⟩
  apply node_received name n args kwargs hp hin hkw t (nodeEdges name n) ht j.edges
  · rw [h2, List.all_eq_true]
    intro e he
    simp only [List.mem_flatMap] at he
    obtain ⟨x, _, hex⟩ := he
    exact (nodeEdges_shape _ _ _ hex).2
  · rw [h2]; exact filter_sink g hnames name n hm
  · exact havail

example : (graph2job exGraph).toOption.bind (fun j => (j.tasks.lookup "b").map (fun t =>
      (run "b" t j.edges
        (fun ds => if ds = ⟨"a", "0"⟩ then some (.tok "v0") else if ds = ⟨"a", "1"⟩ then some (.tok "v1") else none)
        (fun _ => true) (.value .none)).received)) =
    some (some ([.tok "v1", .int 5, .tok "v0", .tok "v1"], [("k", .int 1)])) := by decide

/-- `fluent.Node.__init__` makes lowering total and, for payloads that mention no placeholder twice, establishes
`InputsOccurOnce`: after the constructor every `inputX`, `X < nInputs`, occurs in `args` at least once, and
exactly once if the author's `args` mention it at most once. -/
theorem c10_fluent_inputs_once (args : List Val) (nInputs numOutputs : Nat) :
    (∀ x, x < nInputs → 1 ≤ (positions (inputName x) (fluentNode args nInputs numOutputs).args).length) ∧
    ((∀ x, x < nInputs → (positions (inputName x) args).length ≤ 1) →
      ∀ x, x < nInputs → (positions (inputName x) (fluentNode args nInputs numOutputs).args).length = 1) := by
  have hinj : ∀ x y : Nat, inputName x = inputName y → x = y := by
    intro x y h
    unfold inputName at h
    exact Nat.repr_inj.mp ((String.append_right_inj _).mp h)
  have hposA : ∀ (nm : String) (k : Nat) (l₁ l₂ : List Val),
      positionsFrom nm k (l₁ ++ l₂) = positionsFrom nm k l₁ ++ positionsFrom nm (k + l₁.length) l₂ := by
    intro nm k l₁ l₂
    induction l₁ generalizing k with
    | nil => simp [positionsFrom]
    | cons a as ih =>
      simp only [List.cons_append, positionsFrom, List.length_cons]
      split <;> simp [ih, Nat.add_assoc, Nat.add_comm 1]
  have hcount : ∀ (y x : Nat) (l : List Val),
      (positions (inputName y) (l ++ [.str (inputName x)])).length =
        (positions (inputName y) l).length + (if x = y then 1 else 0) := by
    intro y x l
    unfold positions
    rw [hposA]
    simp only [List.length_append, positionsFrom]
    by_cases hxy : x = y
    · subst hxy; simp
    · have : ¬ (Val.str (inputName x) = Val.str (inputName y)) := by
        intro h; exact hxy (hinj _ _ (Val.str.inj h))
      simp [hxy, this]
  have hcontains : ∀ (x : Nat) (l : List Val),
      l.contains (.str (inputName x)) = true ↔ 1 ≤ (positions (inputName x) l).length := by
    intro x l
    rw [List.contains_iff_mem]
    constructor
    · intro h
      obtain ⟨i, hi, hget⟩ := List.getElem_of_mem h
      have : i ∈ positions (inputName x) l := (mem_positions _ _ _).mpr (List.getElem?_eq_some_iff.mpr ⟨hi, hget⟩)
      exact List.length_pos_of_mem this
    · intro h
      obtain ⟨i, hi⟩ := List.exists_mem_of_length_pos h
      exact List.mem_of_getElem? ((mem_positions _ _ _).mp hi)
  have key : ∀ (xs : List Nat) (l : List Val), xs.Nodup → ∀ y,
      (positions (inputName y) (completeArgs l xs)).length =
        if y ∈ xs ∧ (positions (inputName y) l).length = 0 then 1 else (positions (inputName y) l).length := by
    intro xs
    induction xs with
    | nil => intro l _ y; simp [completeArgs]
    | cons x xs ih =>
      intro l hn y
      simp only [List.nodup_cons] at hn
      unfold completeArgs
      by_cases hc : l.contains (.str (inputName x)) = true
      · simp only [hc, ↓reduceIte]
        rw [ih l hn.2 y]
        have hx := (hcontains x l).mp hc
        by_cases hyx : y = x
        · subst hyx
          have : (positions (inputName y) l).length ≠ 0 := by omega
          simp [this]
        · simp [hyx]
      · simp only [hc, Bool.false_eq_true, ↓reduceIte]
        rw [ih _ hn.2 y, hcount y x l]
        have hx : (positions (inputName x) l).length = 0 := by
          have : ¬ 1 ≤ (positions (inputName x) l).length := fun h => hc ((hcontains x l).mpr h)
          omega
        by_cases hyx : y = x
        · subst hyx
          simp [hn.1, hx]
        · have : ¬ x = y := fun h => hyx h.symm
          simp [hyx, this]
  have hr := key (List.range nInputs) args List.nodup_range
  refine ⟨?_, ?_⟩
  · intro x hx
    simp only [fluentNode]
    rw [hr x]
    have hmem : x ∈ List.range nInputs := List.mem_range.mpr hx
    by_cases h0 : (positions (inputName x) args).length = 0
    · simp [hmem, h0]
    · simp only [h0, and_false, ↓reduceIte]; omega
  · intro hle x hx
    simp only [fluentNode]
    rw [hr x]
    have := hle x hx
    have hmem : x ∈ List.range nInputs := List.mem_range.mpr hx
    split
    · rfl
    · rename_i hnot
      simp only [hmem, true_and] at hnot
      omega

/-- a serialised node built by `fluent.Node` from author arguments that mention no placeholder twice satisfies
`InputsOccurOnce` (hence, by `c10_tasks_edges`, lowers to exactly one edge per input) -/
theorem c10_fluent_establishes_once (args : List Val) (kwargs : List (String × Val)) (nInputs numOutputs : Nat)
    (n : SNode) (hp : n.payload = some ((fluentNode args nInputs numOutputs).args, kwargs))
    (hi : n.inputs.map Prod.fst = (fluentNode args nInputs numOutputs).inputNames)
    (hle : ∀ x, x < nInputs → (positions (inputName x) args).length ≤ 1) : InputsOccurOnce n := by
  simp only [InputsOccurOnce, hp]
  intro pr hpr
  have : pr.1 ∈ (fluentNode args nInputs numOutputs).inputNames := hi ▸ List.mem_map_of_mem (f := Prod.fst) hpr
  simp only [fluentNode, List.mem_map, List.mem_range] at this
  obtain ⟨x, hx, hname⟩ := this
  rw [← hname]
  exact (c10_fluent_inputs_once args nInputs numOutputs).2 hle x hx

example : InputsOccurOnce ⟨some ((fluentNode [.int 3, .str "input1"] 3 1).args, []),
    [("input0", .dflt "a"), ("input1", .dflt "a"), ("input2", .named "b" "10")], ["0"], false⟩ := by decide

example : (fluentNode [.int 3, .str "input1"] 3 1).args = [.int 3, .str "input1", .str "input0", .str "input2"] := by decide

/-- The statement of the yield-binding clause for one declaration `outs` and one sequence `ys` of yielded values:
whenever a task with these outputs is run and its callable returns a generator yielding `ys`, the run succeeds, makes
exactly one `Memory.handle` call per output in declaration order, and afterwards the worker's memory holds, under the
output declared `k`-th, the value yielded `k`-th. -/
def YieldBinding (outs : List String) (ys : List Val) : Prop :=
  ∀ (tid : String) (t : Task) (edges : List Edge) (mem : Ds → Option Val) (pub : String → Bool),
    t.outputSchema = outs →
    (run tid t edges mem pub (.gen ys)).received.isSome = true →
    (run tid t edges mem pub (.gen ys)).err = none ∧
    (run tid t edges mem pub (.gen ys)).handled.map (·.output) = outs ∧
    ∀ k (hk : k < outs.length) (hk' : k < ys.length),
      memAfter tid (run tid t edges mem pub (.gen ys)).handled mem ⟨tid, outs[k]⟩ = some ys[k]

/-- **Yield binding, for every number N ≥ 2 of outputs** (any names, any order of names — in particular the fluent
names `"0" … "N-1"` with N > 10, see `c10_yield_binding_fluent`).  Missing for full strength: N = 1, where the
runner stores the generator object itself (`c10_yield_binding_full_fails`; known finding
C10-single-output-generator). `outs.Nodup` is the dict invariant of `output_schema`. -/
theorem c10_yield_binding_partial (outs : List String) (ys : List Val) (hN : 2 ≤ outs.length) (hnd : outs.Nodup)
    (hlen : ys.length = outs.length) (hp : AllPicklable ys) : YieldBinding outs ys := by
  intro tid t edges mem pub hout hrecv
  obtain ⟨hh, he, _⟩ := run_of_received tid t edges mem pub (.gen ys) hrecv
  obtain ⟨hb1, hb2⟩ := bindOutputs_picklable pub outs ys hp
  rw [hh, he, hout, store_gen pub outs ys hN, hb1, hb2]
  refine ⟨by simp [hlen], handled_outputs pub outs ys hlen, ?_⟩
  intro k hk hk'
  simp only [memAfter, ↓reduceIte, handled_pairs]
  rw [lastLookup_zip_nodup outs ys hnd hlen k hk]

/-- The full-strength statement (every N ≥ 1) is false of the code: a generator declared with one output. -/
theorem c10_yield_binding_full_fails :
    ¬ (∀ (outs : List String) (ys : List Val), 1 ≤ outs.length → outs.Nodup → ys.length = outs.length →
        AllPicklable ys → YieldBinding outs ys) := by
  intro h
  have hy := h ["0"] [.tok "v"] (by decide) (by decide) (by decide) (by intro y hy; simp at hy; subst hy; rfl)
  have := (hy "g" ⟨[], [], [], ["0"]⟩ [] (fun _ => none) (fun _ => false) rfl (by decide)).2.2 0 (by decide) (by decide)
  revert this
  decide

example : YieldBinding ["b", "a", "c"] [.tok "v0", .tok "v1", .tok "v2"] :=
  c10_yield_binding_partial _ _ (by decide) (by decide) (by decide) (by intro y hy; simp at hy; rcases hy with h | h | h <;> subst h <;> rfl)

/-- **Yield binding through the fluent API**: a fluent node with `num_outputs = N ≥ 2` (outputs `"0" … "N-1"`, also for
N > 10) that lowers to task `t`: the value yielded `k`-th ends up under output `toString k` — the output that
`Action.__init__` places at the `k`-th coordinate of the `yields` dimension. -/
theorem c10_yield_binding_fluent (N : Nat) (hN : 2 ≤ N) (name : String) (n : SNode) (t : Task) (es : List Edge)
    (hout : n.outputs = fluentOutputs N) (hl : node2task name n = .ok (t, es))
    (edges : List Edge) (mem : Ds → Option Val) (pub : String → Bool) (ys : List Val)
    (hys : ys.length = N) (hp : AllPicklable ys)
    (hinv : (run name t edges mem pub (.gen ys)).received.isSome = true) :
    (run name t edges mem pub (.gen ys)).err = none ∧
    ∀ k (hk : k < N),
      memAfter name (run name t edges mem pub (.gen ys)).handled mem ⟨name, toString k⟩ = some (ys[k]'(by omega)) := by
  have hfo : fluentOutputs N = (List.range N).map toString := by
    unfold fluentOutputs; split
    · omega
    · rfl
  have hnd : (fluentOutputs N).Nodup := by
    rw [hfo]
    unfold List.Nodup
    rw [List.pairwise_map]
    exact List.Pairwise.imp (fun {x y} hxy h => hxy (Nat.repr_inj.mp h)) List.nodup_range
  have hlenO : (fluentOutputs N).length = N := by rw [hfo]; simp
  have hschema : t.outputSchema = fluentOutputs N := by
    unfold node2task at hl
    split at hl
    · cases hl
    · split at hl
      · cases hl
      · simp only [Except.ok.injEq, Prod.mk.injEq] at hl
        rw [← hl.1]
        simp only [hout]
        have hne : (fluentOutputs N).isEmpty = false := by
          cases hfe : fluentOutputs N with
          | nil => rw [hfe] at hlenO; simp at hlenO; omega
          | cons a as => rfl
        simp only [hne, Bool.false_eq_true, ↓reduceIte]
        exact dedup_nodup _ hnd
  obtain ⟨h1, _, h3⟩ := c10_yield_binding_partial (fluentOutputs N) ys (by omega) hnd (by omega) hp
    name t edges mem pub hschema hinv
  refine ⟨h1, ?_⟩
  intro k hk
  have := h3 k (by omega) (by omega)
  have hk2 : (fluentOutputs N)[k]'(by omega) = toString k := by
    simp only [hfo, List.getElem_map, List.getElem_range]
  rw [hk2] at this
  exact this

example : memAfter "g" (run "g" ⟨[], [], [], fluentOutputs 12⟩ [] (fun _ => none) (fun _ => true)
      (.gen ((List.range 12).map (fun k => .tok (toString k))))).handled (fun _ => none) ⟨"g", "10"⟩ = some (.tok "10") := by
  decide

/-- **Count mismatch is a task failure**, for every N ≥ 2: whatever the number of values a generator (or any other
iterable) produces, if it differs from the number of declared outputs — by one, by many, too few or too many — the run
ends with an error (which `execute_sequence` turns into `TaskFailure`); with picklable values the error names the
direction.  Missing for full strength: N = 1 (`c10_count_mismatch_full_fails`, same known finding). -/
theorem c10_count_mismatch_partial (tid : String) (t : Task) (edges : List Edge) (mem : Ds → Option Val)
    (pub : String → Bool) (ys : List Val) (hN : 2 ≤ t.outputSchema.length) (hne : ys.length ≠ t.outputSchema.length) :
    (run tid t edges mem pub (.gen ys)).err.isSome = true ∧
    (∀ self, (run tid t edges mem pub (.lst self ys)).err.isSome = true) ∧
    ((run tid t edges mem pub (.gen ys)).received.isSome = true → AllPicklable ys →
      (run tid t edges mem pub (.gen ys)).err =
        some (if ys.length < t.outputSchema.length then .fewerResults else .moreResults)) := by
  have hmis := bindOutputs_mismatch pub t.outputSchema ys hne
  refine ⟨?_, ?_, ?_⟩
  · rcases run_cases tid t edges mem pub (.gen ys) with ⟨e, h⟩ | ⟨recv, h⟩
    · rw [h]; rfl
    · rw [h, store_gen pub _ ys hN]; exact hmis
  · intro self
    rcases run_cases tid t edges mem pub (.lst self ys) with ⟨e, h⟩ | ⟨recv, h⟩
    · rw [h]; rfl
    · rw [h, store_lst pub _ self ys hN]
      simp only
      cases hb : (bindOutputs pub t.outputSchema ys).2 with
      | none => rfl
      | some e => rfl
  · intro hrecv hp
    obtain ⟨_, he, _⟩ := run_of_received tid t edges mem pub (.gen ys) hrecv
    obtain ⟨_, hb2⟩ := bindOutputs_picklable pub t.outputSchema ys hp
    rw [he, store_gen pub _ ys hN, hb2]
    simp only [hne, ↓reduceIte]
    split <;> rfl

theorem c10_count_mismatch_full_fails :
    ¬ (∀ (tid : String) (t : Task) (edges : List Edge) (mem : Ds → Option Val) (pub : String → Bool) (ys : List Val),
        1 ≤ t.outputSchema.length → ys.length ≠ t.outputSchema.length →
        (run tid t edges mem pub (.gen ys)).err.isSome = true) := by
  intro h
  have := h "g" ⟨[], [], [], ["0"]⟩ [] (fun _ => none) (fun _ => false) [] (by decide) (by decide)
  revert this
  decide

example : (run "g" ⟨[], [], [], ["0", "1", "2"]⟩ [] (fun _ => none) (fun _ => true) (.gen [.tok "a", .tok "b"])).err
    = some .fewerResults := by decide

/-- **Completion rule agrees with the publication order.** In a run that succeeds and publishes all its outputs,
the `DatasetPublished` notices go out for exactly the declared outputs in declaration order, and the output for which
the controller's `is_last_output_of` answers "yes" is the one published last (so every other output of the task has
been published before the controller assumes completion). Moreover, a run that fails because the generator yielded
too few values never publishes that output.
NOTE: this theorem (and `c10_completion_after_all`) is about `is_last_output_of`, which is still defined in
`controller/notify.py` but which `notify` no longer calls: completion is decided by `all_outputs_published` (a count
over the set of outputs seen). The statements about the rule in use are `c10_completion_all_outputs` and
`c10_completion_fires_once` (Props/C10Done.lean). -/
theorem c10_completion_is_last (tid : String) (t : Task) (edges : List Edge) (mem : Ds → Option Val)
    (pub : String → Bool) (res : Result) (hpub : ∀ o ∈ t.outputSchema, pub o = true) :
    ((run tid t edges mem pub res).received.isSome = true → (run tid t edges mem pub res).err = none →
      published ((run tid t edges mem pub res).handled, (run tid t edges mem pub res).err) = t.outputSchema ∧
      ∀ o, isLastOutputOf t.outputSchema o = some true ↔
        (published ((run tid t edges mem pub res).handled, (run tid t edges mem pub res).err)).getLast? = some o) ∧
    (∀ ys, res = .gen ys → AllPicklable ys → t.outputSchema.Nodup → 2 ≤ t.outputSchema.length →
      ys.length < t.outputSchema.length → ∀ o, isLastOutputOf t.outputSchema o = some true →
      o ∉ published ((run tid t edges mem pub res).handled, (run tid t edges mem pub res).err)) := by
  constructor
  · intro hrecv herr
    have hpubl : published ((run tid t edges mem pub res).handled, (run tid t edges mem pub res).err) = t.outputSchema := by
      obtain ⟨hh, he, hne⟩ := run_of_received tid t edges mem pub res hrecv
      have hfilter : ∀ (ys : List Val), ys.length = t.outputSchema.length →
          ((List.zipWith (fun o y => (⟨o, y, pub o⟩ : Handled)) t.outputSchema ys).filter (·.publish)).map (·.output)
            = t.outputSchema := by
        intro ys hl
        have : (List.zipWith (fun o y => (⟨o, y, pub o⟩ : Handled)) t.outputSchema ys).filter (·.publish) =
            List.zipWith (fun o y => (⟨o, y, pub o⟩ : Handled)) t.outputSchema ys := by
          rw [List.filter_eq_self]
          intro h hh
          obtain ⟨i, hi, rfl⟩ := List.getElem_of_mem hh
          simp only [List.getElem_zipWith]
          exact hpub _ (List.getElem_mem _)
        rw [this, handled_outputs pub _ ys hl]
      rw [he] at herr
      rw [he, herr, hh]
      simp only [published]
      match hts : t.outputSchema with
      | [] => exact absurd hts hne
      | [o] =>
        have hpo := hpub o (by simp [hts])
        cases res <;> simp_all [store]
      | o₁ :: o₂ :: os =>
        rw [hts] at herr hfilter
        cases res with
        | raises => simp [store] at herr
        | value v => simp [store] at herr
        | gen ys =>
          rw [store_gen pub _ ys (by simp)] at herr ⊢
          obtain ⟨hl, hz⟩ := bindOutputs_ok pub _ ys herr
          rw [hz]; exact hfilter ys hl
        | genRaise ys =>
          rw [store_genRaise pub _ ys (by simp)] at herr
          simp only at herr
          cases hb : (bindOutputs pub (o₁ :: o₂ :: os) ys).2 with
          | none => simp [hb, afterGenRaise] at herr
          | some e => cases e <;> simp [hb, afterGenRaise] at herr
        | lst self ys =>
          rw [store_lst pub _ self ys (by simp)] at herr
          simp only at herr
          cases hb : (bindOutputs pub (o₁ :: o₂ :: os) ys).2 <;> simp [hb, afterZipLst] at herr
    refine ⟨hpubl, ?_⟩
    intro o
    rw [hpubl]
    unfold isLastOutputOf
    cases t.outputSchema.getLast? with
    | none => simp
    | some l => simp
  · intro ys hres hp hnd hN hlt o hlast hmem
    subst hres
    obtain ⟨hb1, hb2⟩ := bindOutputs_picklable pub t.outputSchema ys hp
    rcases run_cases tid t edges mem pub (.gen ys) with ⟨e, h⟩ | ⟨recv, h⟩
    · rw [h] at hmem
      simp only [published] at hmem
      split at hmem <;> simp at hmem
    · rw [h, store_gen pub _ ys hN, hb1, hb2] at hmem
      have hne : ys.length ≠ t.outputSchema.length := by omega
      simp only [hne, hlt, ↓reduceIte, published, List.mem_map, List.mem_filter] at hmem
      obtain ⟨h, ⟨hhm, _⟩, hho⟩ := hmem
      obtain ⟨i, hi, rfl⟩ := List.getElem_of_mem hhm
      simp only [List.length_zipWith] at hi
      simp only [List.getElem_zipWith] at hho
      unfold isLastOutputOf at hlast
      cases hgl : t.outputSchema.getLast? with
      | none => simp [hgl] at hlast
      | some l =>
        simp only [hgl, Option.some.injEq, decide_eq_true_eq] at hlast
        subst hlast
        have hlastidx : t.outputSchema[t.outputSchema.length - 1]'(by omega) = l := by
          rw [List.getLast?_eq_getElem?] at hgl
          exact (List.getElem?_eq_some_iff.mp hgl).2
        have := (List.getElem_inj hnd).mp (hho.trans hlastidx.symm)
        omega

example : published ((run "g" ⟨[], [], [], ["b", "a", "10"]⟩ [] (fun _ => none) (fun _ => true) (.gen [.tok "x", .tok "y", .tok "z"])).handled, none)
      = ["b", "a", "10"] ∧ isLastOutputOf ["b", "a", "10"] "10" = some true := by decide


/-! ## Strengthenings after the audit (findings 1, 5, 6, 7) -/

namespace Aux

theorem published_congr (hs : List Handled) (e e' : Option Err)
    (h : e = some .unpicklable ↔ e' = some .unpicklable) : published (hs, e) = published (hs, e') := by
  have key : ∀ e : Option Err, published (hs, e) =
      if e = some .unpicklable then published (hs, some .unpicklable) else published (hs, none) := by
    intro e
    cases e with
    | none => simp
    | some x => cases x <;> simp [published]
  rw [key e, key e']
  by_cases he : e = some .unpicklable
  · simp [he, h.mp he]
  · have : ¬ e' = some .unpicklable := fun x => he (h.mpr x)
    simp [he, this]

theorem lastLookup_zip_nodup' (outs : List String) (ys : List Val) (hn : outs.Nodup)
    (k : Nat) (hk : k < outs.length) (hk' : k < ys.length) :
    lastLookup outs[k] (List.zip outs ys) = some ys[k] := by
  induction outs generalizing ys k with
  | nil => simp at hk
  | cons o os ih =>
    cases ys with
    | nil => simp at hk'
    | cons y ys =>
      simp only [List.nodup_cons] at hn
      cases k with
      | zero =>
        simp only [List.getElem_cons_zero, List.zip_cons_cons, lastLookup]
        cases hl : lastLookup o (List.zip os ys) with
        | none => simp
        | some w => exact absurd (List.of_mem_zip (lastLookup_mem _ _ _ hl)).1 hn.1
      | succ k =>
        simp only [List.getElem_cons_succ, List.zip_cons_cons, lastLookup]
        rw [ih ys hn.2 k (by simpa using hk) (by simpa using hk')]

theorem filter_zipWith_publish (pub : String → Bool) (outs : List String) (ys : List Val) :
    ((List.zipWith (fun o y => (⟨o, y, pub o⟩ : Handled)) outs ys).filter (·.publish)).map (·.output) =
      (outs.take ys.length).filter (fun o => pub o) := by
  induction outs generalizing ys with
  | nil => simp
  | cons o os ih =>
    cases ys with
    | nil => simp
    | cons y ys =>
      simp only [List.zipWith_cons_cons, List.length_cons, List.take_succ_cons, List.filter_cons]
      cases hpo : pub o <;> simp [ih ys]

theorem bind_unpicklable_nonempty (pub : String → Bool) (outs : List String) (ys : List Val)
    (h : (bindOutputs pub outs ys).2 = some .unpicklable) : (bindOutputs pub outs ys).1 ≠ [] := by
  cases outs with
  | nil => cases ys <;> simp [bindOutputs] at h
  | cons o os =>
    cases ys with
    | nil => simp [bindOutputs] at h
    | cons y ys =>
      simp only [bindOutputs]
      split <;> simp

/-- the `DatasetPublished` notices of a zip over declared outputs and results: the outputs to be published among
a PREFIX of the declaration, whatever ended the loop -/
theorem published_bind (pub : String → Bool) (outs : List String) (ys : List Val) :
    ∃ n, n ≤ outs.length ∧
      published (bindOutputs pub outs ys) = (outs.take n).filter (fun o => pub o) := by
  induction outs generalizing ys with
  | nil => exact ⟨0, by simp, by cases ys <;> simp [bindOutputs, published]⟩
  | cons o os ih =>
    cases ys with
    | nil => exact ⟨0, by simp, by simp [bindOutputs, published]⟩
    | cons y ys =>
      by_cases hc : (pub o && !picklable y) = true
      · refine ⟨0, by simp, ?_⟩
        simp [bindOutputs, hc, published]
      · obtain ⟨n, hn, hpub⟩ := ih ys
        refine ⟨n + 1, by simp; omega, ?_⟩
        have hb : bindOutputs pub (o :: os) (y :: ys) =
            (⟨o, y, pub o⟩ :: (bindOutputs pub os ys).1, (bindOutputs pub os ys).2) := by
          simp only [bindOutputs, hc, Bool.false_eq_true, ↓reduceIte]
        rw [hb]
        have hrest : published (⟨o, y, pub o⟩ :: (bindOutputs pub os ys).1, (bindOutputs pub os ys).2) =
            (if pub o then [o] else []) ++ published (bindOutputs pub os ys) := by
          unfold published
          by_cases hu : (bindOutputs pub os ys).2 = some .unpicklable
          · have hne := bind_unpicklable_nonempty pub os ys hu
            simp only [hu]
            rw [List.dropLast_cons_of_ne_nil hne]
            cases hp : pub o <;> simp
          · have h1 : ∀ (l : List Handled), (match (bindOutputs pub os ys).2 with
                  | some .unpicklable => l.dropLast | _ => l) = l := by
              intro l; split
              · rename_i h; exact absurd h hu
              · rfl
            simp only []
            cases hp : pub o <;> simp
        rw [hrest, hpub]
        cases hp : pub o <;> simp [hp]

theorem afterZipLst_unpick (e : Option Err) : afterZipLst e = some .unpicklable ↔ e = some .unpicklable := by
  cases e with
  | none => simp [afterZipLst]
  | some x => cases x <;> simp [afterZipLst]

theorem afterGenRaise_unpick (e : Option Err) : afterGenRaise e = some .unpicklable ↔ e = some .unpicklable := by
  cases e with
  | none => simp [afterGenRaise]
  | some x => cases x <;> simp [afterGenRaise]

theorem published_store (pub : String → Bool) (outs : List String) (res : Result) :
    ∃ n, n ≤ outs.length ∧ published (store pub outs res) = (outs.take n).filter (fun o => pub o) := by
  have h0 : ∀ e : Option Err, ∃ n, n ≤ outs.length ∧ published (([] : List Handled), e) = (outs.take n).filter (fun o => pub o) := by
    intro e; refine ⟨0, by simp, ?_⟩
    unfold published; split <;> simp
  have hsingle : ∀ (o : String) (v : Val), ∃ n, n ≤ [o].length ∧
      published (([⟨o, v, pub o⟩] : List Handled), if (pub o && !picklable v) = true then some Err.unpicklable else none) =
        ([o].take n).filter (fun o => pub o) := by
    intro o v
    by_cases hc : (pub o && !picklable v) = true
    · exact ⟨0, by simp, by simp [hc, published]⟩
    · refine ⟨1, by simp, ?_⟩
      simp only [hc, Bool.false_eq_true, ↓reduceIte, published]
      cases hp : pub o <;> simp [hp]
  match outs, res with
  | _, .raises => simpa [store] using h0 (some .callableRaised)
  | [], .value _ => simpa [store] using h0 (some .noOutputs)
  | [], .gen _ => simpa [store] using h0 (some .noOutputs)
  | [], .genRaise _ => simpa [store] using h0 (some .noOutputs)
  | [], .lst _ _ => simpa [store] using h0 (some .noOutputs)
  | [o], .value v => simpa [store, Result.asVal] using hsingle o v
  | [o], .gen _ => simpa [store, Result.asVal] using hsingle o (.obj "generator")
  | [o], .genRaise _ => simpa [store, Result.asVal] using hsingle o (.obj "generator")
  | [o], .lst self _ => simpa [store, Result.asVal] using hsingle o self
  | o₁ :: o₂ :: os, .value _ => simpa [store] using h0 (some .notIterable)
  | o₁ :: o₂ :: os, .gen ys =>
    rw [store_gen pub _ ys (by simp)]
    exact published_bind pub _ ys
  | o₁ :: o₂ :: os, .genRaise ys =>
    rw [store_genRaise pub _ ys (by simp)]
    rw [published_congr _ _ (bindOutputs pub (o₁ :: o₂ :: os) ys).2 (afterGenRaise_unpick _)]
    exact published_bind pub _ ys
  | o₁ :: o₂ :: os, .lst self ys =>
    rw [store_lst pub _ self ys (by simp)]
    rw [published_congr _ _ (bindOutputs pub (o₁ :: o₂ :: os) ys).2 (afterZipLst_unpick _)]
    exact published_bind pub _ ys

end Aux

/-- **Publication order, for every run** (success or failure, generator, list, scalar, raising callable; any publish
set): the `DatasetPublished` notices of a run are exactly the to-be-published outputs among a PREFIX of the declared
outputs, in declaration order. -/
theorem c10_published_prefix (tid : String) (t : Task) (edges : List Edge) (mem : Ds → Option Val)
    (pub : String → Bool) (res : Result) :
    ∃ n, n ≤ t.outputSchema.length ∧
      published ((run tid t edges mem pub res).handled, (run tid t edges mem pub res).err) =
        (t.outputSchema.take n).filter (fun o => pub o) := by
  rcases run_cases tid t edges mem pub res with ⟨e, h⟩ | ⟨recv, h⟩
  · rw [h]
    refine ⟨0, by simp, ?_⟩
    simp only [published]; split <;> simp
  · rw [h]; exact published_store pub t.outputSchema res

/-- **Completion is never assumed early — also in runs that fail.** Whenever the notice for the output that
`is_last_output_of` takes as completion goes out, every declared output that was to be published has been published
before it, in declaration order. No hypothesis on the result or on the error: this covers the list of the right length
(all N outputs published, then `TypeError` from `assert_iter_empty`) and the generator that raises after its N-th
value, where the controller sees the completion notice first and the `TaskFailure` afterwards.
NOTE: about `is_last_output_of` (no longer called by `notify`) and only for runs that do publish the last declared
output (`hmem`); for the rule in use and for every publish set see `c10_completion_all_outputs`. -/
theorem c10_completion_after_all (tid : String) (t : Task) (edges : List Edge) (mem : Ds → Option Val)
    (pub : String → Bool) (res : Result) (hnd : t.outputSchema.Nodup) (o : String)
    (hlast : isLastOutputOf t.outputSchema o = some true)
    (hmem : o ∈ published ((run tid t edges mem pub res).handled, (run tid t edges mem pub res).err)) :
    published ((run tid t edges mem pub res).handled, (run tid t edges mem pub res).err) =
      t.outputSchema.filter (fun o => pub o) := by
  obtain ⟨n, hn, hp⟩ := c10_published_prefix tid t edges mem pub res
  rw [hp] at hmem ⊢
  have hot : o ∈ t.outputSchema.take n := (List.mem_filter.mp hmem).1
  unfold isLastOutputOf at hlast
  cases hgl : t.outputSchema.getLast? with
  | none => simp [hgl] at hlast
  | some l =>
    simp only [hgl, Option.some.injEq, decide_eq_true_eq] at hlast
    subst hlast
    have hlen : 0 < t.outputSchema.length := by
      cases hts : t.outputSchema with
      | nil => simp [hts] at hgl
      | cons a as => simp
    have hlastidx : t.outputSchema[t.outputSchema.length - 1]'(by omega) = l := by
      rw [List.getLast?_eq_getElem?] at hgl
      exact (List.getElem?_eq_some_iff.mp hgl).2
    obtain ⟨i, hi, hget⟩ := List.getElem_of_mem hot
    simp only [List.length_take] at hi
    rw [List.getElem_take] at hget
    have := (List.getElem_inj hnd).mp (hget.trans hlastidx.symm)
    have hnn : n = t.outputSchema.length := by omega
    rw [hnn, List.take_length]

example : published ((run "g" ⟨[], [], [], ["a", "b"]⟩ [] (fun _ => none) (fun _ => true)
      (.lst (.data "[x, y]") [.tok "x", .tok "y"])).handled, some .notIterator) = ["a", "b"] ∧
    (run "g" ⟨[], [], [], ["a", "b"]⟩ [] (fun _ => none) (fun _ => true)
      (.lst (.data "[x, y]") [.tok "x", .tok "y"])).err = some .notIterator := by decide

/-- **A generator that raises after some yields** (N ≥ 2 declared outputs, `m` values yielded before the exception):
the values yielded so far are bound, in order, to the first `min m N` declared outputs and those among them that were
to be published are published; the run always ends in an error — the generator's own exception when `m ≤ N` (also
when `m = N`: `zip(strict)` asks the generator once more), "more results" when `m > N`; and the completion output is
published only if `m ≥ N`. -/
theorem c10_partial_publication (tid : String) (t : Task) (edges : List Edge) (mem : Ds → Option Val)
    (pub : String → Bool) (ys : List Val) (hN : 2 ≤ t.outputSchema.length) (hp : AllPicklable ys)
    (hrecv : (run tid t edges mem pub (.genRaise ys)).received.isSome = true) :
    (run tid t edges mem pub (.genRaise ys)).err =
      some (if t.outputSchema.length < ys.length then .moreResults else .callableRaised) ∧
    (run tid t edges mem pub (.genRaise ys)).handled =
      List.zipWith (fun o y => ⟨o, y, pub o⟩) t.outputSchema ys ∧
    published ((run tid t edges mem pub (.genRaise ys)).handled, (run tid t edges mem pub (.genRaise ys)).err) =
      (t.outputSchema.take ys.length).filter (fun o => pub o) ∧
    (t.outputSchema.Nodup → ∀ k (hk : k < t.outputSchema.length) (hk' : k < ys.length),
      memAfter tid (run tid t edges mem pub (.genRaise ys)).handled mem ⟨tid, t.outputSchema[k]⟩ = some ys[k]) := by
  obtain ⟨hh, he, _⟩ := run_of_received tid t edges mem pub (.genRaise ys) hrecv
  obtain ⟨hb1, hb2⟩ := bindOutputs_picklable pub t.outputSchema ys hp
  rw [hh, he, store_genRaise pub _ ys hN, hb1, hb2]
  have herr : afterGenRaise (if ys.length = t.outputSchema.length then none
        else if ys.length < t.outputSchema.length then some Err.fewerResults else some Err.moreResults) =
      some (if t.outputSchema.length < ys.length then Err.moreResults else Err.callableRaised) := by
    by_cases h1 : ys.length = t.outputSchema.length
    · simp [h1, afterGenRaise]
    · by_cases h2 : ys.length < t.outputSchema.length
      · have : ¬ t.outputSchema.length < ys.length := by omega
        simp [h1, h2, this, afterGenRaise]
      · have : t.outputSchema.length < ys.length := by omega
        simp [h1, h2, this, afterGenRaise]
  refine ⟨herr, rfl, ?_, ?_⟩
  · simp only
    rw [herr]
    rw [published_congr _ _ none (by split <;> simp)]
    simp only [published]
    exact filter_zipWith_publish pub _ ys
  · intro hnd k hk hk'
    simp only [memAfter, ↓reduceIte, handled_pairs]
    rw [lastLookup_zip_nodup' _ ys hnd k hk hk']

example : (run "g" ⟨[], [], [], ["a", "b", "c"]⟩ [] (fun _ => none) (fun o => o != "a") (.genRaise [.tok "x", .tok "y"])).err
      = some .callableRaised ∧
    published ((run "g" ⟨[], [], [], ["a", "b", "c"]⟩ [] (fun _ => none) (fun o => o != "a") (.genRaise [.tok "x", .tok "y"])).handled,
      some .callableRaised) = ["b"] := by decide

/-- **One declared output: the callable's result IS the value** — a scalar, a string, a list or tuple, an ndarray
(`Result.lst`: the object itself is stored, it is not iterated): it is stored locally under the one output, the run
succeeds exactly when the output is not to be published or the value can be pickled, and in that case the value is in
the worker's memory afterwards. (For a generator object, which cannot be pickled, this is the known finding
`c10_yield_binding_full_fails`.) -/
theorem c10_single_output_value (tid : String) (t : Task) (edges : List Edge) (mem : Ds → Option Val)
    (pub : String → Bool) (res : Result) (o : String) (hout : t.outputSchema = [o]) (hres : res ≠ .raises)
    (hrecv : (run tid t edges mem pub res).received.isSome = true) :
    (run tid t edges mem pub res).handled = [⟨o, res.asVal, pub o⟩] ∧
    ((run tid t edges mem pub res).err = none ↔ (pub o = false ∨ picklable res.asVal = true)) ∧
    memAfter tid (run tid t edges mem pub res).handled mem ⟨tid, o⟩ = some res.asVal := by
  obtain ⟨hh, he, _⟩ := run_of_received tid t edges mem pub res hrecv
  rw [hh, he, hout]
  have hs : store pub [o] res = ([⟨o, res.asVal, pub o⟩], if (pub o && !picklable res.asVal) = true then some .unpicklable else none) := by
    cases res with
    | raises => exact absurd rfl hres
    | _ => rfl
  rw [hs]
  refine ⟨rfl, ?_, ?_⟩
  · cases hp : pub o <;> cases hq : picklable res.asVal <;> simp
  · simp [memAfter, lastLookup]

example : (run "t" ⟨[], [], [], ["0"]⟩ [] (fun _ => none) (fun _ => true) (.lst (.data "[x, y]") [.tok "x", .tok "y"])).err = none ∧
    (run "t" ⟨[], [], [], ["0"]⟩ [] (fun _ => none) (fun _ => true) (.lst (.data "[x, y]") [.tok "x", .tok "y"])).handled
      = [⟨"0", .data "[x, y]", true⟩] := by decide

/-- **Static arguments arrive unchanged** (corollary of `c10_binding`): every declared argument that is not a string
equal to one of the node's input names — numbers, `None`, lists, dicts, arrays (`Val.data`), strings such as
`"input7"` on a node with fewer inputs — is received as declared. A string equal to an input name IS, by the payload
format `(func, args, kwargs)`, the reference to that input (`c10_string_naming_input_is_reference`). -/
theorem c10_statics_unchanged (inputs : List (String × InRef)) (mem : Ds → Option Val) (a : Val)
    (h : ∀ s, a = .str s → inputs.lookup s = none) : subst inputs mem a = a := by
  cases a with
  | str s => simp [subst, h s rfl]
  | _ => rfl

/-- the format cannot express a static string equal to an input name: it is replaced by the upstream value -/
theorem c10_string_naming_input_is_reference :
    (graph2job [("a", ⟨some ([], []), [], [], false⟩),
                ("b", ⟨some ([.str "x", .str "y"], []), [("x", .dflt "a")], [], false⟩)]).toOption.bind
      (fun j => (j.tasks.lookup "b").map (fun t =>
        (run "b" t j.edges (fun ds => if ds = ⟨"a", "0"⟩ then some (.tok "v") else none) (fun _ => true) (.value .none)).received)) =
    some (some ([.tok "v", .str "y"], [])) := by decide

end EkwVerif.Runner
