/-
C12 — serialising a graph and reading it back gives an equal graph, with nothing lost.
Property theorems `c12_*`; helper lemmas in `namespace Aux`.
Model: EkwVerif/Model/Export.lean (graph/export.py after the C12 `fix:` commit).
-/
import EkwVerif.Model.Export

namespace EkwVerif.Export

/-- parents before children: every input refers to an existing output of an earlier node -/
def topoFrom (pre : List Node) : List Node → Bool
  | [] => true
  | n :: rest =>
    n.inputs.all (fun i => match findNode pre i.2.parent with
      | none => false
      | some p => decide (i.2.out ∈ p.outputs)) && topoFrom (pre ++ [n]) rest

/-- A graph with unique node names, given as the list of exactly its nodes in a topological
order (any acyclic Python `Graph` with unique names has such a presentation). -/
structure WF (g : Graph) : Prop where
  names : (g.nodes.map (·.name)).Nodup
  topo : topoFrom [] g.nodes = true
  inputNames : ∀ n ∈ g.nodes, (n.inputs.map (·.1)).Nodup      -- `inputs` is a dict
  trim : (graphNodes g).length = g.nodes.length                -- every listed node is reachable from the sinks

def normNode (n : Node) : Node := { n with payload := normPV n.payload }

/-- payloads that JSON represents faithfully (no tuples anywhere inside) -/
def Faithful (g : Graph) : Prop := ∀ n ∈ g.nodes, normPV n.payload = n.payload

namespace Aux

/-! #### payload equality is reflexive -/

mutual
theorem pvEq_refl : ∀ p, pvEq p p = true
  | .none => by simp [pvEq]
  | .bool a => by simp [pvEq]
  | .int a => by simp [pvEq]
  | .str a => by simp [pvEq]
  | .list a => by simp [pvEq, pvEqL_refl a]
  | .tuple a => by simp [pvEq, pvEqL_refl a]
  | .dict a => by simp [pvEq, pvEqD_refl a]
theorem pvEqL_refl : ∀ l, pvEqL l l = true
  | [] => by simp [pvEqL]
  | a :: as => by simp [pvEqL, pvEq_refl a, pvEqL_refl as]
theorem pvEqD_refl : ∀ l, pvEqD l l = true
  | [] => by simp [pvEqD]
  | (k, a) :: as => by simp [pvEqD, pvEq_refl a, pvEqD_refl as]
end

/-! #### the generic encoder: `serialise` is `encode true id`, its JSON image `encode false normPV` -/

def encRef (tup : Bool) (s : Src) : Ref := if s.out = defaultOutput then .bare s.parent else .pair tup s.parent s.out

def encNode (tup : Bool) (f : PV → PV) (n : Node) : SNode :=
  { outputs := n.outputs
    inputs := n.inputs.map (fun i => (i.1, encRef tup i.2))
    payload := if isNone n.payload then none else some (f n.payload) }

def encode (tup : Bool) (f : PV → PV) (l : List Node) : List (String × SNode) := l.map (fun n => (n.name, encNode tup f n))

/-- the payload a node gets back -/
def rp (f : PV → PV) (p : PV) : PV := if isNone p then .none else f p

def mp (f : PV → PV) (n : Node) : Node := { n with payload := rp f n.payload }

theorem rp_id (p : PV) : rp id p = p := by
  cases p <;> simp [rp, isNone]

theorem rp_norm (p : PV) : rp normPV p = normPV p := by
  cases p <;> simp [rp, isNone, normPV]

theorem mp_id (n : Node) : mp id n = n := by
  simp [mp, rp_id]

theorem mp_norm (n : Node) : mp normPV n = normNode n := by
  simp [mp, normNode, rp_norm]

theorem map_mp_id (l : List Node) : l.map (mp id) = l := by
  induction l with
  | nil => rfl
  | cons a l ih => simp [mp_id, ih]

theorem serialise_eq (l : List Node) : l.map (fun n => (n.name, serNode n)) = encode true id l := by
  simp only [encode]
  apply List.map_congr_left
  intro n _
  simp only [serNode, encNode, serSrc, encRef, id]

theorem jsonNorm_encode (l : List Node) : jsonNorm (encode true id l) = encode false normPV l := by
  simp only [jsonNorm, encode, List.map_map]
  apply List.map_congr_left
  intro n _
  simp only [Function.comp, encNode, List.map_map, id]
  congr 1
  congr 1
  · apply List.map_congr_left
    intro i _
    simp only [Function.comp, encRef]
    split <;> simp [normRef]
  · cases h : isNone n.payload <;> simp

/-! #### rebuilding the node list -/

theorem findNode_map_mp (f : PV → PV) (l : List Node) (x : String) :
    findNode (l.map (mp f)) x = (findNode l x).map (mp f) := by
  induction l with
  | nil => rfl
  | cons a l ih =>
    simp only [List.map_cons, findNode]
    by_cases h : a.name = x
    · simp [mp, h]
    · have : (mp f a).name = a.name := rfl
      simp [this, h, ih]

theorem findNode_some (l : List Node) (x : String) (p : Node) (h : findNode l x = some p) : p ∈ l ∧ p.name = x := by
  induction l with
  | nil => simp [findNode] at h
  | cons a l ih =>
    simp only [findNode] at h
    by_cases h2 : a.name = x
    · simp only [h2, ↓reduceIte, Option.some.injEq] at h
      subst h; exact ⟨by simp, h2⟩
    · simp only [h2, ↓reduceIte] at h
      exact ⟨List.mem_cons_of_mem _ (ih h).1, (ih h).2⟩

theorem resolve_enc (tup : Bool) (f : PV → PV) (pre : List Node) (s : Src) (p : Node)
    (hp : findNode pre s.parent = some p) (ho : s.out ∈ p.outputs) :
    resolve (pre.map (mp f)) (encRef tup s) = .ok s := by
  unfold encRef
  by_cases h : s.out = defaultOutput
  · simp only [h, ↓reduceIte, resolve, findNode_map_mp, hp, Option.map_some]
    have : defaultOutput ∈ (mp f p).outputs := by rw [← h]; exact ho
    simp only [this, ↓reduceIte]
    cases s; simp_all
  · simp only [h, ↓reduceIte, resolve, findNode_map_mp, hp, Option.map_some]
    have : s.out ∈ (mp f p).outputs := ho
    simp only [this, ↓reduceIte]

theorem resolveAll_enc (tup : Bool) (f : PV → PV) (pre : List Node) (ins : List (String × Src))
    (h : ins.all (fun i => match findNode pre i.2.parent with
      | none => false
      | some p => decide (i.2.out ∈ p.outputs)) = true) :
    resolveAll (pre.map (mp f)) (ins.map (fun i => (i.1, encRef tup i.2))) = .ok ins := by
  induction ins with
  | nil => rfl
  | cons i rest ih =>
    obtain ⟨k, s⟩ := i
    simp only [List.all_cons, Bool.and_eq_true] at h
    obtain ⟨h1, h2⟩ := h
    simp only [List.map_cons, resolveAll]
    cases hp : findNode pre s.parent with
    | none => simp [hp] at h1
    | some p =>
      simp only [hp, decide_eq_true_eq] at h1
      rw [resolve_enc tup f pre s p hp h1, ih h2]

theorem deserLoop_encode (tup : Bool) (f : PV → PV) (rest pre : List Node) (h : topoFrom pre rest = true) :
    deserLoop (pre.map (mp f)) (encode tup f rest) = .ok ((pre ++ rest).map (mp f)) := by
  induction rest generalizing pre with
  | nil => simp [encode, deserLoop]
  | cons n rest ih =>
    simp only [topoFrom, Bool.and_eq_true] at h
    obtain ⟨h1, h2⟩ := h
    simp only [encode, List.map_cons, deserLoop, encNode]
    rw [resolveAll_enc tup f pre n.inputs h1]
    have := ih (pre ++ [n]) h2
    simp only [List.map_append, List.map_cons, List.map_nil, List.append_assoc, List.singleton_append, encode, encNode] at this
    have hn : ({ name := n.name, outputs := n.outputs,
                 payload := (if isNone n.payload = true then none else some (f n.payload)).getD PV.none,
                 inputs := n.inputs } : Node) = mp f n := by
      simp only [mp, rp]
      cases hh : isNone n.payload <;> simp
    simp only [hn]
    rw [this]
    simp

theorem topoFrom_map_mp (f : PV → PV) (rest pre : List Node) (h : topoFrom pre rest = true) :
    topoFrom (pre.map (mp f)) (rest.map (mp f)) = true := by
  induction rest generalizing pre with
  | nil => rfl
  | cons n rest ih =>
    simp only [topoFrom, Bool.and_eq_true] at h
    obtain ⟨h1, h2⟩ := h
    simp only [List.map_cons, topoFrom, Bool.and_eq_true]
    constructor
    · have : (mp f n).inputs = n.inputs := rfl
      rw [this]
      rw [List.all_eq_true] at h1 ⊢
      intro i hi
      have := h1 i hi
      rw [findNode_map_mp]
      cases hp : findNode pre i.2.parent with
      | none => simp [hp] at this
      | some p => simpa [hp, mp] using this
    · have := ih (pre ++ [n]) h2
      simpa using this

/-! #### every node is reachable from the terminal nodes -/

theorem sweep_sublist (l : List Node) (need : List String) : (sweep l need).1.Sublist l := by
  induction l with
  | nil => simp [sweep]
  | cons n rest ih =>
    simp only [sweep]
    split
    · exact List.Sublist.cons_cons _ ih
    · exact List.Sublist.cons _ ih

/-- `Q l need`: every node is needed from outside or consumed by a LATER node of the list -/
def Q (l : List Node) (need : List String) : Prop :=
  ∀ A m B, l = A ++ m :: B → m.name ∈ need ∨ ∃ c ∈ B, m.name ∈ parents c

theorem sweep_all (l : List Node) (need : List String) (h : Q l need) :
    (sweep l need).1 = l ∧ (∀ x ∈ need, x ∈ (sweep l need).2) ∧ (∀ c ∈ l, ∀ x ∈ parents c, x ∈ (sweep l need).2) := by
  induction l with
  | nil => simp [sweep]
  | cons n rest ih =>
    have hq : Q rest need := by
      intro A m B hl
      exact h (n :: A) m B (by simp [hl])
    obtain ⟨i1, i2, i3⟩ := ih hq
    have hn : n.name ∈ (sweep rest need).2 := by
      rcases h [] n rest rfl with h | ⟨c, hc, hx⟩
      · exact i2 _ h
      · exact i3 c hc _ hx
    simp only [sweep, hn, ↓reduceIte, i1, true_and]
    constructor
    · intro x hx; exact List.mem_append_left _ (i2 x hx)
    · intro c hc x hx
      rcases List.mem_cons.mp hc with hc | hc
      · subst hc; exact List.mem_append_right _ hx
      · exact List.mem_append_left _ (i3 c hc x hx)

theorem topo_parent_before (A B pre : List Node) (c : Node) (x : String)
    (h : topoFrom pre (A ++ c :: B) = true) (hx : x ∈ parents c) : ∃ p ∈ pre ++ A, p.name = x := by
  induction A generalizing pre with
  | nil =>
    simp only [List.nil_append, topoFrom, Bool.and_eq_true] at h
    simp only [parents, List.mem_map] at hx
    obtain ⟨i, hi, rfl⟩ := hx
    have := (List.all_eq_true.mp h.1) i hi
    cases hp : findNode pre i.2.parent with
    | none => simp [hp] at this
    | some p =>
      obtain ⟨hm, hn⟩ := findNode_some _ _ _ hp
      exact ⟨p, by simpa using hm, hn⟩
  | cons a A ih =>
    simp only [List.cons_append, topoFrom, Bool.and_eq_true] at h
    obtain ⟨p, hp, hn⟩ := ih (pre ++ [a]) h.2
    exact ⟨p, by simpa using hp, hn⟩

theorem consumed_encode (tup : Bool) (f : PV → PV) (l : List Node) :
    consumed (encode tup f l) = l.flatMap parents := by
  induction l with
  | nil => rfl
  | cons n rest ih =>
    simp only [consumed, encode, List.map_cons, List.flatMap_cons] at ih ⊢
    rw [ih]
    congr 1
    simp only [encNode, parents, List.map_map]
    apply List.map_congr_left
    intro i _
    simp only [Function.comp, encRef]
    split <;> rfl

theorem q_terminals (l : List Node) (hn : (l.map (·.name)).Nodup) (ht : topoFrom [] l = true) :
    Q l ((l.map (·.name)).filter (fun n => n ∉ l.flatMap parents)) := by
  intro A m B hl
  by_cases hc : m.name ∈ l.flatMap parents
  · right
    obtain ⟨c, hcl, hx⟩ := List.mem_flatMap.mp hc
    -- no node at or before `m` can consume `m`
    have hno : ∀ A1 A2 : List Node, ∀ c', l = A1 ++ c' :: A2 → (∀ p ∈ A1, p ∈ A) → m.name ∈ parents c' → False := by
      intro A1 A2 c' hl' hsub hx'
      obtain ⟨p, hp, hpn⟩ := topo_parent_before A1 A2 [] c' m.name (by rw [← hl']; exact ht) hx'
      have hpA : p ∈ A := hsub p (by simpa using hp)
      rw [hl, List.map_append, List.map_cons] at hn
      have hdis := (List.nodup_append.mp hn).2.2
      exact hdis p.name (List.mem_map_of_mem hpA) m.name (by simp) hpn
    rw [hl] at hcl
    rcases List.mem_append.mp hcl with hcA | hcB
    · obtain ⟨A1, A2, hA⟩ := List.append_of_mem hcA
      exfalso
      apply hno A1 (A2 ++ m :: B) c (by rw [hl, hA]; simp) _ hx
      intro p hp; rw [hA]; exact List.mem_append_left _ hp
    · rcases List.mem_cons.mp hcB with hcm | hcB
      · exfalso
        subst hcm
        exact hno A B c hl (fun p hp => hp) hx
      · exact ⟨c, hcB, hx⟩
  · left
    apply List.mem_filter.mpr
    refine ⟨?_, by simpa using hc⟩
    rw [hl]; simp

/-- the nodes rebuilt by `deserialise` are all reachable from the sinks it chooses -/
theorem terminals_reach_all (l : List Node) (hn : (l.map (·.name)).Nodup) (ht : topoFrom [] l = true) :
    (sweep l ((l.map (·.name)).filter (fun n => n ∉ l.flatMap parents))).1 = l :=
  (sweep_all l _ (q_terminals l hn ht)).1

theorem trim_eq (g : Graph) (h : (graphNodes g).length = g.nodes.length) : graphNodes g = g.nodes :=
  (sweep_sublist g.nodes g.sinks).eq_of_length h

theorem names_map_mp (f : PV → PV) (l : List Node) : (l.map (mp f)).map (·.name) = l.map (·.name) := by
  simp [List.map_map, Function.comp, mp]

theorem parents_map_mp (f : PV → PV) (l : List Node) : (l.map (mp f)).flatMap parents = l.flatMap parents := by
  induction l with
  | nil => rfl
  | cons a l ih => simp only [List.map_cons, List.flatMap_cons, ih]; rfl

/-- the whole round trip through the generic encoder -/
theorem roundtrip (tup : Bool) (f : PV → PV) (l : List Node) (hn : (l.map (·.name)).Nodup) (ht : topoFrom [] l = true) :
    ∃ g', deserialise (encode tup f l) = .ok g' ∧ g'.nodes = l.map (mp f) ∧ graphNodes g' = l.map (mp f) := by
  have h1 := deserLoop_encode tup f l [] ht
  simp only [List.map_nil, List.nil_append] at h1
  refine ⟨{ nodes := l.map (mp f), sinks := ((l.map (mp f)).map (·.name)).filter (fun n => n ∉ consumed (encode tup f l)) }, ?_, rfl, ?_⟩
  · simp only [deserialise, h1]
  · simp only [graphNodes, consumed_encode]
    have := terminals_reach_all (l.map (mp f)) (by rw [names_map_mp]; exact hn)
      (by have := topoFrom_map_mp f l [] ht; simpa using this)
    rw [parents_map_mp] at this
    exact this

/-! #### `Graph.__eq__` accepts identical node sets -/

theorem sameKeys_refl (l : List String) : sameKeys l l = true := by
  simp [sameKeys]

theorem findNode_of_mem (l : List Node) (n : Node) (hn : (l.map (·.name)).Nodup) (hm : n ∈ l) :
    findNode l n.name = some n := by
  induction l with
  | nil => cases hm
  | cons a l ih =>
    simp only [List.map_cons, List.nodup_cons] at hn
    simp only [findNode]
    rcases List.mem_cons.mp hm with h | h
    · subst h; simp
    · by_cases h2 : a.name = n.name
      · exfalso; apply hn.1; rw [h2]; exact List.mem_map_of_mem h
      · simp only [h2, ↓reduceIte]; exact ih hn.2 h

theorem lookupSrc_of_mem (l : List (String × Src)) (i : String × Src) (hn : (l.map (·.1)).Nodup) (hm : i ∈ l) :
    lookupSrc l i.1 = some i.2 := by
  induction l with
  | nil => cases hm
  | cons a l ih =>
    obtain ⟨k, s⟩ := a
    simp only [List.map_cons, List.nodup_cons] at hn
    simp only [lookupSrc]
    rcases List.mem_cons.mp hm with h | h
    · subst h; simp
    · by_cases h2 : k = i.1
      · exfalso; apply hn.1; rw [h2]; exact List.mem_map_of_mem h
      · simp only [h2, ↓reduceIte]; exact ih hn.2 h

theorem nodeEq_refl (n : Node) (hn : (n.inputs.map (·.1)).Nodup) : nodeEq n n = true := by
  simp only [nodeEq, beq_self_eq_true, sameKeys_refl, pvEq_refl, Bool.and_true, Bool.true_and]
  rw [List.all_eq_true]
  intro i hi
  rw [lookupSrc_of_mem n.inputs i hn hi]
  simp

theorem graphEq_of_same (a b : Graph) (l : List Node) (ha : graphNodes a = l) (hb : graphNodes b = l)
    (hn : (l.map (·.name)).Nodup) (hi : ∀ n ∈ l, (n.inputs.map (·.1)).Nodup) : graphEq a b = true := by
  simp only [graphEq, ha, hb, sameKeys_refl, Bool.true_and]
  rw [List.all_eq_true]
  intro n hm
  rw [findNode_of_mem l n hn hm]
  exact nodeEq_refl n (hi n hm)

end Aux

open Aux

/-! ### property theorems -/

/-- **Nothing lost.**  For every well-formed graph — whether or not its terminal nodes have
outputs, with any number of sinks, multi-output nodes, shared sub-expressions, or no node at
all — `deserialise (serialise g)` succeeds, rebuilds exactly the node records of `g` (names,
outputs, inputs, payloads), and every one of them is part of the resulting graph (reachable
from the sinks `deserialise` chooses). -/
theorem c12_nothing_lost (g : Graph) (h : WF g) :
    ∃ g', deserialise (serialise g) = .ok g' ∧ g'.nodes = g.nodes ∧ graphNodes g' = graphNodes g := by
  have ht := trim_eq g h.trim
  obtain ⟨g', h1, h2, h3⟩ := roundtrip true id g.nodes h.names h.topo
  refine ⟨g', ?_, ?_, ?_⟩
  · simp only [serialise, ht, serialise_eq]; exact h1
  · rw [h2, map_mp_id]
  · rw [h3, map_mp_id, ht]

/-- **Dict round trip.**  `deserialise(serialise(g)) == g` (in both directions of `__eq__`). -/
theorem c12_dict (g : Graph) (h : WF g) :
    ∃ g', deserialise (serialise g) = .ok g' ∧ graphEq g' g = true ∧ graphEq g g' = true := by
  obtain ⟨g', h1, _, h3⟩ := c12_nothing_lost g h
  have ht := trim_eq g h.trim
  refine ⟨g', h1, ?_, ?_⟩
  · exact graphEq_of_same g' g g.nodes (by rw [h3, ht]) ht h.names h.inputNames
  · exact graphEq_of_same g g' g.nodes ht (by rw [h3, ht]) h.names h.inputNames

/-- **JSON round trip.**  `from_json(to_json(g))` succeeds and rebuilds every node with its
payload JSON-normalised (tuples read back as lists), all of them reachable; for payloads JSON
represents faithfully the node records are identical and the graphs are `==`. -/
theorem c12_json (g : Graph) (h : WF g) :
    ∃ g', deserialise (jsonNorm (serialise g)) = .ok g' ∧ g'.nodes = g.nodes.map normNode ∧
      graphNodes g' = g'.nodes ∧
      (Faithful g → g'.nodes = g.nodes ∧ graphEq g' g = true ∧ graphEq g g' = true) := by
  have ht := trim_eq g h.trim
  obtain ⟨g', h1, h2, h3⟩ := roundtrip false normPV g.nodes h.names h.topo
  have hm : g.nodes.map (mp normPV) = g.nodes.map normNode := by
    apply List.map_congr_left; intro n _; exact mp_norm n
  refine ⟨g', ?_, ?_, ?_, ?_⟩
  · simp only [serialise, ht, serialise_eq, jsonNorm_encode]; exact h1
  · rw [h2, hm]
  · rw [h3, h2]
  · intro hf
    have hid : g.nodes.map normNode = g.nodes := by
      have : ∀ n ∈ g.nodes, normNode n = n := by
        intro n hn
        simp only [normNode, hf n hn]
      rw [List.map_congr_left this]; simp
    have hg' : graphNodes g' = g.nodes := by rw [h3, hm, hid]
    refine ⟨by rw [h2, hm, hid], ?_, ?_⟩
    · exact graphEq_of_same g' g g.nodes hg' ht h.names h.inputNames
    · exact graphEq_of_same g g' g.nodes ht hg' h.names h.inputNames

/-! ### non-vacuity -/

/-- a (default output) → b (outputs x, y) → c (terminal WITH an output, tuple payload), d (terminal
without outputs, consumes b.y and a): two sinks, a multi-output parent, a shared source -/
def exG : Graph :=
  { nodes := [ { name := "a", outputs := ["0"], payload := .none, inputs := [] },
               { name := "b", outputs := ["x", "y"], payload := .int 3, inputs := [("in", ⟨"a", "0"⟩)] },
               { name := "c", outputs := ["0"], payload := .tuple [.str "f", .list [.int 1]], inputs := [("p", ⟨"b", "x"⟩)] },
               { name := "d", outputs := [], payload := .dict [("k", .bool true)], inputs := [("p", ⟨"b", "y"⟩), ("q", ⟨"a", "0"⟩)] } ]
    sinks := ["c", "d"] }

example : WF exG := ⟨by decide, by decide, by decide, by decide⟩
example : WF { nodes := [], sinks := [] } := ⟨by decide, by decide, by decide, by decide⟩
-- the round trip keeps all four nodes, `c` (terminal with an output) included
example : (match deserialise (serialise exG) with
    | .ok g' => (graphNodes g').map (·.name) == ["a", "b", "c", "d"] && g'.sinks == ["c", "d"] && graphEq g' exG
    | .error _ => false) = true := by decide
-- through JSON the tuple payload of `c` comes back as a list, so `==` is false for this graph
example : (match deserialise (jsonNorm (serialise exG)) with
    | .ok g' => (graphNodes g').map (·.name) == ["a", "b", "c", "d"] && !graphEq g' exG
    | .error _ => false) = true := by decide
-- a dict that refers to a missing parent / output is an error, as in Python
example : (match deserialise [("b", { outputs := [], inputs := [("i", .bare "a")], payload := none })] with
    | .error .keyError => true | _ => false) = true := by decide

end EkwVerif.Export
