/-
C12 — serialising a graph and reading it back gives an equal graph, with nothing lost.
Property theorems `c12_*`; helper lemmas in `namespace Aux`.
Model: EkwVerif/Model/Export.lean (graph/export.py after the C12 `fix:` commits); the table of
keyword-bindable parameter names on the de-serialisation call path is generated from the source
(EkwVerif/Gen/ExportParams.lean).
-/
import EkwVerif.Model.Export
import EkwVerif.Gen.ExportParams

namespace EkwVerif.Export

/-- the input names `deserialise` cannot take (generated from the source) -/
abbrev R : List String := EkwVerif.Gen.deserReserved

/-- parents before children: every input refers to an existing output of an earlier node -/
def topoFrom (pre : List Node) : List Node → Bool
  | [] => true
  | n :: rest =>
    n.inputs.all (fun i => match findNode pre i.2.parent with
      | none => false
      | some p => decide (i.2.out ∈ p.outputs)) && topoFrom (pre ++ [n]) rest

/-- A graph with unique node names, given as the list of exactly its nodes in a topological
order (any acyclic Python `Graph` with unique names has such a presentation), whose nodes can be
built by the `Node` constructor: inputs are keyword arguments of `Node.__init__`, so no input is
called like one of its own parameters (`Node("n", name=…)` is a TypeError, `Node("n", payload=p)`
sets the payload). -/
structure WF (g : Graph) : Prop where
  names : (g.nodes.map (·.name)).Nodup
  topo : topoFrom [] g.nodes = true
  inputNames : ∀ n ∈ g.nodes, (n.inputs.map (·.1)).Nodup      -- `inputs` is a dict
  trim : (graphNodes g).length = g.nodes.length                -- every listed node is reachable from the sinks
  ctor : ∀ n ∈ g.nodes, ∀ i ∈ n.inputs, i.1 ∉ EkwVerif.Gen.nodeInitKw

/-- the payload a node gets back when the round trip maps serialised payloads by `f` -/
def rp (f : PV → PV) (p : PV) : PV := if isNone p then .none else f p

/-- the node record that comes back -/
def mp (f : PV → PV) (n : Node) : Node := { n with payload := rp f n.payload }

def normNode (n : Node) : Node := mp (normPV ∘ hookSer) n

/-! #### decidable classes of payloads -/

/-- the payload object has a `serialise` method -/
def isHook : PV → Bool
  | .hook _ _ => true
  | _ => false

/-- the payload IS a NaN -/
def isNaN : PV → Bool
  | .float true _ => true
  | _ => false

mutual
/-- a NaN somewhere in the value -/
def hasNaN : PV → Bool
  | .float nan _ => nan
  | .hook _ s => hasNaN s
  | .list l => hasNaNL l
  | .tuple l => hasNaNL l
  | .dict d => hasNaND d
  | _ => false
def hasNaNL : List PV → Bool
  | [] => false
  | v :: vs => hasNaN v || hasNaNL vs
def hasNaND : List (Key × PV) → Bool
  | [] => false
  | (_, v) :: r => hasNaN v || hasNaND r
end

mutual
/-- every opaque object in the value is pickled by reference (no lambda, closure, instance) -/
def byRefOnly : PV → Bool
  | .atom byRef _ => byRef
  | .hook _ _ => false
  | .list l => byRefOnlyL l
  | .tuple l => byRefOnlyL l
  | .dict d => byRefOnlyD d
  | _ => true
def byRefOnlyL : List PV → Bool
  | [] => true
  | v :: vs => byRefOnly v && byRefOnlyL vs
def byRefOnlyD : List (Key × PV) → Bool
  | [] => true
  | (_, v) :: r => byRefOnly v && byRefOnlyD r
end

/-- no payload object has a `serialise` method -/
def NoHook (g : Graph) : Prop := ∀ n ∈ g.nodes, isHook n.payload = false

/-- no payload is a NaN (NaNs inside containers are allowed) -/
def NoTopNaN (g : Graph) : Prop := ∀ n ∈ g.nodes, isNaN n.payload = false

/-- no NaN anywhere in a payload -/
def NoNaN (g : Graph) : Prop := ∀ n ∈ g.nodes, hasNaN n.payload = false

/-- every opaque object in a payload is one dill pickles by reference -/
def ByRefOnly (g : Graph) : Prop := ∀ n ∈ g.nodes, byRefOnly n.payload = true

/-- payloads that JSON represents faithfully: `json.dumps` accepts them and reading back gives an
EQUAL value (no tuples, no non-string or clashing keys, no NaN) -/
structure Faithful (g : Graph) : Prop where
  fix : ∀ n ∈ g.nodes, normPV n.payload = n.payload
  nan : NoNaN g

instance (g : Graph) : Decidable (NoHook g) := by unfold NoHook; infer_instance
instance (g : Graph) : Decidable (NoTopNaN g) := by unfold NoTopNaN; infer_instance
instance (g : Graph) : Decidable (NoNaN g) := by unfold NoNaN; infer_instance
instance (g : Graph) : Decidable (ByRefOnly g) := by unfold ByRefOnly; infer_instance

namespace Aux

/-! #### payload equality -/

mutual
theorem pvEqIn_refl_shared : ∀ p, pvEqIn true p p = true
  | .none => by simp [pvEqIn]
  | .bool a => by simp [pvEqIn]
  | .int a => by simp [pvEqIn]
  | .str a => by simp [pvEqIn]
  | .float n r => by simp [pvEqIn]
  | .atom b i => by simp [pvEqIn]
  | .val k r => by simp [pvEqIn]
  | .hook i s => by simp [pvEqIn]
  | .list a => by simp [pvEqIn, pvEqL_refl_shared a]
  | .tuple a => by simp [pvEqIn, pvEqL_refl_shared a]
  | .dict a => by simp [pvEqIn, pvEqD_refl_shared a]
theorem pvEqL_refl_shared : ∀ l, pvEqL true l l = true
  | [] => by simp [pvEqL]
  | a :: as => by simp [pvEqL, pvEqIn_refl_shared a, pvEqL_refl_shared as]
theorem pvEqD_refl_shared : ∀ l, pvEqD true l l = true
  | [] => by simp [pvEqD]
  | (k, a) :: as => by simp [pvEqD, pvEqIn_refl_shared a, pvEqD_refl_shared as]
end

mutual
theorem pvEqIn_refl : ∀ p, hasNaN p = false → pvEqIn false p p = true
  | .none, _ => by simp [pvEqIn]
  | .bool a, _ => by simp [pvEqIn]
  | .int a, _ => by simp [pvEqIn]
  | .str a, _ => by simp [pvEqIn]
  | .float n r, h => by simp [hasNaN] at h; simp [pvEqIn, h]
  | .atom b i, _ => by simp [pvEqIn]
  | .val k r, _ => by simp [pvEqIn]
  | .hook i s, _ => by simp [pvEqIn]
  | .list a, h => by simp only [hasNaN] at h; simp [pvEqIn, pvEqL_refl a h]
  | .tuple a, h => by simp only [hasNaN] at h; simp [pvEqIn, pvEqL_refl a h]
  | .dict a, h => by simp only [hasNaN] at h; simp [pvEqIn, pvEqD_refl a h]
theorem pvEqL_refl : ∀ l, hasNaNL l = false → pvEqL false l l = true
  | [], _ => by simp [pvEqL]
  | a :: as, h => by
    simp only [hasNaNL, Bool.or_eq_false_iff] at h
    simp [pvEqL, pvEqIn_refl a h.1, pvEqL_refl as h.2]
theorem pvEqD_refl : ∀ l, hasNaND l = false → pvEqD false l l = true
  | [], _ => by simp [pvEqD]
  | (k, a) :: as, h => by
    simp only [hasNaND, Bool.or_eq_false_iff] at h
    simp [pvEqD, pvEqIn_refl a h.1, pvEqD_refl as h.2]
end

/-- `p == p` holds on the dict path (shared objects) unless `p` is itself a NaN -/
theorem pvEq_refl_shared (p : PV) (h : isNaN p = false) : pvEq true p p = true := by
  cases p with
  | float n r => cases n <;> simp_all [pvEq, isNaN]
  | _ => simp [pvEq, pvEqIn_refl_shared]

/-- `p == q` for a structurally identical copy `q` of `p` made of new objects unless a NaN occurs -/
theorem pvEq_refl (p : PV) (h : hasNaN p = false) : pvEq false p p = true := by
  cases p with
  | float n r => simp [hasNaN] at h; simp [pvEq, h]
  | _ => simp only [pvEq]; exact pvEqIn_refl _ h

theorem isNaN_of_hasNaN (p : PV) (h : hasNaN p = false) : isNaN p = false := by
  cases p with
  | float n r => cases n <;> simp_all [hasNaN, isNaN]
  | _ => simp [isNaN]

mutual
/-- dill gives the very same value back when every opaque object is pickled by reference -/
theorem dillPV_id (fresh : Nat → Nat) : ∀ p, byRefOnly p = true → dillPV fresh p = p
  | .none, _ => by simp [dillPV]
  | .bool a, _ => by simp [dillPV]
  | .int a, _ => by simp [dillPV]
  | .str a, _ => by simp [dillPV]
  | .float n r, _ => by simp [dillPV]
  | .atom b i, h => by simp [byRefOnly] at h; simp [dillPV, h]
  | .val k r, _ => by simp [dillPV]
  | .hook i s, h => by simp [byRefOnly] at h
  | .list a, h => by simp only [byRefOnly] at h; simp [dillPV, dillL_id fresh a h]
  | .tuple a, h => by simp only [byRefOnly] at h; simp [dillPV, dillL_id fresh a h]
  | .dict a, h => by simp only [byRefOnly] at h; simp [dillPV, dillD_id fresh a h]
theorem dillL_id (fresh : Nat → Nat) : ∀ l, byRefOnlyL l = true → dillL fresh l = l
  | [], _ => by simp [dillL]
  | a :: as, h => by
    simp only [byRefOnlyL, Bool.and_eq_true] at h
    simp [dillL, dillPV_id fresh a h.1, dillL_id fresh as h.2]
theorem dillD_id (fresh : Nat → Nat) : ∀ l, byRefOnlyD l = true → dillD fresh l = l
  | [], _ => by simp [dillD]
  | (k, a) :: as, h => by
    simp only [byRefOnlyD, Bool.and_eq_true] at h
    simp [dillD, dillPV_id fresh a h.1, dillD_id fresh as h.2]
end

theorem hookSer_id (p : PV) (h : isHook p = false) : hookSer p = p := by
  cases p <;> simp_all [hookSer, isHook]

/-! #### the generic encoder: `serialise` is `encode true hookSer`, its JSON image
`encode false (normPV ∘ hookSer)`, its dill image `encode true (d ∘ hookSer)` -/

def encRef (tup : Bool) (s : Src) : Ref := if s.out = defaultOutput then .bare s.parent else .pair tup s.parent s.out

def encNode (tup : Bool) (f : PV → PV) (n : Node) : SNode :=
  { outputs := n.outputs
    inputs := n.inputs.map (fun i => (i.1, encRef tup i.2))
    payload := if isNone n.payload then none else some (f n.payload) }

def encode (tup : Bool) (f : PV → PV) (l : List Node) : List (String × SNode) := l.map (fun n => (n.name, encNode tup f n))

theorem rp_fix (f : PV → PV) (p : PV) (h : f p = p) : rp f p = p := by
  cases p <;> simp_all [rp, isNone]

theorem mp_fix (f : PV → PV) (n : Node) (h : f n.payload = n.payload) : mp f n = n := by
  simp [mp, rp_fix f _ h]

theorem map_mp_fix (f : PV → PV) (l : List Node) (h : ∀ n ∈ l, f n.payload = n.payload) : l.map (mp f) = l := by
  induction l with
  | nil => rfl
  | cons a l ih =>
    simp only [List.map_cons, mp_fix f a (h a (by simp))]
    rw [ih (fun n hn => h n (by simp [hn]))]

theorem serialise_eq (l : List Node) : l.map (fun n => (n.name, serNode n)) = encode true hookSer l := by
  simp only [encode]
  apply List.map_congr_left
  intro n _
  simp only [serNode, encNode, serSrc, encRef]

theorem jsonNorm_encode (l : List Node) : jsonNorm (encode true hookSer l) = encode false (normPV ∘ hookSer) l := by
  simp only [jsonNorm, encode, List.map_map]
  apply List.map_congr_left
  intro n _
  simp only [Function.comp, encNode, List.map_map]
  congr 1
  congr 1
  · apply List.map_congr_left
    intro i _
    simp only [Function.comp, encRef]
    split <;> simp [normRef]
  · cases h : isNone n.payload <;> simp

theorem fileData_encode (d : PV → PV) (l : List Node) : fileData d (encode true hookSer l) = encode true (d ∘ hookSer) l := by
  simp only [fileData, encode, List.map_map]
  apply List.map_congr_left
  intro n _
  simp only [Function.comp, encNode]
  congr 1
  congr 1
  cases h : isNone n.payload <;> simp

/-! #### rebuilding the node list -/

theorem findNode_map_mp (f : PV → PV) (l : List Node) (x : String) :
    findNode (l.map (mp f)) x = (findNode l x).map (mp f) := by
  induction l with
  | nil => rfl
  | cons a l ih =>
    simp only [List.map_cons, findNode]
    by_cases h : a.name = x
    · simp [mp, h]
    · have : (mp f a).name = a.name := rfl
      simp [this, h, ih]

theorem findNode_some (l : List Node) (x : String) (p : Node) (h : findNode l x = some p) : p ∈ l ∧ p.name = x := by
  induction l with
  | nil => simp [findNode] at h
  | cons a l ih =>
    simp only [findNode] at h
    by_cases h2 : a.name = x
    · simp only [h2, ↓reduceIte, Option.some.injEq] at h
      subst h; exact ⟨by simp, h2⟩
    · simp only [h2, ↓reduceIte] at h
      exact ⟨List.mem_cons_of_mem _ (ih h).1, (ih h).2⟩

theorem resolve_enc (tup : Bool) (f : PV → PV) (pre : List Node) (s : Src) (p : Node)
    (hp : findNode pre s.parent = some p) (ho : s.out ∈ p.outputs) :
    resolve (pre.map (mp f)) (encRef tup s) = .ok s := by
  unfold encRef
  by_cases h : s.out = defaultOutput
  · simp only [h, ↓reduceIte, resolve, findNode_map_mp, hp, Option.map_some]
    have : defaultOutput ∈ (mp f p).outputs := by rw [← h]; exact ho
    simp only [this, ↓reduceIte]
    cases s; simp_all
  · simp only [h, ↓reduceIte, resolve, findNode_map_mp, hp, Option.map_some]
    have : s.out ∈ (mp f p).outputs := ho
    simp only [this, ↓reduceIte]

theorem resolveAll_enc (tup : Bool) (f : PV → PV) (pre : List Node) (ins : List (String × Src))
    (h : ins.all (fun i => match findNode pre i.2.parent with
      | none => false
      | some p => decide (i.2.out ∈ p.outputs)) = true) :
    resolveAll (pre.map (mp f)) (ins.map (fun i => (i.1, encRef tup i.2))) = .ok ins := by
  induction ins with
  | nil => rfl
  | cons i rest ih =>
    obtain ⟨k, s⟩ := i
    simp only [List.all_cons, Bool.and_eq_true] at h
    obtain ⟨h1, h2⟩ := h
    simp only [List.map_cons, resolveAll]
    cases hp : findNode pre s.parent with
    | none => simp [hp] at h1
    | some p =>
      simp only [hp, decide_eq_true_eq] at h1
      rw [resolve_enc tup f pre s p hp h1, ih h2]

theorem deserLoop_encode (res : List String) (tup : Bool) (f : PV → PV) (rest pre : List Node) (h : topoFrom pre rest = true)
    (hres : ∀ n ∈ rest, ∀ i ∈ n.inputs, i.1 ∉ res) :
    deserLoop res (pre.map (mp f)) (encode tup f rest) = .ok ((pre ++ rest).map (mp f)) := by
  induction rest generalizing pre with
  | nil => simp [encode, deserLoop]
  | cons n rest ih =>
    simp only [topoFrom, Bool.and_eq_true] at h
    obtain ⟨h1, h2⟩ := h
    simp only [encode, List.map_cons, deserLoop, encNode]
    rw [resolveAll_enc tup f pre n.inputs h1]
    have hno : (n.inputs.map (fun i => (i.1, encRef tup i.2))).any (fun i => decide (i.1 ∈ res)) = false := by
      rw [List.any_eq_false]
      intro x hx
      obtain ⟨i, hi, rfl⟩ := List.mem_map.mp hx
      simpa using hres n (by simp) i hi
    simp only [hno]
    have := ih (pre ++ [n]) h2 (fun m hm => hres m (by simp [hm]))
    simp only [List.map_append, List.map_cons, List.map_nil, List.append_assoc, List.singleton_append, encode, encNode] at this
    have hn : ({ name := n.name, outputs := n.outputs,
                 payload := (if isNone n.payload = true then none else some (f n.payload)).getD PV.none,
                 inputs := n.inputs } : Node) = mp f n := by
      simp only [mp, rp]
      cases hh : isNone n.payload <;> simp
    simp only [hn]
    simp only [Bool.false_eq_true, ↓reduceIte]
    rw [this]
    simp

/-- … and an input of a reserved name anywhere makes the loop end in `TypeError` -/
theorem deserLoop_encode_err (res : List String) (tup : Bool) (f : PV → PV) (rest pre : List Node) (h : topoFrom pre rest = true)
    (hbad : ∃ n ∈ rest, ∃ i ∈ n.inputs, i.1 ∈ res) :
    deserLoop res (pre.map (mp f)) (encode tup f rest) = .error .typeError := by
  induction rest generalizing pre with
  | nil => obtain ⟨n, hn, _⟩ := hbad; cases hn
  | cons n rest ih =>
    simp only [topoFrom, Bool.and_eq_true] at h
    obtain ⟨h1, h2⟩ := h
    simp only [encode, List.map_cons, deserLoop, encNode]
    rw [resolveAll_enc tup f pre n.inputs h1]
    by_cases hany : (n.inputs.map (fun i => (i.1, encRef tup i.2))).any (fun i => decide (i.1 ∈ res)) = true
    · simp only [hany, ↓reduceIte]
    · have hno : ∀ i ∈ n.inputs, i.1 ∉ res := by
        intro i hi hx
        apply hany
        rw [List.any_eq_true]
        exact ⟨(i.1, encRef tup i.2), List.mem_map_of_mem hi, by simpa using hx⟩
      have hbad' : ∃ m ∈ rest, ∃ i ∈ m.inputs, i.1 ∈ res := by
        obtain ⟨m, hm, i, hi, hx⟩ := hbad
        rcases List.mem_cons.mp hm with rfl | hm
        · exact absurd hx (hno i hi)
        · exact ⟨m, hm, i, hi, hx⟩
      have := ih (pre ++ [n]) h2 hbad'
      simp only [List.map_append, List.map_cons, List.map_nil, encode, encNode] at this
      have hn : ({ name := n.name, outputs := n.outputs,
                   payload := (if isNone n.payload = true then none else some (f n.payload)).getD PV.none,
                   inputs := n.inputs } : Node) = mp f n := by
        simp only [mp, rp]
        cases hh : isNone n.payload <;> simp
      simp only [hany, hn]
      simp only [Bool.false_eq_true, ↓reduceIte]
      exact this

theorem topoFrom_map_mp (f : PV → PV) (rest pre : List Node) (h : topoFrom pre rest = true) :
    topoFrom (pre.map (mp f)) (rest.map (mp f)) = true := by
  induction rest generalizing pre with
  | nil => rfl
  | cons n rest ih =>
    simp only [topoFrom, Bool.and_eq_true] at h
    obtain ⟨h1, h2⟩ := h
    simp only [List.map_cons, topoFrom, Bool.and_eq_true]
    constructor
    · have : (mp f n).inputs = n.inputs := rfl
      rw [this]
      rw [List.all_eq_true] at h1 ⊢
      intro i hi
      have := h1 i hi
      rw [findNode_map_mp]
      cases hp : findNode pre i.2.parent with
      | none => simp [hp] at this
      | some p => simpa [hp, mp] using this
    · have := ih (pre ++ [n]) h2
      simpa using this

/-! #### every node is reachable from the terminal nodes -/

theorem sweep_sublist (l : List Node) (need : List String) : (sweep l need).1.Sublist l := by
  induction l with
  | nil => simp [sweep]
  | cons n rest ih =>
    simp only [sweep]
    split
    · exact List.Sublist.cons_cons _ ih
    · exact List.Sublist.cons _ ih

/-- `Q l need`: every node is needed from outside or consumed by a LATER node of the list -/
def Q (l : List Node) (need : List String) : Prop :=
  ∀ A m B, l = A ++ m :: B → m.name ∈ need ∨ ∃ c ∈ B, m.name ∈ parents c

theorem sweep_all (l : List Node) (need : List String) (h : Q l need) :
    (sweep l need).1 = l ∧ (∀ x ∈ need, x ∈ (sweep l need).2) ∧ (∀ c ∈ l, ∀ x ∈ parents c, x ∈ (sweep l need).2) := by
  induction l with
  | nil => simp [sweep]
  | cons n rest ih =>
    have hq : Q rest need := by
      intro A m B hl
      exact h (n :: A) m B (by simp [hl])
    obtain ⟨i1, i2, i3⟩ := ih hq
    have hn : n.name ∈ (sweep rest need).2 := by
      rcases h [] n rest rfl with h | ⟨c, hc, hx⟩
      · exact i2 _ h
      · exact i3 c hc _ hx
    simp only [sweep, hn, ↓reduceIte, i1, true_and]
    constructor
    · intro x hx; exact List.mem_append_left _ (i2 x hx)
    · intro c hc x hx
      rcases List.mem_cons.mp hc with hc | hc
      · subst hc; exact List.mem_append_right _ hx
      · exact List.mem_append_left _ (i3 c hc x hx)

theorem topo_parent_before (A B pre : List Node) (c : Node) (x : String)
    (h : topoFrom pre (A ++ c :: B) = true) (hx : x ∈ parents c) : ∃ p ∈ pre ++ A, p.name = x := by
  induction A generalizing pre with
  | nil =>
    simp only [List.nil_append, topoFrom, Bool.and_eq_true] at h
    simp only [parents, List.mem_map] at hx
    obtain ⟨i, hi, rfl⟩ := hx
    have := (List.all_eq_true.mp h.1) i hi
    cases hp : findNode pre i.2.parent with
    | none => simp [hp] at this
    | some p =>
      obtain ⟨hm, hn⟩ := findNode_some _ _ _ hp
      exact ⟨p, by simpa using hm, hn⟩
  | cons a A ih =>
    simp only [List.cons_append, topoFrom, Bool.and_eq_true] at h
    obtain ⟨p, hp, hn⟩ := ih (pre ++ [a]) h.2
    exact ⟨p, by simpa using hp, hn⟩

theorem consumed_encode (tup : Bool) (f : PV → PV) (l : List Node) :
    consumed (encode tup f l) = l.flatMap parents := by
  induction l with
  | nil => rfl
  | cons n rest ih =>
    simp only [consumed, encode, List.map_cons, List.flatMap_cons] at ih ⊢
    rw [ih]
    congr 1
    simp only [encNode, parents, List.map_map]
    apply List.map_congr_left
    intro i _
    simp only [Function.comp, encRef]
    split <;> rfl

theorem q_terminals (l : List Node) (hn : (l.map (·.name)).Nodup) (ht : topoFrom [] l = true) :
    Q l ((l.map (·.name)).filter (fun n => n ∉ l.flatMap parents)) := by
  intro A m B hl
  by_cases hc : m.name ∈ l.flatMap parents
  · right
    obtain ⟨c, hcl, hx⟩ := List.mem_flatMap.mp hc
    -- no node at or before `m` can consume `m`
    have hno : ∀ A1 A2 : List Node, ∀ c', l = A1 ++ c' :: A2 → (∀ p ∈ A1, p ∈ A) → m.name ∈ parents c' → False := by
      intro A1 A2 c' hl' hsub hx'
      obtain ⟨p, hp, hpn⟩ := topo_parent_before A1 A2 [] c' m.name (by rw [← hl']; exact ht) hx'
      have hpA : p ∈ A := hsub p (by simpa using hp)
      rw [hl, List.map_append, List.map_cons] at hn
      have hdis := (List.nodup_append.mp hn).2.2
      exact hdis p.name (List.mem_map_of_mem hpA) m.name (by simp) hpn
    rw [hl] at hcl
    rcases List.mem_append.mp hcl with hcA | hcB
    · obtain ⟨A1, A2, hA⟩ := List.append_of_mem hcA
      exfalso
      apply hno A1 (A2 ++ m :: B) c (by rw [hl, hA]; simp) _ hx
      intro p hp; rw [hA]; exact List.mem_append_left _ hp
    · rcases List.mem_cons.mp hcB with hcm | hcB
      · exfalso
        subst hcm
        exact hno A B c hl (fun p hp => hp) hx
      · exact ⟨c, hcB, hx⟩
  · left
    apply List.mem_filter.mpr
    refine ⟨?_, by simpa using hc⟩
    rw [hl]; simp

/-- the nodes rebuilt by `deserialise` are all reachable from the sinks it chooses -/
theorem terminals_reach_all (l : List Node) (hn : (l.map (·.name)).Nodup) (ht : topoFrom [] l = true) :
    (sweep l ((l.map (·.name)).filter (fun n => n ∉ l.flatMap parents))).1 = l :=
  (sweep_all l _ (q_terminals l hn ht)).1

theorem trim_eq (g : Graph) (h : (graphNodes g).length = g.nodes.length) : graphNodes g = g.nodes :=
  (sweep_sublist g.nodes g.sinks).eq_of_length h

theorem names_map_mp (f : PV → PV) (l : List Node) : (l.map (mp f)).map (·.name) = l.map (·.name) := by
  simp [List.map_map, Function.comp, mp]

theorem parents_map_mp (f : PV → PV) (l : List Node) : (l.map (mp f)).flatMap parents = l.flatMap parents := by
  induction l with
  | nil => rfl
  | cons a l ih => simp only [List.map_cons, List.flatMap_cons, ih]; rfl

/-- the whole round trip through the generic encoder -/
theorem roundtrip (res : List String) (tup : Bool) (f : PV → PV) (l : List Node) (hn : (l.map (·.name)).Nodup) (ht : topoFrom [] l = true)
    (hres : ∀ n ∈ l, ∀ i ∈ n.inputs, i.1 ∉ res) :
    ∃ g', deserialise res (encode tup f l) = .ok g' ∧ g'.nodes = l.map (mp f) ∧ graphNodes g' = l.map (mp f) := by
  have h1 := deserLoop_encode res tup f l [] ht hres
  simp only [List.map_nil, List.nil_append] at h1
  refine ⟨{ nodes := l.map (mp f), sinks := ((l.map (mp f)).map (·.name)).filter (fun n => n ∉ consumed (encode tup f l)) }, ?_, rfl, ?_⟩
  · simp only [deserialise, h1]
  · simp only [graphNodes, consumed_encode]
    have := terminals_reach_all (l.map (mp f)) (by rw [names_map_mp]; exact hn)
      (by have := topoFrom_map_mp f l [] ht; simpa using this)
    rw [parents_map_mp] at this
    exact this

/-! #### `Graph.__eq__` on a graph and its round-tripped image: exactly the payload comparisons -/

theorem sameKeys_refl (l : List String) : sameKeys l l = true := by
  simp [sameKeys]

theorem findNode_of_mem (l : List Node) (n : Node) (hn : (l.map (·.name)).Nodup) (hm : n ∈ l) :
    findNode l n.name = some n := by
  induction l with
  | nil => cases hm
  | cons a l ih =>
    simp only [List.map_cons, List.nodup_cons] at hn
    simp only [findNode]
    rcases List.mem_cons.mp hm with h | h
    · subst h; simp
    · by_cases h2 : a.name = n.name
      · exfalso; apply hn.1; rw [h2]; exact List.mem_map_of_mem h
      · simp only [h2, ↓reduceIte]; exact ih hn.2 h

theorem lookupSrc_of_mem (l : List (String × Src)) (i : String × Src) (hn : (l.map (·.1)).Nodup) (hm : i ∈ l) :
    lookupSrc l i.1 = some i.2 := by
  induction l with
  | nil => cases hm
  | cons a l ih =>
    obtain ⟨k, s⟩ := a
    simp only [List.map_cons, List.nodup_cons] at hn
    simp only [lookupSrc]
    rcases List.mem_cons.mp hm with h | h
    · subst h; simp
    · by_cases h2 : k = i.1
      · exfalso; apply hn.1; rw [h2]; exact List.mem_map_of_mem h
      · simp only [h2, ↓reduceIte]; exact ih hn.2 h

theorem and_left_true (a b : Bool) (h : a = true) : (a && b) = b := by simp [h]

/-- a node against its image: everything but the payload comparison is true -/
theorem nodeEq_mp_left (sh : Bool) (f : PV → PV) (n : Node) (hn : (n.inputs.map (·.1)).Nodup) :
    nodeEq sh (mp f n) n = pvEq sh (rp f n.payload) n.payload := by
  simp only [nodeEq, mp, beq_self_eq_true, sameKeys_refl, Bool.true_and]
  refine and_left_true _ _ ?_
  rw [List.all_eq_true]
  intro i hi
  rw [lookupSrc_of_mem n.inputs i hn hi]
  simp

theorem nodeEq_mp_right (sh : Bool) (f : PV → PV) (n : Node) (hn : (n.inputs.map (·.1)).Nodup) :
    nodeEq sh n (mp f n) = pvEq sh n.payload (rp f n.payload) := by
  simp only [nodeEq, mp, beq_self_eq_true, sameKeys_refl, Bool.true_and]
  refine and_left_true _ _ ?_
  rw [List.all_eq_true]
  intro i hi
  rw [lookupSrc_of_mem n.inputs i hn hi]
  simp

theorem all_congr_mem {α} (l : List α) (p q : α → Bool) (h : ∀ x ∈ l, p x = q x) : l.all p = l.all q := by
  induction l with
  | nil => rfl
  | cons a l ih =>
    simp only [List.all_cons, h a (by simp)]
    rw [ih (fun x hx => h x (by simp [hx]))]

theorem graphEq_mapped_left (sh : Bool) (f : PV → PV) (a b : Graph) (l : List Node)
    (ha : graphNodes a = l.map (mp f)) (hb : graphNodes b = l)
    (hn : (l.map (·.name)).Nodup) (hi : ∀ n ∈ l, (n.inputs.map (·.1)).Nodup) :
    graphEq sh a b = l.all (fun n => pvEq sh (rp f n.payload) n.payload) := by
  simp only [graphEq, ha, hb, names_map_mp, sameKeys_refl, Bool.true_and, List.all_map]
  apply all_congr_mem
  intro n hm
  have : (mp f n).name = n.name := rfl
  simp only [Function.comp, this, findNode_of_mem l n hn hm]
  exact nodeEq_mp_left sh f n (hi n hm)

theorem graphEq_mapped_right (sh : Bool) (f : PV → PV) (a b : Graph) (l : List Node)
    (ha : graphNodes a = l.map (mp f)) (hb : graphNodes b = l)
    (hn : (l.map (·.name)).Nodup) (hi : ∀ n ∈ l, (n.inputs.map (·.1)).Nodup) :
    graphEq sh b a = l.all (fun n => pvEq sh n.payload (rp f n.payload)) := by
  simp only [graphEq, ha, hb, names_map_mp, sameKeys_refl, Bool.true_and]
  apply all_congr_mem
  intro n hm
  have hmem : mp f n ∈ l.map (mp f) := List.mem_map_of_mem hm
  have hnd : ((l.map (mp f)).map (·.name)).Nodup := by rw [names_map_mp]; exact hn
  have := findNode_of_mem (l.map (mp f)) (mp f n) hnd hmem
  have hname : (mp f n).name = n.name := rfl
  rw [hname] at this
  simp only [this]
  exact nodeEq_mp_right sh f n (hi n hm)

/-- every name `deserialise` reserves is a parameter name of the `Node` constructor (a fact about the
generated table, i.e. about the source) -/
theorem reserved_ctor : ∀ x ∈ R, x ∈ EkwVerif.Gen.nodeInitKw := by decide

theorem wf_res (g : Graph) (h : WF g) : ∀ n ∈ g.nodes, ∀ i ∈ n.inputs, i.1 ∉ R :=
  fun n hn i hi hx => h.ctor n hn i hi (reserved_ctor _ hx)

/-- the common core of the three round trips: `f` = what the path does to a serialised payload -/
theorem trip (tup : Bool) (f : PV → PV) (sh : Bool) (g : Graph) (h : WF g) :
    ∃ g', deserialise R (encode tup (f ∘ hookSer) g.nodes) = .ok g' ∧
      g'.nodes = g.nodes.map (mp (f ∘ hookSer)) ∧ graphNodes g' = g'.nodes ∧
      graphEq sh g' g = g.nodes.all (fun n => pvEq sh (rp (f ∘ hookSer) n.payload) n.payload) ∧
      graphEq sh g g' = g.nodes.all (fun n => pvEq sh n.payload (rp (f ∘ hookSer) n.payload)) := by
  have ht := trim_eq g h.trim
  obtain ⟨g', h1, h2, h3⟩ := roundtrip R tup (f ∘ hookSer) g.nodes h.names h.topo (wf_res g h)
  refine ⟨g', h1, h2, by rw [h3, h2], ?_, ?_⟩
  · exact graphEq_mapped_left sh _ g' g g.nodes h3 ht h.names h.inputNames
  · exact graphEq_mapped_right sh _ g' g g.nodes h3 ht h.names h.inputNames

end Aux

open Aux

/-! ### property theorems -/

/-- **The source keeps the inputs apart from its own parameters.**  Every input name that makes
`deserialise` raise `TypeError` (a keyword-bindable parameter of `_deserialise_node`, of the default
node factory or of `Node.__init__`, which receive the inputs as `**kwargs`) is a parameter name of
`Node.__init__` itself, i.e. a name no node built by the constructor can have as an input.  Decided
on the table generated from the source: a parameter such as `data` or `node_factory` that can be
bound by keyword on that path makes this false. -/
theorem c12_reserved_subset : ∀ x ∈ EkwVerif.Gen.deserReserved, x ∈ EkwVerif.Gen.nodeInitKw := Aux.reserved_ctor

/-- **Exactly those names.**  A graph (unique names not even needed) one of whose nodes has an input
called like a keyword-bindable parameter on the call path cannot be read back: `deserialise
(serialise g)` raises `TypeError`.  Together with `c12_nothing_lost` (which needs only `∉ R`, see
`Aux.trip`): the dict round trip succeeds iff no input name is in `R`; before the fix `R` held
`data` and `node_factory`. -/
theorem c12_reserved_raises (g : Graph) (ht : topoFrom [] g.nodes = true) (htrim : (graphNodes g).length = g.nodes.length)
    (hbad : ∃ n ∈ g.nodes, ∃ i ∈ n.inputs, i.1 ∈ R) :
    deserialise R (serialise g) = .error .typeError := by
  have hte := trim_eq g htrim
  have := deserLoop_encode_err R true hookSer g.nodes [] ht hbad
  simp only [List.map_nil] at this
  simp only [deserialise, serialise, hte, serialise_eq, this]

/-- **Nothing lost (dict).**  For every well-formed graph — whether or not its terminal nodes have
outputs, with any number of sinks, multi-output nodes, shared sub-expressions, any input names a
node can have, or no node at all — `deserialise (serialise g)` succeeds, rebuilds every node
record with its name, outputs and inputs, the payload being the original payload or, for a payload
object with a `serialise()` method, that method's result; and every rebuilt node is part of the
resulting graph (reachable from the sinks `deserialise` chooses).  Without such payload objects the
records are identical. -/
theorem c12_nothing_lost (g : Graph) (h : WF g) :
    ∃ g', deserialise R (serialise g) = .ok g' ∧ g'.nodes = g.nodes.map (mp hookSer) ∧ graphNodes g' = g'.nodes ∧
      (NoHook g → g'.nodes = g.nodes ∧ graphNodes g' = graphNodes g) := by
  have ht := trim_eq g h.trim
  obtain ⟨g', h1, h2, h3, _, _⟩ := trip true id true g h
  refine ⟨g', ?_, h2, h3, ?_⟩
  · simp only [serialise, ht, serialise_eq]; exact h1
  · intro hh
    have : g.nodes.map (mp (id ∘ hookSer)) = g.nodes :=
      map_mp_fix _ _ (fun n hn => hookSer_id _ (hh n hn))
    refine ⟨by rw [h2, this], by rw [h3, h2, this, ht]⟩

/-- **Dict round trip, exactly.**  `deserialise(serialise(g)) == g` evaluates to the conjunction of
the payload comparisons `hookSer p == p`, in either direction of `__eq__`: names, outputs, input
names and references always agree. -/
theorem c12_dict_exact (g : Graph) (h : WF g) :
    ∃ g', deserialise R (serialise g) = .ok g' ∧
      graphEq true g' g = g.nodes.all (fun n => pvEq true (rp hookSer n.payload) n.payload) ∧
      graphEq true g g' = g.nodes.all (fun n => pvEq true n.payload (rp hookSer n.payload)) := by
  have ht := trim_eq g h.trim
  obtain ⟨g', h1, _, _, h4, h5⟩ := trip true id true g h
  refine ⟨g', ?_, h4, h5⟩
  simp only [serialise, ht, serialise_eq]; exact h1

/-- **Dict round trip.**  `deserialise(serialise(g)) == g` (in both directions of `__eq__`) for
every well-formed graph none of whose payloads is an object with a `serialise()` method or a NaN.
Both exclusions are needed: `c12_dict_hook_full_fails`, `c12_dict_full_fails`. -/
theorem c12_dict_partial (g : Graph) (h : WF g) (hh : NoHook g) (hnan : NoTopNaN g) :
    ∃ g', deserialise R (serialise g) = .ok g' ∧ graphEq true g' g = true ∧ graphEq true g g' = true := by
  obtain ⟨g', h1, h4, h5⟩ := c12_dict_exact g h
  have hp : ∀ n ∈ g.nodes, rp hookSer n.payload = n.payload :=
    fun n hn => rp_fix _ _ (hookSer_id _ (hh n hn))
  refine ⟨g', h1, ?_, ?_⟩
  · rw [h4, List.all_eq_true]; intro n hn; rw [hp n hn]; exact pvEq_refl_shared _ (hnan n hn)
  · rw [h5, List.all_eq_true]; intro n hn; rw [hp n hn]; exact pvEq_refl_shared _ (hnan n hn)

/-- a single node whose payload is NaN -/
def exNaN : Graph := { nodes := [{ name := "a", outputs := ["0"], payload := .float true "nan", inputs := [] }], sinks := ["a"] }

/-- a single node whose payload object has a `serialise()` method returning `{"k": 1}` -/
def exHook : Graph :=
  { nodes := [{ name := "a", outputs := ["0"], payload := .hook 0 (.dict [(.str "k", .int 1)]), inputs := [] }], sinks := ["a"] }

theorem exNaN_wf : WF exNaN := ⟨by decide, by decide, by decide, by decide, by decide⟩
theorem exHook_wf : WF exHook := ⟨by decide, by decide, by decide, by decide, by decide⟩

/-- The dict round trip is NOT `==` for every well-formed graph: a NaN payload is not equal to
itself (`nan != nan`), so the graph is not even equal to itself. -/
theorem c12_dict_full_fails :
    ¬ (∀ g, WF g → NoHook g → ∃ g', deserialise R (serialise g) = .ok g' ∧ graphEq true g' g = true) := by
  intro hall
  obtain ⟨g', h1, h2⟩ := hall exNaN exNaN_wf (by decide)
  obtain ⟨g'', h1', h4, _⟩ := c12_dict_exact exNaN exNaN_wf
  rw [h1] at h1'
  cases h1'
  rw [h4] at h2
  revert h2
  decide

/-- … nor when a payload object has a `serialise()` method: the node comes back with the method's
result as its payload, with the default node factory nothing turns it back into the object. -/
theorem c12_dict_hook_full_fails :
    ¬ (∀ g, WF g → NoTopNaN g → ∃ g', deserialise R (serialise g) = .ok g' ∧ graphEq true g' g = true) := by
  intro hall
  obtain ⟨g', h1, h2⟩ := hall exHook exHook_wf (by decide)
  obtain ⟨g'', h1', h4, _⟩ := c12_dict_exact exHook exHook_wf
  rw [h1] at h1'
  cases h1'
  rw [h4] at h2
  revert h2
  decide

/-- **The node factory is the way back for payload objects with a `serialise()` method.**  If the
factory handed to `deserialise` rebuilds payloads by `inv` and `inv` maps what comes back for EVERY
node of `g` to that node's payload (`hinv`: for a payload object with a `serialise()` method `inv`
inverts the method and returns the object itself, i.e. the same identity; for every other payload
`inv` is the identity on it - so a graph that holds an object H and, on another node, a plain payload
equal to `H.serialise()` has no such `inv` and is outside this theorem), then the node records come
back identical, all of them reachable, and `==` evaluates to the conjunction of the comparisons
`p == p` of the payloads with themselves, in either direction: `True` unless a payload is a NaN.
(A factory that builds a NEW object with the same state - what the harness's factory does - gives
identical records up to the identity of these objects; that is compared by the tie, by state.) -/
theorem c12_hook_factory (g : Graph) (h : WF g) (inv : PV → PV)
    (hinv : ∀ n ∈ g.nodes, inv (rp hookSer n.payload) = n.payload) :
    ∃ g', deserialise R (serialise g) = .ok g' ∧ (withFactory inv g').nodes = g.nodes ∧
      graphNodes (withFactory inv g') = (withFactory inv g').nodes ∧
      graphEq true (withFactory inv g') g = g.nodes.all (fun n => pvEq true n.payload n.payload) ∧
      graphEq true g (withFactory inv g') = g.nodes.all (fun n => pvEq true n.payload n.payload) ∧
      (NoTopNaN g → graphEq true (withFactory inv g') g = true ∧ graphEq true g (withFactory inv g') = true) := by
  obtain ⟨g', h1, h2, h3, _⟩ := c12_nothing_lost g h
  have hnodes : (withFactory inv g').nodes = g.nodes := by
    simp only [withFactory, h2, List.map_map]
    have : ∀ n ∈ g.nodes, ((fun n : Node => { n with payload := inv n.payload }) ∘ mp hookSer) n = n := by
      intro n hn
      simp only [Function.comp, mp, hinv n hn]
    rw [List.map_congr_left this]; simp
  have hreach : graphNodes (withFactory inv g') = (withFactory inv g').nodes := by
    -- the factory changes payloads only: reachability is that of g'
    have hsw : ∀ (l : List Node) (need : List String),
        sweep (l.map (fun n : Node => { n with payload := inv n.payload })) need =
          ((sweep l need).1.map (fun n : Node => { n with payload := inv n.payload }), (sweep l need).2) := by
      intro l need
      induction l with
      | nil => simp [sweep]
      | cons a l ih =>
        simp only [List.map_cons, sweep, ih]
        split <;> simp [parents]
    simp only [graphNodes, withFactory, hsw]
    have : (sweep g'.nodes g'.sinks).1 = g'.nodes := h3
    rw [this]
  have hid : g.nodes.map (mp id) = g.nodes := map_mp_fix id _ (fun _ _ => rfl)
  have hga : graphNodes (withFactory inv g') = g.nodes.map (mp id) := by rw [hreach, hnodes, hid]
  have hgb : graphNodes g = g.nodes := trim_eq g h.trim
  have hrp : ∀ n ∈ g.nodes, rp id n.payload = n.payload := fun n _ => rp_fix id _ rfl
  have e1 : graphEq true (withFactory inv g') g = g.nodes.all (fun n => pvEq true n.payload n.payload) := by
    rw [graphEq_mapped_left true id _ g g.nodes hga hgb h.names h.inputNames]
    exact all_congr_mem _ _ _ (fun n hn => by rw [hrp n hn])
  have e2 : graphEq true g (withFactory inv g') = g.nodes.all (fun n => pvEq true n.payload n.payload) := by
    rw [graphEq_mapped_right true id _ g g.nodes hga hgb h.names h.inputNames]
    exact all_congr_mem _ _ _ (fun n hn => by rw [hrp n hn])
  refine ⟨g', h1, hnodes, hreach, e1, e2, ?_⟩
  · intro hnan
    have : g.nodes.all (fun n => pvEq true n.payload n.payload) = true := by
      rw [List.all_eq_true]; intro n hn; exact pvEq_refl_shared _ (hnan n hn)
    exact ⟨by rw [e1, this], by rw [e2, this]⟩

/-- the harness's inverting node factory: a payload `{"__c12hook__": id, "v": s}` is turned back into
the object `id` whose `serialise()` returns that dict -/
def invHook : PV → PV
  | .dict [(.str "__c12hook__", .int id), (.str "v", s)] => .hook id.toNat (.dict [(.str "__c12hook__", .int id), (.str "v", s)])
  | p => p

/-- a graph with a payload object whose `serialise()` result the factory `invHook` recognises, next
to a plain payload, a tuple payload and a value (bytes) payload -/
def exHookM : Graph :=
  { nodes := [ { name := "a", outputs := ["0", "0", "x"], payload := .hook 5 (.dict [(.str "__c12hook__", .int 5), (.str "v", .list [.int 1])]), inputs := [] },
               { name := "b", outputs := [], payload := .tuple [.str "f", .val "bytes" "bytes:b'xy'"], inputs := [("p", ⟨"a", "x"⟩), ("q", ⟨"a", "0"⟩)] } ]
    sinks := ["b"] }

theorem exHookM_wf : WF exHookM := ⟨by decide, by decide, by decide, by decide, by decide⟩

theorem exHookM_inv : ∀ n ∈ exHookM.nodes, invHook (rp hookSer n.payload) = n.payload := by
  intro n hn
  simp only [exHookM, List.mem_cons, List.not_mem_nil, or_false] at hn
  rcases hn with rfl | rfl <;> rfl

/-- `c12_hook_factory` has an instance: with the factory `invHook` the graph `exHookM` comes back
with identical records and `==` both ways -/
example : ∃ g', deserialise R (serialise exHookM) = .ok g' ∧ (withFactory invHook g').nodes = exHookM.nodes ∧
    graphEq true (withFactory invHook g') exHookM = true ∧ graphEq true exHookM (withFactory invHook g') = true := by
  obtain ⟨g', h1, h2, _, _, _, h6⟩ := c12_hook_factory exHookM exHookM_wf invHook exHookM_inv
  exact ⟨g', h1, h2, h6 (by decide)⟩

/-- **JSON round trip.**  When `json.dumps` accepts the payloads, `from_json(to_json(g))` succeeds
and rebuilds every node with its payload JSON-normalised (tuples read back as lists, keys as
strings), all of them reachable; `==` is exactly the conjunction of the payload comparisons; for
payloads JSON represents faithfully the node records are identical and the graphs are `==`.  When
`json.dumps` does not accept a payload, `to_json` raises `TypeError`. -/
theorem c12_json (g : Graph) (h : WF g) :
    (jsonOk (serialise g) = false → jsonTrip R g = .error .typeError) ∧
    (jsonOk (serialise g) = true → ∃ g', jsonTrip R g = .ok g' ∧ g'.nodes = g.nodes.map normNode ∧
      graphNodes g' = g'.nodes ∧
      graphEq false g' g = g.nodes.all (fun n => pvEq false (normNode n).payload n.payload) ∧
      graphEq false g g' = g.nodes.all (fun n => pvEq false n.payload (normNode n).payload) ∧
      (NoHook g → Faithful g → g'.nodes = g.nodes ∧ graphEq false g' g = true ∧ graphEq false g g' = true)) := by
  have ht := trim_eq g h.trim
  constructor
  · intro hj; simp [jsonTrip, hj]
  · intro hj
    obtain ⟨g', h1, h2, h3, h4, h5⟩ := trip false normPV false g h
    refine ⟨g', ?_, h2, h3, h4, h5, ?_⟩
    · simp only [jsonTrip, hj, ↓reduceIte]
      simp only [serialise, ht, serialise_eq, jsonNorm_encode]; exact h1
    · intro hh hf
      have hfix : ∀ n ∈ g.nodes, (normPV ∘ hookSer) n.payload = n.payload := by
        intro n hn
        simp only [Function.comp, hookSer_id _ (hh n hn), hf.fix n hn]
      have hid : g.nodes.map (mp (normPV ∘ hookSer)) = g.nodes := map_mp_fix _ _ hfix
      refine ⟨by rw [h2, hid], ?_, ?_⟩
      · rw [h4, List.all_eq_true]; intro n hn
        rw [rp_fix _ _ (hfix n hn)]; exact pvEq_refl _ (hf.nan n hn)
      · rw [h5, List.all_eq_true]; intro n hn
        rw [rp_fix _ _ (hfix n hn)]; exact pvEq_refl _ (hf.nan n hn)

/-- **Cascade file round trip, dill being a parameter.**  Let `d` be what `dill.load ∘ dill.dump`
does to one payload value (names, output lists and references, i.e. str / list / tuple of str, are
rebuilt exactly).  Then `Cascade.from_serialised` after `Cascade.serialise` succeeds on every
well-formed graph, rebuilds every node with its name, outputs and inputs and with the payload
`d (hookSer p)`, all of them reachable, and `==` is exactly the conjunction of the payload
comparisons. -/
theorem c12_file (d : PV → PV) (g : Graph) (h : WF g) :
    ∃ g', fileTrip R d g = .ok g' ∧ g'.nodes = g.nodes.map (mp (d ∘ hookSer)) ∧ graphNodes g' = g'.nodes ∧
      graphEq false g' g = g.nodes.all (fun n => pvEq false (rp (d ∘ hookSer) n.payload) n.payload) ∧
      graphEq false g g' = g.nodes.all (fun n => pvEq false n.payload (rp (d ∘ hookSer) n.payload)) := by
  have ht := trim_eq g h.trim
  obtain ⟨g', h1, h2, h3, h4, h5⟩ := trip true d false g h
  refine ⟨g', ?_, h2, h3, h4, h5⟩
  simp only [fileTrip, serialise, ht, serialise_eq, fileData_encode]; exact h1

/-- **Cascade file round trip with dill's structural behaviour** (`dillPV`: an object pickled by
value comes back as a new object): identical node records and `==` both ways for every
well-formed graph whose payloads hold no object with a `serialise()` method, no NaN and only
opaque objects that dill pickles by reference (module-level functions, builtins).  Each exclusion
is needed: `c12_file_full_fails`. -/
theorem c12_file_partial (fresh : Nat → Nat) (g : Graph) (h : WF g) (hb : ByRefOnly g) (hnan : NoNaN g) :
    ∃ g', fileTrip R (dillPV fresh) g = .ok g' ∧ g'.nodes = g.nodes ∧ graphNodes g' = g.nodes ∧
      graphEq false g' g = true ∧ graphEq false g g' = true := by
  obtain ⟨g', h1, h2, h3, h4, h5⟩ := c12_file (dillPV fresh) g h
  have hh : NoHook g := by
    intro n hn
    have := hb n hn
    cases hp : n.payload <;> simp_all [byRefOnly, isHook]
  have hfix : ∀ n ∈ g.nodes, (dillPV fresh ∘ hookSer) n.payload = n.payload := by
    intro n hn
    simp only [Function.comp, hookSer_id _ (hh n hn), dillPV_id fresh _ (hb n hn)]
  have hid : g.nodes.map (mp (dillPV fresh ∘ hookSer)) = g.nodes := map_mp_fix _ _ hfix
  refine ⟨g', h1, by rw [h2, hid], by rw [h3, h2, hid], ?_, ?_⟩
  · rw [h4, List.all_eq_true]; intro n hn
    rw [rp_fix _ _ (hfix n hn)]; exact pvEq_refl _ (hnan n hn)
  · rw [h5, List.all_eq_true]; intro n hn
    rw [rp_fix _ _ (hfix n hn)]; exact pvEq_refl _ (hnan n hn)

/-- a single node whose payload is a fluent-style tuple (function, args, kwargs) with a function
dill pickles by value (a lambda) -/
def exLambda : Graph :=
  { nodes := [{ name := "a", outputs := ["0"], payload := .tuple [.atom false 7, .list [.str "input0"], .dict []], inputs := [] }], sinks := ["a"] }

/-- a single node whose payload holds a NaN inside a list: equal to itself through the dict (same
objects), not through the file (new objects) -/
def exNaNIn : Graph := { nodes := [{ name := "a", outputs := ["0"], payload := .list [.float true "nan"], inputs := [] }], sinks := ["a"] }

theorem exLambda_wf : WF exLambda := ⟨by decide, by decide, by decide, by decide, by decide⟩
theorem exNaNIn_wf : WF exNaNIn := ⟨by decide, by decide, by decide, by decide, by decide⟩

/-- The file round trip is NOT `==` for every well-formed graph, whatever new identities dill
hands out (`fresh id ≠ id`): a payload holding a lambda comes back holding a different function
object (here `NoNaN` holds); a payload holding a NaN comes back holding another NaN (here
`ByRefOnly` holds). -/
theorem c12_file_full_fails (fresh : Nat → Nat) (hf : ∀ i, fresh i ≠ i) :
    (¬ ∀ g, WF g → NoNaN g → ∃ g', fileTrip R (dillPV fresh) g = .ok g' ∧ graphEq false g' g = true) ∧
    (¬ ∀ g, WF g → ByRefOnly g → ∃ g', fileTrip R (dillPV fresh) g = .ok g' ∧ graphEq false g' g = true) := by
  constructor
  · intro hall
    obtain ⟨g', h1, h2⟩ := hall exLambda exLambda_wf (by decide)
    obtain ⟨g'', h1', _, _, h4, _⟩ := c12_file (dillPV fresh) exLambda exLambda_wf
    rw [h1] at h1'
    cases h1'
    rw [h4] at h2
    simp [exLambda, rp, isNone, hookSer, dillPV, dillL, dillD, pvEq, pvEqIn, pvEqL, hf 7] at h2
  · intro hall
    obtain ⟨g', h1, h2⟩ := hall exNaNIn exNaNIn_wf (by decide)
    obtain ⟨g'', h1', _, _, h4, _⟩ := c12_file (dillPV fresh) exNaNIn exNaNIn_wf
    rw [h1] at h1'
    cases h1'
    rw [h4] at h2
    simp [exNaNIn, rp, isNone, hookSer, dillPV, dillL, pvEq, pvEqIn, pvEqL] at h2

/-! ### non-vacuity -/

/-- a (default output) → b (outputs x, y) → c (terminal WITH an output, tuple payload), d (terminal
without outputs, consumes b.y and a through inputs called `data` and `node_factory`): two sinks, a
multi-output parent, a shared source -/
def exG : Graph :=
  { nodes := [ { name := "a", outputs := ["0"], payload := .none, inputs := [] },
               { name := "b", outputs := ["x", "y"], payload := .int 3, inputs := [("in", ⟨"a", "0"⟩)] },
               { name := "c", outputs := ["0"], payload := .tuple [.str "f", .list [.int 1]], inputs := [("p", ⟨"b", "x"⟩)] },
               { name := "d", outputs := [], payload := .dict [(.str "k", .bool true)], inputs := [("data", ⟨"b", "y"⟩), ("node_factory", ⟨"a", "0"⟩)] } ]
    sinks := ["c", "d"] }

/-- a fluent-style graph: payloads (function, args, kwargs) with module-level functions -/
def exF : Graph :=
  { nodes := [ { name := "src:1", outputs := ["0", "1"], payload := .tuple [.atom true 1, .list [.int 0, .float false "0x1.8p+0"], .dict []], inputs := [] },
               { name := "sum:2", outputs := ["0"], payload := .tuple [.atom true 2, .list [.str "input0", .str "input1"], .dict [(.str "axis", .int 0)]],
                 inputs := [("input0", ⟨"src:1", "0"⟩), ("input1", ⟨"src:1", "1"⟩)] } ]
    sinks := ["sum:2"] }

/-- a node with an input called `name` (only possible by writing to `Node.inputs` directly) -/
def exBad : Graph :=
  { nodes := [ { name := "a", outputs := ["0"], payload := .none, inputs := [] },
               { name := "b", outputs := [], payload := .none, inputs := [("name", ⟨"a", "0"⟩)] } ]
    sinks := ["b"] }

example : deserialise R (serialise exBad) = .error .typeError :=
  c12_reserved_raises exBad (by decide) (by decide) ⟨_, List.mem_cons_of_mem _ (List.mem_singleton.mpr rfl), _, List.mem_singleton.mpr rfl, by decide⟩
example : WF exG := ⟨by decide, by decide, by decide, by decide, by decide⟩
example : WF exF := ⟨by decide, by decide, by decide, by decide, by decide⟩
example : WF { nodes := [], sinks := [] } := ⟨by decide, by decide, by decide, by decide, by decide⟩
example : NoHook exG ∧ NoTopNaN exG ∧ NoNaN exF ∧ ByRefOnly exF := by decide
-- the round trip keeps all four nodes, `c` (terminal with an output) included
example : (match deserialise R (serialise exG) with
    | .ok g' => (graphNodes g').map (·.name) == ["a", "b", "c", "d"] && g'.sinks == ["c", "d"] && graphEq true g' exG
    | .error _ => false) = true := by decide
-- through JSON the tuple payload of `c` comes back as a list, so `==` is false for this graph
example : (match jsonTrip R exG with
    | .ok g' => (graphNodes g').map (·.name) == ["a", "b", "c", "d"] && !graphEq false g' exG
    | .error _ => false) = true := by decide
/-- payloads JSON represents faithfully (lists, string-keyed dicts, str incl. non-ASCII, numbers), a node with
the same output name twice, a terminal node with outputs, a node twice in the sink list -/
def exJ : Graph :=
  { nodes := [ { name := "a", outputs := ["x", "x", "y"], payload := .list [.int 1, .str "é😀", .dict [(.str "k", .list [])]], inputs := [] },
               { name := "b", outputs := ["0"], payload := .dict [(.str "a", .float false "0x1.8p+0"), (.str "b", .none)],
                 inputs := [("p", ⟨"a", "x"⟩), ("q", ⟨"a", "y"⟩)] } ]
    sinks := ["b", "b"] }

theorem exJ_wf : WF exJ := ⟨by decide, by decide, by decide, by decide, by decide⟩

/-- `Faithful` has an instance on a well-formed graph … -/
theorem exJ_faithful : Faithful exJ := by
  refine ⟨?_, by decide⟩
  intro n hn
  simp only [exJ, List.mem_cons, List.not_mem_nil, or_false] at hn
  rcases hn with rfl | rfl <;> rfl

/-- … so the last clause of `c12_json` is instantiated: identical records and `==` through JSON -/
example : ∃ g', jsonTrip R exJ = .ok g' ∧ g'.nodes = exJ.nodes ∧ graphEq false g' exJ = true ∧ graphEq false exJ g' = true := by
  obtain ⟨g', h1, _, _, _, _, h6⟩ := (c12_json exJ exJ_wf).2 (by decide)
  obtain ⟨h7, h8, h9⟩ := h6 (by decide) exJ_faithful
  exact ⟨g', h1, h7, h8, h9⟩

/-- value payloads that `json.dumps` rejects (bytes, a frozenset, an instance of a class with `__eq__`), also nested -/
def exV : Graph :=
  { nodes := [ { name := "a", outputs := ["0"], payload := .val "bytes" "bytes:b'\\xff'", inputs := [] },
               { name := "b", outputs := ["0"], payload := .tuple [.atom true 1, .list [.val "frozenset" "frozenset{int:1}"], .dict [(.str "k", .val "C12Val" "C12Val()")]],
                 inputs := [("input0", ⟨"a", "0"⟩)] } ]
    sinks := ["b"] }

theorem exV_wf : WF exV := ⟨by decide, by decide, by decide, by decide, by decide⟩
example : NoHook exV ∧ NoTopNaN exV ∧ NoNaN exV ∧ ByRefOnly exV := by decide
-- not JSON-serialisable; `==` through the dict and (new but equal value objects) through the file
example : (match jsonTrip R exV with | .error .typeError => true | _ => false) = true := by decide
example : ∃ g', fileTrip R (dillPV (· + 100)) exV = .ok g' ∧ g'.nodes = exV.nodes ∧ graphEq false g' exV = true := by
  obtain ⟨g', h1, h2, _, h4, _⟩ := c12_file_partial (· + 100) exV exV_wf (by decide) (by decide)
  exact ⟨g', h1, h2, h4⟩
-- a bytes payload is not the str with the same characters, a set is not the frozenset with the same elements (stricter than Python)
example : pvEq false (.val "bytes" "bytes:b'xy'") (.str "xy") = false ∧ pvEq true (.val "set" "{}") (.val "frozenset" "{}") = false := by decide

-- a fluent-style graph is not JSON-serialisable, and comes back `==` from the file
example : (match jsonTrip R exF with | .error .typeError => true | _ => false) = true := by decide
example : (match fileTrip R (dillPV (· + 100)) exF with
    | .ok g' => graphEq false g' exF && graphEq false exF g'
    | .error _ => false) = true := by decide
-- a payload object with a `serialise()` method comes back as the method's result; a factory inverting it restores it
example : (match deserialise R (serialise exHook) with
    | .ok g' => g'.nodes.map (fun n => match n.payload with | .dict [(.str "k", .int 1)] => true | _ => false) == [true]
    | .error _ => false) = true := by decide
-- int keys become strings through JSON, a clashing key overwrites: {1: 4, "1": 3, None: 5} ↦ {"1": 3, "null": 5}
example : (match normPV (.dict [(.int 1, .int 4), (.str "1", .int 3), (.none, .int 5)]) with
    | .dict [(.str "1", .int 3), (.str "null", .int 5)] => true | _ => false) = true := by decide
-- a dict that refers to a missing parent / output is an error, as in Python; so is an input called `name`
example : (match deserialise R [("b", { outputs := [], inputs := [("i", .bare "a")], payload := none })] with
    | .error .keyError => true | _ => false) = true := by decide
example : (match deserialise R [("a", { outputs := ["0"], inputs := [], payload := none }),
                                ("b", { outputs := [], inputs := [("name", .bare "a")], payload := none })] with
    | .error .typeError => true | _ => false) = true := by decide

end EkwVerif.Export
