/-
C10, "…and therefore to the coordinate": the step from the OUTPUT NAME `toString k` (Model/Runner + Model/Lower:
`c10_yield_binding_fluent`) to the COORDINATE of the yields dimension (Model/Fluent: `withYields`, the model of
`Action.__init__(nodes, yields)`: `[x.get_output(out) for out in x.outputs]` laid out along a new last dimension whose
coordinate variable is the author's list).

The two models meet in one convention, which is also the one the C13 correspondence check uses to read the real node
arrays: the array element `Expr.out k e` is `Output(parent, parent.outputs[k])`, and a fluent node with `num_outputs = N`
has `outputs = fluentOutputs N`.
-/
import EkwVerif.Model.Fluent
import EkwVerif.Model.YieldRef
import EkwVerif.Props.C10

namespace EkwVerif.Runner
open EkwVerif.Lower EkwVerif.Fluent
open Aux

namespace Aux
theorem fluentOutputs_getD (N k : Nat) (hN : 2 ≤ N) (hk : k < N) : (fluentOutputs N).getD k "" = toString k := by
  have hfo : fluentOutputs N = (List.range N).map toString := by
    unfold fluentOutputs; split
    · omega
    · rfl
  rw [hfo, List.getD_eq_getElem?_getD, List.getElem?_map, List.getElem?_range hk]
  rfl

theorem findDim_append_new (dims : List Dim) (x : Dim) (h : ∀ d ∈ dims, d.name ≠ x.name) :
    (dims ++ [x]).find? (·.name = x.name) = some x := by
  induction dims with
  | nil => simp
  | cons d ds ih =>
    have hd := h d (by simp)
    simp only [List.cons_append, List.find?_cons]
    have : decide (d.name = x.name) = false := by simpa using hd
    rw [this]
    exact ih (fun d' hd' => h d' (List.mem_cons_of_mem _ hd'))
end Aux

/-- **The k-th yielded value is at the k-th declared coordinate.** Let `a` be an array of generator nodes and
`A = Action(a, yields = (y, ls))` with `N = len(ls) ≥ 2` (what `from_source/map/reduce(…, yields=…)` build). Then
1. the new dimension `y` carries the author's coordinates `ls` in list order;
2. the element of `A` at position `k` of `y` (whatever the other indices) is output number `k` of the node below it;
3. whenever that node — named `nameOf (a.node ix)`, built by `fluent.Node` with `num_outputs = N`, lowered to `t` — runs
   and its generator yields `ys` (N picklable values), the dataset by which every consumer of that array element refers to
   it holds `ys[k]`.
Hence a consumer placed at coordinate `ls[k]` reads the k-th yielded value — for every N, also N > 10.
What is proved and what is convention: conjuncts 1 and 2 unfold `withYields` (the model of `Action.__init__`); conjunct 3
is `c10_yield_binding_fluent` read through `refOf`, which is a DEFINITION (Model/YieldRef.lean) stating the convention
"`Expr.out k e` is `Output(parent, parent.outputs[k])`" -- the meaning of the list comprehension
`[x.get_output(out) for out in x.outputs]` under `apply_ufunc`, not derived from a model of xarray. That convention is
tied to the real `Action.__init__` only by the correspondence check (cases of kind `prog`, 1..14 coordinates in the
author's order: driver op `ref_of` -- the element of the real node array found at LABEL `coords[k]` is an `Output` of
the generator node whose name is the model's `(withYields …).node` read through `refOf` -- and the oracle: a consumer
built there must receive the k-th value its source yields). -/
theorem c10_yield_coordinate (a : NodeArray) (y : String) (ls : List Coord) (hN : 2 ≤ ls.length)
    (hfresh : ∀ d ∈ a.dims, d.name ≠ y) (nameOf : Expr → String) (ix : Ix) (hk : ix y < ls.length) :
    ((withYields a (some (y, ls))).findDim y).map (·.labels) = some ls ∧
    (withYields a (some (y, ls))).node ix = .out (ix y) (a.node ix) ∧
    ∀ (n : SNode) (t : Task) (es edges : List Edge) (mem : Ds → Option Val) (pub : String → Bool) (ys : List Val)
      (_hout : n.outputs = fluentOutputs ls.length) (_hl : node2task (nameOf (a.node ix)) n = .ok (t, es))
      (hys : ys.length = ls.length) (_hp : AllPicklable ys)
      (_hinv : (run (nameOf (a.node ix)) t edges mem pub (.gen ys)).received.isSome = true),
      (run (nameOf (a.node ix)) t edges mem pub (.gen ys)).err = none ∧
      memAfter (nameOf (a.node ix)) (run (nameOf (a.node ix)) t edges mem pub (.gen ys)).handled mem
        (refOf nameOf ls.length ((withYields a (some (y, ls))).node ix)).source = some (ys[ix y]'(by omega)) := by
  have h1 : ¬ ls.length = 1 := by omega
  refine ⟨?_, ?_, ?_⟩
  · simp only [withYields, NodeArray.findDim]
    rw [findDim_append_new a.dims ⟨y, ls, true⟩ hfresh]
    rfl
  · simp [withYields, h1]
  · intro n t es edges mem pub ys hout hl hys hp hinv
    obtain ⟨he, hm⟩ := c10_yield_binding_fluent ls.length hN (nameOf (a.node ix)) n t es hout hl edges mem pub ys hys hp hinv
    refine ⟨he, ?_⟩
    have := hm (ix y) hk
    simp only [withYields, h1, ↓reduceIte, refOf, InRef.source, fluentOutputs_getD ls.length (ix y) hN hk]
    exact this

/-- non-vacuity: 12 coordinates in the author's (unsorted) order; the element at position 10 is output "10" -/
example : (refOf (fun _ => "g") 12
    ((withYields (fromSource [("x", [.int 0])] 0)
      (some ("y", [.int 30, .int 10, .int 20, .int 40, .int 50, .int 60, .int 70, .int 80, .int 90, .int 100, .int 110, .int 5]))).node
        (fun d => if d = "y" then 10 else 0))).source = ⟨"g", "10"⟩ := by decide

/-- the reference the driver op `ref_of` answers (compared with the real node array by the tie) is the dataset of
conjunct 3 -/
example : (yieldRef "g" 12 10).source = ⟨"g", "10"⟩ ∧ (yieldRef "g" 1 0).source = ⟨"g", "0"⟩ := by decide

end EkwVerif.Runner
